"""C17 — Langton rule tables (random_rule_table, table_walk_through, table_rule):
correspondence generators, runner with scripted randomness, Coq emitter, property oracle."""
import itertools
from fractions import Fraction

from harness.driver import call_impl, cz, cnat, cbool, clist, copt, cres

ID = 'C17'
# oracle() evaluates every clause of C17 on the implementation's own output, so it decides the property
# on a case; the model is finer (it also fixes the order of the random draws)
ORACLE_DECIDES = True
COQ_IMPORTS = ('From CPL Require Import Model.Base Model.RuleTables Corr.C17.\n'
               'From Coq Require Import QArith.\nOpen Scope Z_scope.')
NONTRIVIAL_RULE = ('k in 2..5 and {10,11,12,16,36} (plus the rejected k = 0, 1, 37 and out-of-range q), r in 0..2, all four flag combinations, q given and '
                   'None, lambda None / small fractions / outside [0,1]; oracle scripts random, always-quiescent, never-quiescent, '
                   'alternating, exact ties (dyadic only), and EVERY boolean script for k=2,r<=1 and every (boolean, choice) script '
                   'for k=3,r=0 (thorough: also k=4,r=0); walk-through on every one of the 256 tables of k=2,r=1 and on conforming, arbitrary, all-quiescent, none-quiescent and key-shuffled tables with '
                   'targets reachable / unreachable / equal / outside [0,1]; table_rule on present and absent keys incl. multi-digit '
                   'states. non-trivial = the call returned (no exception) and, for the two random functions, at least one table '
                   'entry exists; distinct = distinct case dicts')
EXHAUSTIVE = {'quick': False, 'thorough': False}
NOTES = ['random.random / random.choice / np.random.randint are patched in the harness process to replay the oracle script of the case '
         '(restored in finally); a script that runs out yields 0.0 / index 0, as in the model',
         'lambda is compared as an exact fraction: numerator = round(lambda * k^n), checked exact in Python (denominator 0 otherwise)',
         'every boolean oracle script for k=2, r<=1 and every (boolean, choice) script for k=3, r=0 is enumerated (all flags); '
         'every table over the 8 keys of k=2, r=1 is walked (all flags)']
NOTES.append("bucket 'large/near_target/*' (k=2 r=8: 131072 entries; k=3 r=5: 177147 entries; target j/K away from the current "
             "lambda, j in -3..3) is ORACLE-ONLY: the table is built by the real random_rule_table and walked by the real "
             "table_walk_through under a scripted oracle, and every C17 clause is evaluated in Python on the full tables; the Coq "
             "side sees the constant case CNoModel (check_case = true), because evaluating the association-list model on 10^5 "
             "entries is too slow. It exists because one entry is a lambda step of ~6e-6..8e-6 there, so float tolerances "
             "(np.isclose) in the comparisons are visible only at this size")
NOTES.append("doubles vs rationals: the code compares the double fl((K-c)/K) (Python int/int: correctly rounded; exact iff K is a power "
             "of two, i.e. k in {2,4,8,16,32}) with the double target x; the model compares (K-c)/K with a rational lam. The harness "
             "gives the model lam = c0/K when x == fl(c0/K) for an integer c0, else the exact value of x (float.as_integer_ratio); "
             "Properties/C17.v proves that this reading yields the same three-way comparison for every monotone rounding "
             "(C17_double_reading_offgrid / _ongrid; the on-grid case needs distinct grid points to round to distinct doubles: K < 2^52). "
             "Targets 'offgrid_double' (current lambda +-1e-6, +-1e-9, nextafter, 0.1+0.2, 1/3 as a double) exercise it")
NOTES.append("k in {10,11,12,16,36} (r = 0 and, up to k = 16, r = 1) exercise the LETTER digits of np.base_repr ('AAA' is code [10;10;10] "
             "in the model) incl. strong quiescence at k >= 11; k = 36, r = 1 (46656 entries) is oracle-only like the large bucket; "
             "k = 1 and k = 37 are the rejected neighbours of the domain of C17_rrt_defined")
NOTES.append("bucket 'paramtypes/*' mirrors what the library does with other argument forms: k, r, quiescent_state as "
             "np.int32/int64/uint8 scalars; 'paramtypes/narrow_overflow/*': k, r as np.int8/uint8/int16 scalars whose k**(2r+1) is "
             "beyond the type's range (k=5 r=2, k=4 r=2, k=3 r=3, k=16 r=1, k=7 r=1, k=2 r=3..; int16 with k=8 r=2 / k=2 r=7 is "
             "oracle-only, 32768 entries) - the regression test of repair dc48e45 (operator.index on entry; before it k**n wrapped "
             "silently, e.g. uint8 5**5 = 53 states); lambda_val as np.float64, np.float32 (dyadic values only), Python int 0/1, Fraction "
             "(walk-through only where K is a power of two), every exact double m/K incl. the m with (m/K)*K != m (K = 243: 61, 122, "
             "127); table_rule neighbourhoods as list/tuple/ndarray int8..int64/uint8 (decimal rendering) and float64/float32/list of "
             "floats/bool (str(x) = '1.0' / 'True': looked up under exactly that string, ValueError otherwise); tables as dict subclass, "
             "OrderedDict, defaultdict, MappingProxyType (table_rule: accepted; walk-through: returns iff no perturbation is due, else "
             "the assignment raises)")
NOTES.append("what the check assumes about lambda_val: it is a Python float (or int 0/1, or np.float64 - the same IEEE double); the model's "
             "rational is the reading of that double (lam_reading). Recorded, not claimed (the property text leaves the representation of "
             "the target open): a Fraction target is compared EXACTLY with the double (K-c)/K, so for K not a power of two an on-target "
             "table is not recognised (K = 27, Fraction(9,27): one entry perturbed, 10/27 returned); an np.float32 target is compared in "
             "float32 (since dc48e45 k is always a Python int, so this no longer depends on k's type): np.float32(9/27) counts as reached "
             "on a table at 9/27 although its value differs from 9/27 by 1e-8")
ASSUMPTIONS = ['rational draws u and lambda a/b are passed to the code as the doubles a/b; a draw that ties with 1 - lambda is generated '
               'only when both are dyadic (exact in doubles); distinct small fractions differ by far more than an ulp',
               'exception classes of random_rule_table / table_walk_through are not compared (any exception on both sides agrees); '
               'ValueError of table_rule is compared exactly',
               'table keys are digit strings over 0-9A-Z; cell values given to table_rule are non-negative ints',
               'large/near_target/* cases are not compared with the model (oracle-only, see notes); the theorems cover them '
               '(all k, r), the tie to /repo at that size rests on the Python oracle']

DIGITS = '0123456789ABCDEFGHIJKLMNOPQRSTUVWXYZ'
BIG = (2 ** 20 - 1, 2 ** 20)      # a draw just below 1


def enc(s):
    out = []
    for ch in s:
        i = DIGITS.find(ch)
        out.append(i if i >= 0 else 100 + ord(ch))
    return out


def all_states(k, n):
    """independent of np.base_repr: the k^n digit strings in numeric order"""
    return [''.join(p) for p in itertools.product(DIGITS[:k], repeat=n)]


def dyadic(d):
    return d & (d - 1) == 0


# ---------------------------------------------------------------- generators
def _lam_fraction(lam, k):
    if lam is None:
        return Fraction(k - 1, k) if k else None
    return Fraction(lam[0], lam[1])


def _fix_ties(us, lam, k):
    lf = _lam_fraction(lam, k)
    if lf is None:
        return us
    out = []
    for a, b in us:
        if Fraction(a, b) == 1 - lf and not (dyadic(b) and dyadic(lf.denominator)):
            a, b = 2 * a + 1, 4 * b           # move off the tie
        out.append([a, b])
    return out


def _us(rng, kind, K, lam, k):
    if kind == 'always_q':
        us = [[0, 1]] * K
    elif kind == 'never_q':
        us = [list(BIG)] * K
    elif kind == 'alternating':
        us = [[0, 1] if i % 2 == 0 else list(BIG) for i in range(K)]
    elif kind == 'alternating2':
        us = [list(BIG) if i % 2 == 0 else [0, 1] for i in range(K)]
    elif kind == 'short':                      # the script runs out: 0.0 afterwards
        us = [list(BIG)] * (K // 2)
    elif kind == 'tie':
        lf = _lam_fraction(lam, k)
        t = 1 - lf if lf is not None else Fraction(1, 2)
        if t < 0 or t >= 1:
            t = Fraction(1, 2)
        us = []
        for i in range(K):
            c = rng.randrange(3)
            if c == 0:
                us.append([t.numerator, t.denominator])
            elif c == 1:
                us.append([t.numerator * 64 + 1, t.denominator * 64])
            else:
                us.append([max(t.numerator * 64 - 1, 0), t.denominator * 64])
    else:
        us = []
        for i in range(K):
            b = rng.choice([2, 3, 4, 5, 7, 8, 16, 64, 1000])
            us.append([rng.randrange(b), b])
    return _fix_ties([list(u) for u in us], lam, k)


LAMS = [None, [0, 1], [1, 1], [1, 2], [1, 4], [3, 4], [1, 3], [2, 3], [1, 5], [9, 10], [3, 2], [-1, 2], [5, 8], [1, 16]]
OKINDS = ['random', 'random', 'always_q', 'never_q', 'alternating', 'alternating2', 'tie', 'short']


def _rrt_case(rng, k, r, sq, iso, qmode, lam, okind, kind):
    K = k ** (2 * r + 1)
    q = rng.randrange(k) if (qmode == 'given' and k > 0) else None
    if qmode == 'bad':
        q = rng.choice([-1, k, k + 3])
    ri = rng.randrange(k) if k > 0 else 0
    if qmode == 'badri':
        q, ri = None, rng.choice([-1, k])
    cs = [rng.randrange(1000) if okind != 'always0' else 0 for _ in range(K)]
    if okind == 'short':
        cs = cs[:K // 3]
    return {'kind': kind, 'op': 'rrt', 'k': k, 'r': r, 'lam': lam, 'q': q, 'sq': sq, 'iso': iso,
            'us': _us(rng, okind, K, lam, k), 'cs': cs, 'ri': ri}


def _table(rng, k, r, q, sq, iso, tkind):
    sts = all_states(k, 2 * r + 1)
    d = {}
    for s in sts:
        if tkind == 'all_q':
            v = q
        elif tkind == 'no_q':
            v = rng.choice([x for x in range(k) if x != q] or [q])
        else:
            v = rng.randrange(k) if rng.random() < 0.6 else q
        d[s] = v
    if tkind != 'arbitrary':
        # make it conform to the flags (as random_rule_table would)
        for s in sts:
            if iso and s[::-1] in d and s[::-1] < s:
                d[s] = d[s[::-1]]
        for s in sts:
            if sq and len(set(s)) == 1:
                d[s] = DIGITS.index(s[0])
    items = [[s, d[s]] for s in sts]
    if tkind == 'shuffled':
        rng.shuffle(items)
    return items


def lam_reading(x, K):
    """The rational the model must be given for the DOUBLE target x (Proofs: reading_ongrid / reading_offgrid):
    if x is the double of a grid point c0/K (Python int / int is correctly rounded) the model gets c0/K, otherwise the
    exact value of x.  run_impl recovers x as num / den in both cases."""
    if K > 0:
        c = int(round(x * K))
        for c0 in (c - 1, c, c + 1):
            if c0 / K == x:
                return [c0, K]
    p, q = x.as_integer_ratio()
    return [p, q]


def _target(rng, k, r, q, items, tk):
    import math
    K = k ** (2 * r + 1)
    cur = Fraction(K - sum(1 for _, v in items if v == q), K)
    if tk == 'offgrid_double':
        # doubles that are not multiples of 1/K, most of them next to the current lambda
        c = cur.numerator / cur.denominator
        x = rng.choice([c + 1e-6, c - 1e-6, c + 1e-9, c - 1e-9, math.nextafter(c, 2.0), math.nextafter(c, -1.0),
                        0.1 + 0.2, 1 / 3, c + 1e-6, c - 1e-6])
        return lam_reading(x, K)
    if tk == 'current':
        return [cur.numerator, cur.denominator]
    if tk == 'grid':
        return [rng.randrange(K + 1), K]
    if tk == 'near':
        f = cur + Fraction(rng.choice([-3, -2, -1, 1, 2, 3]), K)
        return [f.numerator, f.denominator]
    if tk == 'offgrid':
        b = rng.choice([3, 5, 6, 7, 9, 10, 11, 13])
        return [rng.randrange(b + 1), b]
    return rng.choice([[0, 1], [1, 1], [-1, 2], [3, 2], [1, 2]])


TKINDS = ['conforming', 'conforming', 'arbitrary', 'all_q', 'no_q', 'shuffled']
TARGETS = ['current', 'grid', 'grid', 'near', 'offgrid', 'offgrid', 'extreme', 'offgrid_double', 'offgrid_double']
CKINDS = ['random', 'random', 'zeros', 'alternating']


def _twt_case(rng, k, r, sq, iso, tkind, tk, ck, kind, q=None):
    K = k ** (2 * r + 1)
    if q is None:
        q = rng.randrange(k)
    items = _table(rng, k, r, q, sq, iso, tkind)
    lam = _target(rng, k, r, q, items, tk)
    m = 2 * K + 2
    if ck == 'zeros':
        cs = [0] * m
    elif ck == 'alternating':
        cs = [0 if i % 2 == 0 else 999 for i in range(m)]
    else:
        cs = [rng.randrange(1000) for _ in range(m)]
    return {'kind': kind, 'op': 'twt', 'k': k, 'r': r, 'lam': lam, 'q': q, 'sq': sq, 'iso': iso,
            'table': items, 'cs': cs}


def _tr_cases(rng, n_cases):
    for i in range(n_cases):
        mode = rng.choice(['digits', 'digits', 'multi', 'ambiguous', 'empty'])
        L = rng.choice([1, 3, 3, 5])
        if mode == 'digits':
            k = rng.randint(2, 10)
            nb = [rng.randrange(k) for _ in range(L)]
        elif mode == 'multi':
            nb = [rng.choice([0, 1, 9, 10, 11, 12, 35, 100, 123]) for _ in range(L)]
        elif mode == 'ambiguous':
            nb = rng.choice([[10, 1], [1, 0, 1], [1, 1, 0], [11, 0], [1, 10], [0, 0], [0]])
        else:
            nb = []
        key = ''.join(str(x) for x in nb)
        keys = set()
        for _ in range(rng.randint(0, 6)):
            keys.add(''.join(rng.choice('0123456789') for _ in range(rng.choice([1, 3, 3, len(key) or 1]))))
        present = rng.random() < 0.6
        keys.discard(key)
        items = [[s, rng.randrange(-2, 12)] for s in sorted(keys)]
        if present:
            items.insert(rng.randint(0, len(items)), [key, rng.randrange(0, 12)])
        elif key and rng.random() < 0.5:
            # a near miss: the same digits with a leading zero, or one digit changed
            items.append(['0' + key, 7])
        yield {'kind': 'table_rule/%s/%s' % (mode, 'present' if present else 'absent'), 'op': 'table_rule',
               'nb': nb, 'table': items, 'as_array': rng.random() < 0.5}


def _paramtypes(rng, tier, flags):
    """'paramtypes/*': the same calls with the arguments in the other forms callers use (NumPy scalars, np.float32/64,
    Python int, Fraction, exact m/N doubles, tuples / ndarrays of several dtypes, dict subclasses / read-only mappings).
    A guard such as isinstance(k, int), or a normalisation of the inputs, shows up here."""
    out = []
    thorough = tier == 'thorough'
    # k, r, quiescent_state as NumPy integer scalars (sizes with k^n <= 255 so that uint8 arithmetic does not wrap)
    for ptype in ('int32', 'int64', 'uint8'):
        for k, r in ((2, 1), (3, 1), (3, 2), (5, 1), (2, 3), (11, 0)):
            for sq, iso in (flags if thorough else [rng.choice(flags)]):
                for qmode in ('given', 'none', 'bad'):
                    c = _rrt_case(rng, k, r, sq, iso, qmode, rng.choice(LAMS), rng.choice(['random', 'alternating', 'never_q']),
                                  'paramtypes/rrt/%s' % ptype)
                    if qmode == 'bad':
                        c['q'] = k if ptype == 'uint8' else rng.choice([-1, k])
                    c['ptype'] = ptype
                    out.append(c)
                c = _twt_case(rng, k, r, sq, iso, rng.choice(['conforming', 'arbitrary']),
                              rng.choice(['grid', 'near', 'offgrid', 'extreme', 'offgrid_double']), 'random',
                              'paramtypes/twt/%s' % ptype)
                if c['lam'][0] < 0 and ptype == 'uint8':
                    c['lam'] = [0, 1]
                c['ptype'] = ptype
                out.append(c)
    # k, r as NARROW NumPy scalars whose k**(2r+1) is beyond the type's range (regression test of the repair dc48e45:
    # before it, k**n wrapped silently, e.g. uint8 5**5 = 53 states, int8 2**7 = -128 -> an empty table)
    narrow = [('int8', 2, 3), ('int8', 6, 1), ('int8', 3, 2), ('int8', 7, 1), ('uint8', 7, 1), ('uint8', 2, 4), ('int8', 2, 4),
              ('uint8', 4, 2), ('int8', 4, 2), ('uint8', 3, 3), ('uint8', 5, 2), ('int8', 5, 2), ('uint8', 16, 1), ('int8', 16, 1),
              ('int16', 5, 2), ('int16', 3, 3)]                       # the last two fit int16: control group
    for ptype, k, r in narrow:
        K = k ** (2 * r + 1)
        fl = flags if (K <= 1024 or thorough) else [rng.choice(flags)]
        for sq, iso in fl:
            c = _rrt_case(rng, k, r, sq, iso, rng.choice(['given', 'none']), rng.choice([[1, 2], [9, 10], [1, 4], None]),
                          'random' if K > 243 else rng.choice(['random', 'alternating', 'never_q']),
                          'paramtypes/narrow_overflow/rrt/%s' % ptype)
            c['ptype'] = ptype
            out.append(c)
            if K <= 1024 or (sq and iso) or thorough:
                c = _twt_case(rng, k, r, sq, iso, 'conforming', 'near' if K > 1024 else rng.choice(['near', 'grid', 'offgrid', 'extreme']),
                              'random', 'paramtypes/narrow_overflow/twt/%s' % ptype)
                if c['lam'][0] < 0 and ptype == 'uint8':
                    c['lam'] = [0, 1]
                c['ptype'] = ptype
                out.append(c)
    # lambda_val in the other numeric forms
    dy = [[0, 1], [1, 1], [1, 2], [1, 4], [3, 4], [1, 8], [5, 8]]
    for lam_type, lams in (('float64', [l for l in LAMS if l]), ('float32', dy), ('int', [[0, 1], [1, 1]]),
                           ('Fraction', [l for l in LAMS if l])):
        for k, r in ((2, 1), (3, 1), (4, 1), (2, 2)):
            for rep in range(4 if thorough else 1):
                sq, iso = rng.choice(flags)
                c = _rrt_case(rng, k, r, sq, iso, 'given', rng.choice(lams), rng.choice(['random', 'alternating', 'tie']),
                              'paramtypes/rrt/lam_%s' % lam_type)
                c['lam_type'] = lam_type
                out.append(c)
                # a Fraction target is compared EXACTLY with the double (K-c)/K by the library; the model's reading is only
                # faithful where that double is exact (K a power of two)
                if lam_type == 'Fraction' and k == 3:
                    continue
                c = _twt_case(rng, k, r, sq, iso, 'conforming', 'current', 'random', 'paramtypes/twt/lam_%s' % lam_type)
                K = k ** (2 * r + 1)
                c['lam'] = rng.choice(lams) if lam_type in ('float32', 'int') else rng.choice([[rng.randrange(K + 1), K]] + lams)
                c['lam_type'] = lam_type
                out.append(c)
    # exact m/N doubles: every attainable m on small tables (thorough), a sample incl. every m whose (m/N)*N is not m (quick)
    for k, r in ((2, 1), (3, 1), (2, 2), (5, 1), (3, 2)):
        K = k ** (2 * r + 1)
        inexact = [m for m in range(K + 1) if (m / K) * K != m]
        ms = list(range(K + 1)) if thorough else sorted(set(inexact + [0, K] + [rng.randrange(K + 1) for _ in range(3)]))
        for m in ms:
            for tkind in ('no_q', 'all_q'):        # walked down from lambda 1, up from lambda 0: the target m/K is hit exactly
                sq, iso = (False, False) if rng.random() < 0.7 else rng.choice(flags)
                c = _twt_case(rng, k, r, sq, iso, tkind, 'current', 'random', 'paramtypes/twt/exact_m_over_N/k%dr%d' % (k, r))
                c['lam'] = [m, K]
                out.append(c)
        if K <= 32:
            for m in (range(K + 1) if thorough else [rng.randrange(K + 1) for _ in range(3)]):
                c = _rrt_case(rng, k, r, False, False, 'given', [m, K], 'random', 'paramtypes/rrt/exact_m_over_N')
                out.append(c)
    # tables that are dict subclasses / OrderedDict / read-only mappings
    for tform in ('subclass', 'ordered', 'proxy', 'proxy'):
        for k, r in ((2, 1), (3, 1)):
            for rep in range(6 if thorough else 2):
                sq, iso = rng.choice(flags)
                c = _twt_case(rng, k, r, sq, iso, rng.choice(['conforming', 'all_q', 'no_q']),
                              rng.choice(['current', 'grid', 'extreme', 'near']), 'random', 'paramtypes/twt/table_%s' % tform)
                c['tform'] = tform
                out.append(c)
    # table_rule: neighbourhood forms x table forms, present and absent
    nb_forms = ['list', 'tuple', 'int8', 'int32', 'int64', 'uint8', 'mixed', 'float64', 'float32', 'listfloat', 'bool']
    tforms = [None, 'subclass', 'ordered', 'proxy', 'defaultdict']
    for nb_form in nb_forms:
        for rep in range(8 if thorough else 3):
            L = rng.choice([1, 3, 5])
            nb = [rng.randrange(2) for _ in range(L)] if nb_form == 'bool' else [rng.choice([0, 1, 2, 3, 9, 10, 12, 100]) for _ in range(L)]
            key_int = ''.join('%d' % x for x in nb)
            key_own = _render(nb, nb_form)
            mode = rng.choice(['own', 'own', 'int_only', 'none'])
            items = [['7', 3], ['000', 1]]
            if mode == 'own':
                items.insert(1, [key_own, rng.randrange(12)])
            elif mode == 'int_only':        # only the integer rendering is stored: a float / bool neighbourhood must NOT find it
                items.insert(1, [key_int, rng.randrange(12)])
                if key_own != key_int:
                    items = [it for it in items if it[0] != key_own]
            items = list({s: v for s, v in items}.items())
            items = [[s, v] for s, v in items]
            out.append({'kind': 'paramtypes/table_rule/%s' % nb_form, 'op': 'table_rule', 'nb': nb, 'table': items,
                        'as_array': False, 'nb_form': nb_form, 'tform': rng.choice(tforms)})
    return out


def generate(rng, tier):
    out = []
    flags = [(a, b) for a in (False, True) for b in (False, True)]
    # ---- exhaustive oracle scripts on the smallest automata (every outcome of every draw)
    for r in (0, 1):
        K = 2 ** (2 * r + 1)
        for bits in itertools.product((0, 1), repeat=K):
            for sq, iso in flags:
                for q in ((0, 1) if (r == 0 or tier == 'thorough') else (sum(bits) % 2,)):
                    out.append({'kind': 'rrt/all-scripts/k2r%d' % r, 'op': 'rrt', 'k': 2, 'r': r, 'lam': [1, 2], 'q': q,
                                'sq': sq, 'iso': iso, 'us': [[0, 1] if b else list(BIG) for b in bits], 'cs': [0] * K, 'ri': 0})
    for script in itertools.product(((0, 0), (1, 0), (1, 1)), repeat=3):   # (quiescent) | (other, index)
        for sq, iso in flags:
            for q in (0, 1, 2):
                out.append({'kind': 'rrt/all-scripts/k3r0', 'op': 'rrt', 'k': 3, 'r': 0, 'lam': [1, 3], 'q': q, 'sq': sq, 'iso': iso,
                            'us': [[0, 1] if a == 0 else list(BIG) for a, _ in script],
                            'cs': [i for a, i in script if a == 1], 'ri': 0})
    if tier == 'thorough':
        for script in itertools.product(((0, 0), (1, 0), (1, 1), (1, 2)), repeat=4):
            for sq, iso in flags:
                for q in (0, 1, 2, 3):
                    out.append({'kind': 'rrt/all-scripts/k4r0', 'op': 'rrt', 'k': 4, 'r': 0, 'lam': [1, 4], 'q': q, 'sq': sq,
                                'iso': iso, 'us': [[0, 1] if a == 0 else list(BIG) for a, _ in script],
                                'cs': [i for a, i in script if a == 1], 'ri': 0})
    # ---- every table over the 8 keys of k=2, r=1, every flag combination, walked towards fixed targets
    sts8 = all_states(2, 3)
    for vals in itertools.product((0, 1), repeat=8):
        for sq, iso in flags:
            qq = rng.randrange(2)
            cur8 = (8 - sum(1 for v in vals if v == qq)) / 8
            tgts = [[0, 1], [1, 1], [1, 2], [3, 8], lam_reading(cur8 + 1e-6, 8), lam_reading(cur8 - 1e-6, 8)]
            for lam in (tgts if tier == 'thorough' else [rng.choice(tgts)]):
                out.append({'kind': 'twt/all-tables/k2r1', 'op': 'twt', 'k': 2, 'r': 1, 'lam': lam, 'q': qq,
                            'sq': sq, 'iso': iso, 'table': [[s, v] for s, v in zip(sts8, vals)],
                            'cs': [rng.randrange(1000) for _ in range(18)]})
    # ---- structured sweep of random_rule_table
    reps = 1 if tier == 'quick' else 4
    for k in (2, 3, 4, 5):
        for r in (0, 1, 2):
            K = k ** (2 * r + 1)
            for sq, iso in flags:
                for qmode in ('given', 'none'):
                    kinds = OKINDS if K <= 243 else (['random', 'alternating'] if K <= 1024 else ['random'])
                    for okind in kinds:
                        for _ in range(reps if K <= 1024 else 1):
                            if K > 1024 and tier == 'quick' and not (sq and iso) and qmode == 'none':
                                continue
                            lam = rng.choice(LAMS)
                            out.append(_rrt_case(rng, k, r, sq, iso, qmode, lam, okind, 'rrt/k%dr%d/%s' % (k, r, okind)))
    # rejected inputs
    for k in (0, 1, 2, 3):
        for qmode in ('bad', 'badri', 'given', 'none'):
            for lam in (None, [1, 2]):
                for sq in (False, True):
                    out.append(_rrt_case(rng, k, rng.choice([0, 1]), sq, rng.random() < 0.5, qmode, lam, 'never_q',
                                         'rrt/edge/k%d/%s' % (k, qmode)))
    # ---- k >= 10: np.base_repr writes digits >= 10 as LETTERS (keys like 'AAA'); boundary k = 36 / 37
    for k in (10, 11, 12, 16, 36):
        for sq, iso in flags:
            for okind in ('random', 'never_q', 'alternating'):
                out.append(_rrt_case(rng, k, 0, sq, iso, rng.choice(['given', 'none']), rng.choice(LAMS), okind,
                                     'rrt/k%dr0/letters' % k))
    for k, fl in ((10, [(True, True)]), (11, [(True, True), (True, False)]), (12, [(True, False)]), (16, [(True, True)])):
        for sq, iso in (fl if tier == 'quick' else flags):
            if k == 16 and tier == 'thorough' and not sq:
                continue
            out.append(_rrt_case(rng, k, 1, sq, iso, 'given', rng.choice([[1, 2], [9, 10], None]), 'random',
                                 'rrt/k%dr1/letters' % k))
    for k in (1, 37):
        for r in (0, 1):
            for sq in (False, True):
                out.append({'kind': 'rrt/edge/k%d' % k, 'op': 'rrt', 'k': k, 'r': r, 'lam': [1, 2], 'q': 0, 'sq': sq,
                            'iso': not sq, 'us': [], 'cs': [], 'ri': 0})
    for k, r in ((11, 0), (12, 0), (36, 0), (36, 0), (11, 1), (11, 1), (12, 1)):
        for sq, iso in ((True, True), (True, False)):
            out.append(_twt_case(rng, k, r, sq, iso, 'conforming', rng.choice(['near', 'offgrid_double', 'grid'] if r == 0
                                                                               else ['near', 'offgrid_double']),
                                 'random', 'twt/k%dr%d/letters' % (k, r)))
    # ---- table_walk_through
    n_twt = 500 if tier == 'quick' else 5000
    for i in range(n_twt):
        k = rng.choice([2, 2, 3, 3, 4, 5])
        r = rng.choice([0, 1, 1, 1, 2]) if k <= 3 else rng.choice([0, 1, 1])
        sq, iso = rng.choice(flags)
        out.append(_twt_case(rng, k, r, sq, iso, rng.choice(TKINDS), rng.choice(TARGETS), rng.choice(CKINDS),
                             'twt/k%dr%d' % (k, r)))
    # every flag combination x every direction on one small automaton, both adversarial scripts
    for k, r in ((2, 1), (3, 1), (2, 2)):
        for sq, iso in flags:
            for tkind in ('conforming', 'arbitrary', 'all_q', 'no_q'):
                for tk in ('extreme', 'grid', 'offgrid', 'current', 'offgrid_double'):
                    for ck in ('zeros', 'alternating'):
                        out.append(_twt_case(rng, k, r, sq, iso, tkind, tk, ck, 'twt/sweep/k%dr%d' % (k, r)))
    # larger tables: few, and near targets except in the thorough tier
    big = [(4, 2), (5, 2)] if tier == 'quick' else [(4, 2), (4, 2), (4, 2), (5, 2), (5, 2)]
    for k, r in big:
        for sq, iso in ((True, True), (False, False)):
            tk = 'near' if (tier == 'quick' or k == 5) else 'grid'
            out.append(_twt_case(rng, k, r, sq, iso, 'conforming', tk, 'random', 'twt/big/k%dr%d' % (k, r)))
    out.extend(_paramtypes(rng, tier, flags))
    # ---- table_rule
    out.extend(_tr_cases(rng, 250 if tier == 'quick' else 2500))
    rng.shuffle(out)          # spread the expensive cases over the shards
    # ---- tables of more than 10^5 entries, target j entries away from the current lambda: ORACLE-ONLY
    # (one entry is a lambda step of 1/k^n ~ 6e-6..8e-6: any tolerance in the float comparisons shows here)
    large = []
    if tier == 'quick':
        plan = [(2, 8, False, False, -1), (2, 8, True, True, 1), (2, 8, False, True, -2), (2, 8, True, False, 3),
                (2, 8, False, False, 0), (2, 8, False, False, 2),
                (3, 5, False, False, 1), (3, 5, True, True, -1), (3, 5, True, False, 2), (3, 5, False, True, -3),
                (3, 5, False, False, 0), (3, 5, False, False, -2)]
    else:
        plan = [(k, r, sq, iso, j) for k, r in ((2, 8), (3, 5)) for sq, iso in flags for j in (-2, -1, 0, 1, 3)]
    plan += [(36, 1, True, True, 1), (36, 1, True, False, -1)] + ([(36, 1, False, True, 2), (36, 1, False, False, 0)]
                                                                  if tier == 'thorough' else [])
    narrow16 = [(8, 2, False, False, -1), (8, 2, True, True, 1)] + ([(2, 7, True, False, 2), (8, 2, False, True, 0)] if tier == 'thorough' else [])
    plan += narrow16
    for i, (k, r, sq, iso, j) in enumerate(plan):
        # lambda_val 9/10 (lambda ~ 0.9, both directions open), and for a downward walk sometimes 1 (lambda exactly 1)
        lam = [1, 1] if (j < 0 and i % 4 == 3) else [9, 10]
        is16 = i >= len(plan) - len(narrow16)
        large.append({'kind': ('paramtypes/narrow_overflow/oracle-only/int16/k%dr%d' if is16 else
                               'large/near_target/k%dr%d' if k < 36 else 'large/letters/k%dr%d') % (k, r), 'op': 'large',
                      'ptype': 'int16' if is16 else None, 'k': k, 'r': r, 'sq': sq, 'iso': iso,
                      'lam': lam, 'q': rng.randrange(k), 'j': j, 'seed': rng.randrange(10 ** 6)})
    return out + large


# ---------------------------------------------------------------- runner
def _lam_obs(lam, K):
    lam = float(lam)
    num = int(round(lam * K))
    return [num, K if (K > 0 and num / K == lam) else 0]


def run_impl(c):
    import random
    import numpy as np
    import cellpylib as cpl
    op = c['op']
    if op == 'table_rule':
        if c.get('nb_form'):
            nb = _nb_form(c['nb'], c['nb_form'])
        else:
            nb = np.array(c['nb'], dtype=np.int64) if c['as_array'] else list(c['nb'])
        table = _table_form({s: v for s, v in c['table']}, c.get('tform'))
        return list(call_impl(lambda: int(cpl.table_rule(nb, table))))

    if op == 'large':
        return _run_large(c)
    us = [a / b for a, b in c.get('us', [])]
    cs = list(c['cs'])
    pos = {'u': 0, 'c': 0}

    def f_random():
        i = pos['u']
        pos['u'] += 1
        return us[i] if i < len(us) else 0.0

    def f_choice(seq):
        if len(seq) == 0:
            raise IndexError('Cannot choose from an empty sequence')
        i = pos['c']
        pos['c'] += 1
        return seq[(cs[i] if i < len(cs) else 0) % len(seq)]

    def f_randint(*a, **kw):
        return np.int32(c['ri'])

    K = c['k'] ** (2 * c['r'] + 1)
    lam = _lam_form(c['lam'], c.get('lam_type'))
    # 'paramtypes/*': k, r, quiescent_state handed over as NumPy integer scalars
    ity = getattr(np, c['ptype']) if c.get('ptype') else (lambda x: x)
    pk, pr, pq = ity(c['k']), ity(c['r']), (None if c['q'] is None else ity(c['q']))
    saved = (random.random, random.choice, np.random.randint)
    random.random, random.choice, np.random.randint = f_random, f_choice, f_randint
    try:
        if op == 'rrt':
            def go():
                t, l, q = cpl.random_rule_table(pk, pr, lambda_val=lam, quiescent_state=pq,
                                                strong_quiescence=c['sq'], isotropic=c['iso'])
                return {'table': [[str(s), int(v)] for s, v in t.items()], 'lam': _lam_obs(l, K), 'q': int(q),
                        'draws': [pos['u'], pos['c']]}
        else:
            def go():
                table = _table_form({s: v for s, v in c['table']}, c.get('tform'))
                t, l = cpl.table_walk_through(table, lam, pk, pr, pq, strong_quiescence=c['sq'],
                                              isotropic=c['iso'])
                return {'table': [[str(s), int(v)] for s, v in t.items()], 'lam': _lam_obs(l, K),
                        'draws': [pos['u'], pos['c']]}
        return list(call_impl(go, timeout=120))
    finally:
        random.random, random.choice, np.random.randint = saved


class _DictSub(dict):
    pass


def _table_form(d, form):
    import collections
    import types
    if form == 'subclass':
        return _DictSub(d)
    if form == 'ordered':
        return collections.OrderedDict(d)
    if form == 'proxy':
        return types.MappingProxyType(d)
    if form == 'defaultdict':
        return collections.defaultdict(int, d)
    return d


def _lam_form(lam, ty):
    import numpy as np
    if lam is None:
        return None
    if ty == 'int':
        assert lam[1] == 1
        return int(lam[0])
    if ty == 'Fraction':
        return Fraction(lam[0], lam[1])
    x = lam[0] / lam[1]
    if ty == 'float64':
        return np.float64(x)
    if ty == 'float32':
        assert dyadic(lam[1]) and lam[1] <= 1024      # exactly representable: every comparison is exact in any precision
        return np.float32(x)
    return x


def _nb_form(nb, form):
    import numpy as np
    if form == 'tuple':
        return tuple(nb)
    if form in ('int8', 'int64', 'uint8', 'int32', 'float64', 'float32', 'bool'):
        return np.array(nb, dtype=getattr(np, form if form != 'bool' else 'bool_'))
    if form == 'listfloat':
        return [float(x) for x in nb]
    if form == 'mixed':
        return [np.int64(x) if i % 2 == 0 else np.uint8(x) for i, x in enumerate(nb)]
    return list(nb)


def _render(nb, form):
    """what str(x) of each element is, written independently of the library (''.join(str(x) ...))"""
    if form in ('float64', 'float32', 'listfloat'):
        return ''.join('%d.0' % x for x in nb)
    if form == 'bool':
        return ''.join('True' if x else 'False' for x in nb)
    return ''.join('%d' % x for x in nb)


def _run_large(c):
    """oracle-only: build a > 10^5-entry table with the real random_rule_table under a scripted oracle, walk it with the
    real table_walk_through to a target j entries away, evaluate the C17 clauses here (the tables are too large to
    transport) and return the verdicts."""
    import random
    import numpy as np
    import cellpylib as cpl
    k, r, q, sq, iso, j = c['k'], c['r'], c['q'], c['sq'], c['iso'], c['j']
    K = k ** (2 * r + 1)
    script = random.Random(c['seed'])
    saved = (random.random, random.choice, np.random.randint)

    def f_choice(seq):
        if len(seq) == 0:
            raise IndexError('Cannot choose from an empty sequence')
        return seq[script.randrange(1 << 30) % len(seq)]

    random.random, random.choice = (lambda: script.randrange(1000) / 1000), f_choice
    np.random.randint = lambda *a, **kw: np.int32(q)
    try:
        def go():
            ity = getattr(np, c['ptype']) if c.get('ptype') else (lambda x: x)
            t, l, q_rep = cpl.random_rule_table(ity(k), ity(r), lambda_val=c['lam'][0] / c['lam'][1], quiescent_state=ity(q),
                                                strong_quiescence=sq, isotropic=iso)
            items0 = [(str(s), int(v)) for s, v in t.items()]
            rrt_msg = _rrt_clauses(k, r, sq, iso, q, items0, _lam_obs(l, K), int(q_rep))
            c0 = sum(1 for _, v in items0 if v == q)
            num = K - c0 + j                       # target = current lambda + j/K, an exact fraction
            t2, l2 = cpl.table_walk_through(t, num / K, ity(k), ity(r), ity(q), strong_quiescence=sq, isotropic=iso)
            items1 = [(str(s), int(v)) for s, v in t2.items()]
            twt_msg = _twt_clauses(k, r, q, sq, iso, items0, items1, _lam_obs(l2, K), Fraction(num, K))
            c1 = sum(1 for _, v in items1 if v == q)
            return {'K': K, 'c0': c0, 'c1': c1, 'target': [num, K], 'lam': _lam_obs(l2, K),
                    'changed': sum(1 for a, b in zip(items0, items1) if a != b), 'rrt_msg': rrt_msg, 'twt_msg': twt_msg}
        return list(call_impl(go, timeout=300))
    finally:
        random.random, random.choice, np.random.randint = saved


# ---------------------------------------------------------------- Coq emitter
def ckey(s):
    return '[' + ';'.join(str(d) for d in enc(s)) + ']%nat'


def ctable(items):
    return '[' + '; '.join('(%s, %s)' % (ckey(s), cz(v)) for s, v in items) + ']'


def cq(f):
    return '(Qmake %s %d)' % (cz(f[0]), f[1])


def cnats(xs):
    return '[' + ';'.join(str(int(x)) for x in xs) + ']%nat'


def cNs(xs):
    return '[' + ';'.join(str(int(x)) for x in xs) + ']%N'


def clam(l):
    return '(%s, %s)' % (cz(l[0]), cz(l[1]))


def to_coq(c, obs):
    op = c['op']
    if op == 'large':
        return 'CNoModel'
    if op == 'table_rule':
        if c.get('nb_form') in ('float64', 'float32', 'listfloat', 'bool'):
            return '(CTableLookup %s %s %s)' % (ckey(_render(c['nb'], c['nb_form'])), ctable(c['table']), cres(obs, cz))
        return '(CTableRule %s %s %s)' % (cnats(c['nb']), ctable(c['table']), cres(obs, cz))
    if op == 'rrt':
        o = cres(obs, lambda v: '(%s, %s, %s)' % (ctable(v['table']), clam(v['lam']), cz(v['q'])))
        return '(CRrt %s %s %s %s %s %s %s %s %s %s)' % (
            cnat(c['k']), cnat(c['r']), copt(c['lam'], cq), copt(c['q'], cz), cbool(c['sq']), cbool(c['iso']),
            clist(c['us'], cq), cNs(c['cs']), cz(c['ri']), o)
    o = cres(obs, lambda v: '(%s, %s)' % (ctable(v['table']), clam(v['lam'])))
    return '(%s %s %s %s %s %s %s %s %s %s)' % (
        'CTwtReadOnly' if c.get('tform') == 'proxy' else 'CTwt', ctable(c['table']), cq(c['lam']), cnat(c['k']), cnat(c['r']), cz(c['q']), cbool(c['sq']), cbool(c['iso']),
        cNs(c['cs']), o)


def nontrivial(c, obs):
    if obs[0] != 'ok':
        return False
    if c['op'] == 'large':
        return obs[1]['K'] > 30000
    return c['op'] == 'table_rule' or len(obs[1]['table']) > 0


# ---------------------------------------------------------------- the property itself, on the implementation's output
def _uniform(s):
    return len(set(s)) == 1


def _sq_holds(d):
    return all(d[s] == DIGITS.index(s[0]) for s in d if _uniform(s))


def _iso_holds(d):
    return all(s[::-1] in d and d[s[::-1]] == d[s] for s in d)


def _rrt_clauses(k, r, sq, iso, q_in, items, lam_rep, q_rep):
    """the random_rule_table clauses of C17 on a returned table (ordered items), reported lambda [num, den] and q"""
    n = 2 * r + 1
    K = k ** n
    keys = [s for s, _ in items]
    d = {s: x for s, x in items}
    if keys != all_states(k, n):
        return 'keys are not exactly the k^n neighbourhood strings in order'
    if any(not (0 <= x <= k - 1) for x in d.values()):
        return 'a table value is outside 0..k-1'
    if sq and not _sq_holds(d):
        return 'strong quiescence violated'
    if iso and not _iso_holds(d):
        return 'isotropy violated'
    if q_rep != q_in:
        return 'reported quiescent state is not the one used'
    cnt = sum(1 for x in d.values() if x == q_rep)
    if lam_rep != [K - cnt, K]:
        return 'reported lambda %r is not (k^n - #quiescent)/k^n = %d/%d' % (lam_rep, K - cnt, K)
    return None


def _twt_clauses(k, r, q, sq, iso, items0, items1, lam_rep, tgt):
    """the table_walk_through clauses of C17: table before (items0), table after (items1), reported lambda
    [num, den], target as a Fraction"""
    K = k ** (2 * r + 1)
    d0 = {s: x for s, x in items0}
    d1 = {s: x for s, x in items1}
    if sorted(d0) != sorted(d1) or len(items1) != len(items0):
        return 'walk-through changed the key set'
    if all(0 <= x <= k - 1 for x in d0.values()) and any(not (0 <= x <= k - 1) for x in d1.values()):
        return 'walk-through produced a value outside 0..k-1'
    if sq and _sq_holds(d0) and not _sq_holds(d1):
        return 'walk-through broke strong quiescence'
    if iso and _iso_holds(d0) and not _iso_holds(d1):
        return 'walk-through broke isotropy'
    c0 = sum(1 for x in d0.values() if x == q)
    c1 = sum(1 for x in d1.values() if x == q)
    if lam_rep != [K - c1, K]:
        return 'reported lambda %r is not the table\'s lambda %d/%d' % (lam_rep, K - c1, K)
    l0, l1 = Fraction(K - c0, K), Fraction(K - c1, K)
    step = Fraction(2 if iso else 1, K)
    if l0 == tgt:
        return None if d0 == d1 else 'table changed although lambda was already on target'
    if l0 > tgt:
        if l1 > l0:
            return 'lambda moved away from the target (up)'
        adm = sum(1 for s in d1 if d1[s] != q and not (sq and _uniform(s)))
        if l1 > tgt and adm:
            return ('stopped at lambda %d/%d, still above the target %s, although %d admissible entries remain'
                    % (K - c1, K, tgt, adm))
        if l1 < tgt and not (l1 + step > tgt):
            return 'overshot the target by more than one perturbation'
    else:
        if l1 < l0:
            return 'lambda moved away from the target (down)'
        adm = sum(1 for s in d1 if d1[s] == q and not (sq and _uniform(s)))
        if l1 < tgt and adm:
            return ('stopped at lambda %d/%d, still below the target %s, although %d admissible entries remain'
                    % (K - c1, K, tgt, adm))
        if l1 > tgt and not (l1 - step < tgt):
            return 'overshot the target by more than one perturbation'
    return None


def oracle(c, obs):
    op = c['op']
    if op == 'large':
        # oracle-only bucket: the clauses were evaluated in run_impl on the full tables (too large to transport)
        if obs[0] != 'ok':
            return 'large table: the call raised %s' % obs[1]
        v = obs[1]
        if v['rrt_msg']:
            return 'random_rule_table (k=%d, r=%d): %s' % (c['k'], c['r'], v['rrt_msg'])
        if v['twt_msg']:
            return ('table_walk_through on the %d-entry table of random_rule_table(k=%d, r=%d, lambda_val=%d/%d, q=%d, sq=%s, iso=%s) '
                    'with target lambda %d/%d (current %d/%d): %s'
                    % (v['K'], c['k'], c['r'], c['lam'][0], c['lam'][1], c['q'], c['sq'], c['iso'],
                       v['target'][0], v['target'][1], v['K'] - v['c0'], v['K'], v['twt_msg']))
        return None
    if op == 'table_rule':
        key = _render(c['nb'], c.get('nb_form'))
        d = {s: v for s, v in c['table']}
        if key in d:
            if obs[0] != 'ok' or obs[1] != d[key]:
                return 'table_rule: expected the value stored at %r' % key
        elif obs != ['exc', 'ValueError']:
            return 'table_rule: expected ValueError for the absent key %r' % key
        return None
    k, r = c['k'], c['r']
    if op == 'rrt':
        q_in = c['q'] if c['q'] is not None else c['ri']
        valid = 2 <= k <= 36 and 0 <= q_in <= k - 1
        if not valid:
            return None if (obs[0] == 'exc' or k == 1) else 'random_rule_table accepted k=%d, q=%d' % (k, q_in)
        if obs[0] != 'ok':
            return 'random_rule_table raised %s on valid arguments' % obs[1]
        v = obs[1]
        return _rrt_clauses(k, r, c['sq'], c['iso'], q_in, v['table'], v['lam'], v['q'])
    # table_walk_through
    if k < 2:
        return None
    if c.get('tform') == 'proxy' and obs[0] != 'ok':
        # a read-only mapping: an exception is what the library does as soon as a perturbation is due
        K = k ** (2 * r + 1)
        q, sq = c['q'], c['sq']
        l0 = Fraction(K - sum(1 for _, x in c['table'] if x == q), K)
        tgt = Fraction(c['lam'][0], c['lam'][1])
        adm = [s for s, x in c['table'] if (x != q) == (l0 > tgt) and not (sq and _uniform(s))]
        return None if (l0 != tgt and adm) else 'table_walk_through raised %s although no perturbation was due' % obs[1]
    if obs[0] != 'ok':
        return 'table_walk_through raised %s' % obs[1]
    v = obs[1]
    return _twt_clauses(k, r, c['q'], c['sq'], c['iso'], c['table'], v['table'], v['lam'],
                        Fraction(c['lam'][0], c['lam'][1]))


def shrink(c):
    if c['op'] == 'large':
        return
    if c['op'] == 'table_rule':
        if len(c['table']) > 1:
            yield dict(c, table=c['table'][1:])
            yield dict(c, table=c['table'][:-1])
        return
    if c['op'] == 'rrt':
        if c['r'] > 0:
            K = c['k'] ** (2 * c['r'] - 1)
            yield dict(c, r=c['r'] - 1, us=c['us'][:K], cs=c['cs'][:K])
        if c['sq'] and c['iso']:
            yield dict(c, sq=False)
            yield dict(c, iso=False)
        if any(x for x in c['cs']):
            yield dict(c, cs=[0] * len(c['cs']))
        return
    if any(x for x in c['cs']):
        yield dict(c, cs=[0] * len(c['cs']))
    if c['sq'] and c['iso']:
        yield dict(c, sq=False)
        yield dict(c, iso=False)


# ------------------------------------------------------------------ source tie (appended; harness/translate.py)
# pre(): regenerate coq/gen/GenFuns_C17.v from the Python source of the tree under test and, if it changed, re-prove
# GenProps/GenFunsEquivC17.v, GenProps/C17Src.v and Properties/C17.v (theorem C17_source_tie) by hand.
# extra_checks(): report a failed translation / equivalence proof (theorem names, translator or coqc error).
from harness import translate as _translate
_prev_pre = globals().get('pre')
_prev_extra_checks = globals().get('extra_checks')
TRUSTED = list(globals().get('TRUSTED', [])) + [_translate.TRUSTED_NOTE]
NOTES = list(globals().get('NOTES', [])) + [
    'coq/gen/GenFuns_C17.v is regenerated from the Python source at the start of every run; theorem C17_source_tie '
    'proves the regenerated definitions equal to the hand-written model for all inputs']


def pre(ctx):
    if _prev_pre is not None:
        _prev_pre(ctx)
    _translate.pre_hook(ctx, 'C17')


def extra_checks(ctx):
    out = list(_prev_extra_checks(ctx)) if _prev_extra_checks is not None else []
    return out + _translate.extra_hook(ctx, 'C17')
