"""C06 — callable timesteps gate every step; until_fixed_point halts at the fixed point.

Correspondence: the real cpl.evolve / cpl.evolve2d are run with a logging stopping predicate
(twins.PredLt, PredScript, PredLogged(cpl.until_fixed_point())); the returned array and the
(ca, t) argument log of the predicate are compared inside Coq with the plain-engine model under
Model/Engine.v's evolve_dynamic.  Pure rules (Lin) are run with memoize in {False, True,
'recursive'} and must all equal the plain model; LinCT / Script rules only with memoize=False.
The oracle evaluates the sentence of the property on the implementation alone: argument log
= [(first j states of this call, j)], result = history[:-1] + last log entry, result = the
fixed-count evolution of the same length, until_fixed_point ends at the first repeat."""
import numpy as np
from harness.driver import call_impl, cz, cnat, cbool, czlist, cgrid, chist, clist, cres
from harness.twins import make_rule, coq_rule_spec, PredLt, PredScript, PredLogged, dress, dress_pred, RULE_DRESSINGS, PRED_DRESSINGS, unmasked2, Reentrant, invoke

ID = 'C06'
COQ_IMPORTS = ('From CPL Require Import Model.Base Model.Rules Model.Engine Model.Evolve1D Model.Evolve2D Corr.C06.\n'
               'Open Scope Z_scope.')
NONTRIVIAL_RULE = ('non-trivial = the call returned and the predicate was consulted at least twice (one step or more); '
                   'the zero-step cases are counted separately in the distribution; distinct = distinct case dicts')
EXHAUSTIVE = {'quick': False, 'thorough': False}
NOTES = ['a fifth of the sweep uses a predicate that overwrites the array it is given after answering (ScribblePred) and a '
         'fifth one that keeps every array it was given and re-checks them at each later consultation and at the end '
         '(RetainPred); the caller\'s array after the call and memory sharing of the result are checked by the oracle',
         'bucket outofrange/*: rule results not representable in uint8; callable and fixed runs are compared with each '
         'other on the implementation only (open finding cast-path); not compared in Coq',
         'sweep: 1D rings N in 1..5 with r in 1..min(N,2), 2D grids up to 3x3 (thorough 4x4) with both neighbourhood types, '
         'H in 1..3, dtypes int32/int64/uint8/float64, predicates constant-false / t<k / scripted answers / '
         'until_fixed_point, memoize in False/True/recursive for the pure family',
         'bucket ufp/float_tiny: float automata whose consecutive states differ by a few units of 2^-40 (far below any '
         'tolerance-based comparison) for k >= 3 steps before the exact repeat; rules: creep-to-a-ceiling (pure, all '
         'memoize modes), Lin on the integer units (all modes), Script rows (memoize=False); 1D and 2D',
         'until_fixed_point cases are generated only when a reference simulation of the twin rule reaches a repeat '
         'within 12 steps; the Coq side has fuel 64']
ASSUMPTIONS = ['rule results are representable in the automaton dtype',
               'float automata carry integer-valued floats, except the dyadic buckets (ufp/float_tiny, dyadic/*): there '
               'the cells are base + j * 2^-40 (exactly representable in float64; float32 with base 0) and the model works on '
               'the integers j - an injective rescaling, so equality of rows is preserved; observed values are converted '
               'back exactly ((v - base) * 2^40 must be an integer, otherwise the case counts as a disagreement)',
               'predicates terminate (a run that never declines has no model value: fuel 64, excluded by the generators)',
               'memoised runs are made with pure rules only and compared with the plain-engine model '
               '(transparency of the memo engines is C03/C04)']
TRUSTED = ['Python twins Lin/LinCT/Script and PredLt/PredScript/PredLogged of harness/twins.py']

DTYPES = ['int32', 'int64', 'uint8', 'float64']
MEMOS = [False, True, 'recursive']
CAP = 40      # consultations after which a run is declared non-terminating (generators promise <= 14)


# ---------------------------------------------------------------- reference simulation (generation only)
def _vn_offsets(r, nb):
    return [(a, b) for a in range(-r, r + 1) for b in range(-r, r + 1) if nb == 'Moore' or abs(a) + abs(b) <= r]


class _Sim:
    """the twin rule applied to a ring / torus; used only to decide which until_fixed_point cases terminate"""
    def __init__(self, c):
        self.c, self.i = c, 0

    def cast(self, v):
        st = self.c.get('store')
        if not st or st[0] == 'id':
            return v
        if st[0] == 'bool':
            return 1 if v != 0 else 0
        q = abs(v) // st[1]                  # truncation toward zero
        return q if v >= 0 else -q

    def val(self, n, cidx, t):
        return self.cast(self.raw(n, cidx, t))

    def raw(self, n, cidx, t):
        ru = self.c['rule']
        if ru['fam'] == 'affc':
            return ru['a'] * n[len(n) // 2] + ru['b']      # the centre is the middle entry (Moore and von Neumann)
        if ru['fam'] == 'script':
            v = ru['vs'][self.i] if self.i < len(ru['vs']) else 0
            self.i += 1
            return v
        if ru['fam'] == 'capinc':
            return min(max([0] + list(n)) + 1, ru['cap'])
        s = sum(w * x for w, x in zip(ru['ws'], n))
        if ru['fam'] == 'linct':
            s += (3 * cidx + 5 * t) if self.c['dim'] == 1 else (3 * cidx[0] + 7 * cidx[1] + 5 * t)
        return s % ru['m']

    def step(self, cur, t):
        r = self.c['r']
        if self.c['dim'] == 1:
            N = len(cur)
            return [self.val([cur[(x - r + k) % N] for k in range(2 * r + 1)], x, t) for x in range(N)]
        R, C = len(cur), len(cur[0])
        offs = _vn_offsets(r, self.c['nb'])
        return [[self.val([cur[(i + a) % R][(j + b) % C] for a, b in offs], (i, j), t) for j in range(C)]
                for i in range(R)]


def steps_to_repeat(c, bound=12):
    sim = _Sim(c)
    cur = c['hist'][-1]
    for t in range(1, bound + 1):
        nxt = sim.step(cur, t)
        if nxt == cur:
            return t
        cur = nxt
    return None


# ---------------------------------------------------------------- generators
def rand_rule(rng, fam, dim, r, nb, ncells, dtype, small=False):
    if fam == 'script':
        k = rng.choice([0, ncells, 2 * ncells, 3 * ncells, 3 * ncells + 1, rng.randint(0, 5 * ncells)])
        hi = 3 if small else (255 if dtype == 'uint8' else 50)
        lo = 0 if (small or dtype == 'uint8') else -50
        return {'fam': 'script', 'vs': [rng.randint(lo, hi) for _ in range(k)]}
    nw = 2 * r + 1 if dim == 1 else len(_vn_offsets(r, nb))
    p = rng.random()
    if small and p < 0.15:
        ws = [0] * nw                                   # constant map: settles after one step
    elif small and p < 0.3:
        ws = [0] * nw
        ws[nw // 2] = 1                                 # identity on the centre (when values < m)
    elif small and p < 0.5:
        ws = [rng.randint(0, 1) for _ in range(nw)]     # mod-2 shift-and-add: nilpotent on 2^k rings
    else:
        ws = [rng.randint(-2, 3) for _ in range(nw)]
    m = rng.choice([2, 2, 3, 4, 5]) if small else rng.choice([2, 3, 5, 7, 11, 101])
    return {'fam': fam, 'ws': ws, 'm': m}


def rand_state(rng, dim, shape, dtype, hi=3):
    lo = 0 if dtype == 'uint8' or rng.random() < 0.7 else -hi
    if dim == 1:
        return [rng.randint(lo, hi) for _ in range(shape)]
    return [[rng.randint(lo, hi) for _ in range(shape[1])] for _ in range(shape[0])]


def rand_hist(rng, dim, shape, H, dtype):
    return [rand_state(rng, dim, shape, dtype) for _ in range(H)]


def _preds(rng, tier):
    """a bucketed list of predicates for one configuration"""
    out = [('zero/lt', {'kind': 'lt', 'k': rng.choice([0, 1])}),
           ('zero/script', {'kind': 'script', 'bs': rng.choice([[], [False], [False, True, True]])}),
           ('lt', {'kind': 'lt', 'k': rng.randint(2, 5)}),
           ('script', {'kind': 'script', 'bs': [True] * rng.randint(1, 4) + rng.choice([[], [False], [False, True]])}),
           ('ufp', {'kind': 'ufp'})]
    return out


def _shapes(dim, tier):
    if dim == 1:
        return [1, 2, 3, 4, 5] if tier == 'quick' else [1, 2, 3, 4, 5, 6, 7, 8]
    top = 3 if tier == 'quick' else 4
    return [(a, b) for a in range(1, top + 1) for b in range(1, top + 1)]


def _mk(rng, kind, dim, shape, r, nb, H, dtype, fam, memo, pred):
    ncells = shape if dim == 1 else shape[0] * shape[1]
    c = {'kind': kind, 'dim': dim, 'r': r, 'nb': nb, 'dtype': dtype, 'memo': memo, 'pred': pred,
         'hist': rand_hist(rng, dim, shape, H, dtype),
         'rule': rand_rule(rng, fam, dim, r, nb, ncells, dtype, small=(pred['kind'] == 'ufp'))}
    if pred['kind'] == 'ufp':
        for _ in range(30):
            if steps_to_repeat(c) is not None:
                return c
            c['rule'] = rand_rule(rng, fam, dim, r, nb, ncells, dtype, small=True)
            c['hist'] = rand_hist(rng, dim, shape, H, dtype)
        return None
    return c


def generate(rng, tier):
    i = rng.randrange(1000)
    reps = 2 if tier == 'quick' else 6
    for _ in range(reps):
        for dim in (1, 2):
            for shape in _shapes(dim, tier):
                rmax = min(shape, 2) if dim == 1 else min(min(shape), 1 if tier == 'quick' else 2)
                for r in range(1, rmax + 1):
                    for nb in (['-'] if dim == 1 else ['Moore', 'von Neumann']):
                        for fam, memos in (('lin', MEMOS), ('linct', [False]), ('script', [False])):
                            for memo in memos:
                                for tag, pred in _preds(rng, tier):
                                    i += 1
                                    H = 1 + i % 3
                                    dtype = DTYPES[(i // 3) % 4]
                                    c = _mk(rng, '%dd/%s/%s/%s' % (dim, tag, fam, 'memo' if memo else 'plain'),
                                            dim, shape, r, nb, H, dtype, fam, memo, pred)
                                    if c is not None:
                                        pm = {3: 'scribble', 4: 'retain'}.get(i % 5)
                                        if pm:      # the predicate writes into / keeps its argument
                                            c = dict(c, pmode=pm, kind=c['kind'] + '+pred_' + pm)
                                        yield c
    # open finding cast-path: reported as KNOWN-FINDING, never compared in Coq
    for c in outofrange_cases(rng, tier):
        yield c
    # float automata with dyadic states that creep by units of 2^-40
    for c in tiny_cases(rng, tier):
        yield c
        if rng.random() < 0.25:      # the same automaton under the other predicates
            tag, pred = rng.choice(_preds(rng, tier)[:4])
            yield dict(c, kind='dyadic/%dd/%s' % (c['dim'], tag), pred=pred)
    # round 5: callables of another shape, casts at a fixed point, complex / object automata
    for c in dressed_cases(rng, tier):
        yield c
    for c in cast_cases(rng, tier):
        yield c
    for c in dtype_cases(rng, tier):
        yield c
    # round 6: very wide memoized automata (oracle only), call forms, nested evolutions
    for c in large_cases(rng, tier):
        yield c
    for c in callform_cases(rng, tier):
        yield c
    for c in reentrant_cases(rng, tier):
        yield c
    # random larger ones
    n_rand = 200 if tier == 'quick' else 3000
    for _ in range(n_rand):
        dim = rng.choice([1, 2])
        if dim == 1:
            shape = rng.randint(3, 12)
            r = rng.randint(1, min(shape, 3))
            nb = '-'
        else:
            shape = (rng.randint(1, 5), rng.randint(1, 5))
            r = rng.randint(1, min(min(shape), 2))
            nb = rng.choice(['Moore', 'von Neumann'])
        fam = rng.choice(['lin', 'lin', 'linct', 'script'])
        memo = rng.choice(MEMOS) if fam == 'lin' else False
        tag, pred = rng.choice(_preds(rng, tier))
        if pred['kind'] == 'script':
            pred = {'kind': 'script', 'bs': [rng.random() < 0.75 for _ in range(rng.randint(0, 7))]}
            tag = 'script'
        c = _mk(rng, 'random/%dd/%s' % (dim, tag), dim, shape, r, nb, rng.randint(1, 3), rng.choice(DTYPES), fam, memo, pred)
        if c is not None:
            yield c



SPREAD = [(1, False, 'script'), (1, True, 'lt'), (1, 'recursive', 'ufp'), (2, False, 'ufp'), (2, True, 'script'),
          (2, 'recursive', 'lt'), (1, False, 'ufp'), (2, False, 'lt')]


def _spread_case(rng, kind, j, **extra):
    dim, memo, pk = SPREAD[j % len(SPREAD)]
    pred = {'script': {'kind': 'script', 'bs': [True] * rng.randint(1, 3) + [False]},
            'lt': {'kind': 'lt', 'k': rng.randint(1, 4)}, 'ufp': {'kind': 'ufp'}}[pk]
    shape, r, nb = (rng.randint(2, 5), 1, '-') if dim == 1 else ((rng.randint(1, 3), rng.randint(1, 3)), 1,
                                                                  rng.choice(['Moore', 'von Neumann']))
    fam = 'lin' if memo is not False else rng.choice(['lin', 'linct', 'script'])
    c = _mk(rng, '%s/%dd/%s/%s' % (kind, dim, pk, 'memo' if memo else 'plain'), dim, shape, r, nb, rng.randint(1, 3),
            rng.choice(DTYPES), fam, memo, pred)
    return None if c is None else dict(c, **extra)


def dressed_cases(rng, tier):
    """buckets dress/<how>/... (the rule callable) and pdress/<how>/... (the predicate callable): same behaviour,
    another shape of callable / of returned value; the dressing is outermost; the model ignores it"""
    per = 6 if tier == 'quick' else 24
    for how in RULE_DRESSINGS:
        for j in range(per):
            c = _spread_case(rng, 'dress/' + how, j, dress=how)
            if c is not None:
                yield c
    for how in PRED_DRESSINGS:
        for j in range(per + 2):
            c = _spread_case(rng, 'pdress/' + how, j, pdress=how)
            if c is not None:
                yield c


def cast_cases(rng, tier):
    """bucket fixedpoint/cast/...: cpl.until_fixed_point() handed over DIRECTLY; the rule's result is not a value
    of the dtype (a float into an int automaton: truncated; a count into a bool automaton: non-zero), and the cast
    maps it back onto the current cell at the fixed point of the STORED history, where the run must stop"""
    n = 72 if tier == 'quick' else 600
    made = 0
    for i in range(8 * n):
        if made >= n:
            break
        dim = 1 + i % 2
        memo = MEMOS[(i // 2) % 3]
        variant = (i // 6) % 4
        shape, r, nb = (rng.randint(1, 5), 1, '-') if dim == 1 else ((rng.randint(1, 3), rng.randint(1, 3)), 1,
                                                                      rng.choice(['Moore', 'von Neumann']))
        nw = 3 if dim == 1 else len(_vn_offsets(r, nb))
        if variant == 0:        # centre + 0.5 on an int automaton: at a fixed point from the start
            rule, store, dtype = {'fam': 'affc', 'a': 2, 'b': 1}, ['quot', 2], rng.choice(['int32', 'int64', 'uint8'])
        elif variant == 1:      # centre + b/4
            rule, store, dtype = {'fam': 'affc', 'a': 4, 'b': rng.randint(1, 3)}, ['quot', 4], rng.choice(['int32', 'int64'])
        elif variant == 2:      # neighbour counts on a bool automaton
            rule, store, dtype = {'fam': 'lin', 'ws': [rng.randint(0, 2) for _ in range(nw)], 'm': 101}, ['bool'], 'bool'
        else:                   # (weighted sum mod m) / 2 on an int automaton
            rule = {'fam': 'lin', 'ws': [rng.randint(0, 2) for _ in range(nw)], 'm': rng.choice([4, 6, 8])}
            store, dtype = ['quot', 2], rng.choice(['int32', 'int64', 'uint8'])
        hi = 1 if dtype == 'bool' else 3
        hist = [rand_state(rng, dim, shape, 'uint8', hi=hi) for _ in range(rng.randint(1, 3))]
        c = {'kind': 'fixedpoint/cast/%dd/%s/%s' % (dim, ['half', 'quarter', 'boolcount', 'halfsum'][variant],
                                                    'memo' if memo else 'plain'),
             'dim': dim, 'r': r, 'nb': nb, 'dtype': dtype, 'memo': memo, 'pred': {'kind': 'ufp'}, 'direct': True,
             'store': store, 'hist': hist, 'rule': rule}
        k = steps_to_repeat(c, bound=8)
        if k is None:
            continue
        made += 1
        yield c


def _flip_rule(n, c, t):
    """cheap, t-dependent, NumPy scalars only: the centre cell, negated from step 3 on"""
    centre = n[len(n) // 2]
    return centre if t < 3 else -centre


def _run_large(cpl, c):
    """callable t < 4 against fixed 4 on a very wide automaton (every neighbourhood distinct), memoized, with a rule
    that depends on t: the two arrays must be equal (implementation only)"""
    rs = np.random.RandomState(c['seed'])
    h = rs.uniform(1.0, 2.0, size=(c['H'], c['N'])) if c['dtype'] == 'float64' else \
        rs.randint(1, 2 ** 40, size=(c['H'], c['N'])).astype(c['dtype'])
    consulted = []

    def pred(history_arg, count_arg):
        consulted.append([len(history_arg), int(count_arg)])
        return count_arg <= LARGE_STEPS
    dyn = call_impl(lambda: cpl.evolve(h.copy(), timesteps=pred, apply_rule=_flip_rule, r=1, memoize=c['memo']), timeout=120)
    fix = call_impl(lambda: cpl.evolve(h.copy(), timesteps=LARGE_STEPS + 1, apply_rule=_flip_rule, r=1, memoize=c['memo']),
                    timeout=120)
    o = {'consulted': consulted, 'dyn_ok': dyn[0] == 'ok', 'fix_ok': fix[0] == 'ok'}
    if dyn[0] == 'ok' and fix[0] == 'ok':
        a, b = np.asarray(dyn[1]), np.asarray(fix[1])
        o['same_shape'] = bool(a.shape == b.shape and a.dtype == b.dtype)
        o['differing_rows'] = [int(i) for i in range(min(len(a), len(b))) if not np.array_equal(a[i], b[i])]
        o['prefix_ok'] = bool(np.array_equal(a[:c['H']], h))
    return ['ok', o]


def large_cases(rng, tier):
    """bucket large/...: ORACLE ONLY (Coq constructor CSkip: 70 000-cell rows are not shipped to Coq).  More than 2^16
    distinct neighbourhoods in one call.  NB a cap on the memo table above 70 000 entries would escape this bucket."""
    for dtype in ('float64', 'int64'):
        for memo in (True, 'recursive'):
            yield {'kind': 'large/%s/%s' % (dtype, memo), 'large': True, 'dim': 1, 'r': 1, 'nb': '-', 'dtype': dtype,
                   'memo': memo, 'N': 70000, 'H': rng.randint(1, 2), 'seed': rng.randrange(1000), 'hist': [], 'rule': {'fam': 'flip'},
                   'pred': {'kind': 'lt', 'k': LARGE_STEPS + 1}}


def callform_cases(rng, tier):
    """bucket callform/...: the same evolve / evolve2d call with the first npos arguments positional"""
    for dim, nargs in ((1, 5), (2, 6)):
        for npos in range(0, nargs + 1):
            for j in range(2 if tier == 'quick' else 8):
                c = _spread_case(rng, 'callform/%dd/npos%d' % (dim, npos), (0 if dim == 1 else 3) + 2 * j, npos=npos)
                if c is not None and c['dim'] == dim:
                    yield c


def reentrant_cases(rng, tier):
    """bucket reentrant/...: the predicate (or the rule) runs a nested library evolution on the same geometry"""
    for who in ('pred', 'rule'):
        for j in range(10 if tier == 'quick' else 40):
            c = _spread_case(rng, 'reentrant/' + who, j, reentrant=who)
            if c is not None:
                yield c


def dtype_cases(rng, tier):
    """buckets dtype/complex64|complex128|object/...: cells with integer real part and zero imaginary part (read by
    this file's own Cplx reader), and object arrays of small Python ints"""
    per = 2 if tier == 'quick' else 10
    for dtype in ('complex64', 'complex128', 'object'):
        for dim in (1, 2):
            for memo in MEMOS:
                for pk in ('lt', 'ufp', 'script'):
                    for _ in range(per if pk != 'script' else 1):
                        pred = {'script': {'kind': 'script', 'bs': [True, True, False]},
                                'lt': {'kind': 'lt', 'k': rng.randint(1, 4)}, 'ufp': {'kind': 'ufp'}}[pk]
                        shape, r, nb = (rng.randint(2, 5), 1, '-') if dim == 1 else \
                            ((rng.randint(1, 3), rng.randint(1, 3)), 1, rng.choice(['Moore', 'von Neumann']))
                        c = _mk(rng, 'dtype/%s/%dd/%s/%s' % (dtype, dim, pk, 'memo' if memo else 'plain'), dim, shape, r,
                                nb, rng.randint(1, 3), dtype, 'lin', memo, pred)
                        if c is not None:
                            yield c


# ---------------------------------------------------------------- dyadic float automata
SCALE = 2.0 ** 40


class CapInc:
    """pure: min(max(neighbourhood, 0) + 1, cap); twin of Corr/C06.v capinc (2D: over the unmasked entries)"""
    def __init__(self, cap, dim):
        self.cap, self.dim = cap, dim

    def __call__(self, nbhd_arg, cell_arg, step_arg):

        n, c, t = nbhd_arg, cell_arg, step_arg   # not named (n, c, t): the library must call rules positionally
        from harness.twins import unmasked2
        vals = [int(x) for x in np.asarray(n).ravel()] if self.dim == 1 else unmasked2(n)
        return min(max([0] + vals) + 1, self.cap)


def to_units(a, base):
    """(a - base) * 2^40 as exact integers (int64 array); None if some value is not of that form"""
    d = (np.asarray(a, dtype=np.float64) - base) * SCALE
    if not np.all(np.isfinite(d)) or not np.all(d == np.round(d)):
        return None
    return np.round(d).astype(np.int64)


class Dyadic:
    """runs an integer-unit twin on a float automaton whose cells are base + j * 2^-40"""
    def __init__(self, f, base):
        self.f, self.base = f, base

    def __call__(self, nbhd_arg, cell_arg, step_arg):

        n, c, t = nbhd_arg, cell_arg, step_arg   # not named (n, c, t): the library must call rules positionally
        if isinstance(n, np.ma.MaskedArray):
            u = to_units(n.data, self.base)
            assert u is not None, 'neighbourhood is not dyadic'
            nn = np.ma.array(u, mask=np.ma.getmaskarray(n))
        else:
            nn = to_units(n, self.base)
            assert nn is not None, 'neighbourhood is not dyadic'
        return self.base + int(self.f(nn, c, t)) / SCALE


def build_ca(c):
    """the caller's array of a case (hist is in integer units for dyadic cases)"""
    if c.get('base') is None:
        return np.array(c['hist'], dtype=c['dtype'])
    exact = c['base'] + np.array(c['hist'], dtype=np.float64) / SCALE
    ca = exact.astype(c['dtype'])
    assert np.array_equal(ca.astype(np.float64), exact), 'dyadic states are not exactly representable'
    back = to_units(ca, c['base'])
    assert back is not None and back.tolist() == np.array(c['hist']).tolist()
    return ca


class Cplx:
    """runs an integer twin on a complex automaton whose cells have imaginary part 0: the neighbourhood is read
    as x.real (int() of a complex raises, so twins.exact_int cannot be used); the int result is stored as v+0j"""
    def __init__(self, f):
        self.f = f

    def __call__(self, n, c, t):
        if isinstance(n, np.ma.MaskedArray):
            assert (n.data.imag == 0).all(), 'non-zero imaginary part'
            nn = np.ma.array(n.data.real.astype(np.int64), mask=np.ma.getmaskarray(n))
        else:
            a = np.asarray(n)
            assert (a.imag == 0).all(), 'non-zero imaginary part'
            nn = a.real.astype(np.int64)
        return self.f(nn, c, t)


class AffC:
    """a * centre + b (twin of Corr/C06.v RAffC)"""
    def __init__(self, a, b, dim):
        self.a, self.b, self.dim = a, b, dim

    def __call__(self, n, c, t):
        d = n.data if isinstance(n, np.ma.MaskedArray) else np.asarray(n)
        v = d[len(d) // 2] if self.dim == 1 else d[d.shape[0] // 2][d.shape[1] // 2]
        return self.a * int(v) + self.b


class Over:
    """f / scale as a Python float (scale is a power of two: exact)"""
    def __init__(self, f, scale):
        self.f, self.scale = f, scale

    def __call__(self, n, c, t):
        return self.f(n, c, t) / float(self.scale)


class Budget:
    """a rule that refuses to be called more than `limit` times: ends a run that should have stopped"""
    def __init__(self, f, limit):
        self.f, self.limit, self.n = f, limit, 0

    def __call__(self, n, c, t):
        self.n += 1
        if self.n > self.limit:
            raise RuntimeError('rule called more than %d times: the evolution did not stop' % self.limit)
        return self.f(n, c, t)


def build_rule(c, dressed=True):
    ru = c['rule']
    if ru['fam'] == 'capinc':
        f = CapInc(ru['cap'], c['dim'])
    elif ru['fam'] == 'affc':
        f = AffC(ru['a'], ru['b'], c['dim'])
    else:
        f = make_rule(ru, c['dim'])
    if str(c['dtype']).startswith('complex'):
        f = Cplx(f)
    if c.get('base') is not None:
        f = Dyadic(f, c['base'])
    st = c.get('store')
    if st and st[0] == 'quot':
        f = Over(f, st[1])
    if c.get('direct'):
        ncells = int(np.prod(np.asarray(c['hist']).shape[1:]))
        f = Budget(f, 30 * ncells)
    return dress(f, c.get('dress')) if dressed else f      # the dressing is OUTERMOST


def conv(c, a):
    """an observed array as nested lists of model integers (None when it cannot be)"""
    if c.get('base') is None:
        return ints(np.asarray(a).tolist())
    u = to_units(a, c['base'])
    return None if u is None else u.tolist()


def coq_rspec(ru):
    if ru['fam'] == 'capinc':
        return '(RCap %s)' % cz(ru['cap'])
    if ru['fam'] == 'affc':
        return '(RAffC %s %s)' % (cz(ru['a']), cz(ru['b']))
    return '(RS %s)' % coq_rule_spec(ru)


def tiny_cases(rng, tier):
    """bucket ufp/float_tiny"""
    reps = 4 if tier == 'quick' else 20
    confs = [(1, N, r, '-') for N in (1, 2, 3, 5) for r in (1, 2) if r <= N] + \
            [(2, sh, 1, nb) for sh in ((1, 1), (1, 3), (2, 2), (3, 2), (3, 3)) for nb in ('Moore', 'von Neumann')]
    i = rng.randrange(100)
    for _ in range(reps):
        for dim, shape, r, nb in confs:
            ncells = shape if dim == 1 else shape[0] * shape[1]
            for fam, memo in (('capinc', False), ('capinc', True), ('capinc', 'recursive'),
                              ('lin', False), ('lin', True), ('lin', 'recursive'), ('script', False)):
                i += 1
                dtype, base = [('float64', 1.0), ('float64', 0.0), ('float32', 0.0), ('float64', -3.0),
                               ('float64', 1024.0)][i % 5]
                for _try in range(40):
                    if fam == 'capinc':
                        rule = {'fam': 'capinc', 'cap': rng.randint(3, 9)}
                    elif fam == 'script':
                        rows = rng.randint(2, 5)
                        rule = {'fam': 'script', 'vs': [rng.randint(0, 4) for _ in range(rows * ncells)]}
                    else:
                        rule = rand_rule(rng, 'lin', dim, r, nb, ncells, dtype, small=True)
                    c = {'kind': 'ufp/float_tiny/%dd/%s/%s' % (dim, fam, 'memo' if memo else 'plain'), 'dim': dim, 'r': r,
                         'nb': nb, 'dtype': dtype, 'base': base, 'memo': memo, 'pred': {'kind': 'ufp'},
                         'hist': [rand_state(rng, dim, shape, 'uint8', hi=2) for _ in range(1 + i % 3)], 'rule': rule}
                    k = steps_to_repeat(c)
                    if k is not None and k >= 3:
                        yield c
                        break


# ---------------------------------------------------------------- predicates that misbehave towards their argument
class ScribblePred:
    """answers like the wrapped predicate, THEN overwrites the array it was given.  The engine hands the
    predicate np.array(array), a copy, so nothing may change; the model passes values."""
    def __init__(self, inner):
        self.inner, self.log = inner, inner.log

    def __call__(self, history_arg, count_arg):

        ca, t = history_arg, count_arg   # not named (ca, t): the library must call predicates positionally
        b = self.inner(ca, t)
        try:
            ca[...] = 0
        except (ValueError, TypeError):
            pass
        return b


class RetainPred:
    """keeps a reference to every array it is given (and a private copy) and checks at every later
    consultation, and at the end, that none of them has changed"""
    def __init__(self, inner):
        self.inner, self.log, self.kept, self.ok = inner, inner.log, [], True

    def intact(self):
        return self.ok and all(np.array_equal(a, b) for a, b in self.kept)

    def __call__(self, history_arg, count_arg):

        ca, t = history_arg, count_arg   # not named (ca, t): the library must call predicates positionally
        self.ok = self.intact()
        b = self.inner(ca, t)
        self.kept.append((ca, np.array(ca, copy=True)))
        return b


class SumOffset:
    """sum of the neighbourhood + k: with k = -7 on small uint8 states the result is not representable"""
    def __init__(self, k):
        self.k = k

    def __call__(self, nbhd_arg, cell_arg, step_arg):

        n, c, t = nbhd_arg, cell_arg, step_arg   # not named (n, c, t): the library must call rules positionally
        return sum(int(x) for x in np.asarray(n).ravel()) + self.k


def outofrange_cases(rng, tier):
    """bucket outofrange/*: open finding cast-path (known_findings.json): nothing is compared in Coq"""
    base = [([[1, 2, 3, 4]], -7, 3)]
    for i in range(7 if tier == 'quick' else 40):
        N = rng.randint(3, 6)
        base.append(([[rng.randint(0, 4) for _ in range(N)] for _ in range(rng.randint(1, 2))],
                     rng.choice([-7, -20, 300, 250]), rng.randint(2, 4)))
    for hist, k, lim in base:
        for memo in (False, True):
            yield {'kind': 'outofrange/%s' % ('memo' if memo else 'plain'), 'finding': 'cast-path', 'dim': 1, 'r': 1,
                   'nb': '-', 'dtype': 'uint8', 'memo': memo, 'hist': hist, 'pred': {'kind': 'lt', 'k': lim},
                   'rule': {'fam': 'sumoffset', 'k': k}}


def _run_outofrange(cpl, c):
    def arr(r):
        return ['ok', np.asarray(r[1]).tolist()] if r[0] == 'ok' else list(r)
    p = PredLt(c['pred']['k'])
    dyn = call_impl(lambda: cpl.evolve(np.array(c['hist'], dtype=c['dtype']), timesteps=p,
                                       apply_rule=SumOffset(c['rule']['k']), r=c['r'], memoize=c['memo']))
    fix = call_impl(lambda: cpl.evolve(np.array(c['hist'], dtype=c['dtype']), timesteps=c['pred']['k'],
                                       apply_rule=SumOffset(c['rule']['k']), r=c['r'], memoize=c['memo']))
    return ['ok', {'callable': arr(dyn), 'fixed_run': arr(fix)}]

# ---------------------------------------------------------------- implementation
class Capped:
    """stops a run that the generator promised would stop: after CAP consultations raise"""
    def __init__(self, f):
        self.f, self.n = f, 0

    def __call__(self, history_arg, count_arg):

        ca, t = history_arg, count_arg   # not named (ca, t): the library must call predicates positionally
        self.n += 1
        if self.n > CAP:
            raise RuntimeError('predicate consulted more than %d times' % CAP)
        return self.f(ca, t)


def ints(x):
    """nested lists of integer-valued numbers -> nested lists of int; None if some value is not integral"""
    if isinstance(x, list):
        r = [ints(y) for y in x]
        return None if any(y is None for y in r) else r
    if isinstance(x, bool):
        return int(x)
    if isinstance(x, complex):      # complex automata: this file's own reader (int() of a complex raises)
        if x.imag != 0:
            return None
        x = x.real
    if x != x or x in (float('inf'), float('-inf')) or x != int(x):
        return None
    return int(x)


class NestedPred:
    """runs a complete library evolution of its own (same geometry, memoized) before answering"""
    def __init__(self, inner, nested):
        self.inner, self.log, self.nested = inner, inner.log, nested

    def __call__(self, history_arg, count_arg):
        self.nested()
        b = self.inner(history_arg, count_arg)
        self.nested()
        return b


def nested_call(cpl, c):
    """a thunk: an evolution on an automaton of the same shape and dtype, another rule, memoize=True / 'recursive'"""
    shape = np.asarray(c['hist']).shape[1:]
    start = (np.arange(int(np.prod(shape))).reshape((1,) + shape) % 3).astype(build_ca(c).dtype)
    other = make_rule({'fam': 'lin', 'ws': [1] * (3 if c['dim'] == 1 else 9), 'm': 3}, c['dim'])
    memo = 'recursive' if c.get('memo') == 'recursive' else True
    if c['dim'] == 1:
        return lambda: cpl.evolve(start.copy(), timesteps=3, apply_rule=other, r=1, memoize=memo)
    return lambda: cpl.evolve2d(start.copy(), timesteps=3, apply_rule=other, r=1, neighbourhood='Moore', memoize=memo)


def make_pred(cpl, pred, pmode=None):
    if pred['kind'] == 'lt':
        p = PredLt(pred['k'])
    elif pred['kind'] == 'script':
        p = PredScript(list(pred['bs']))
    else:
        p = PredLogged(Capped(cpl.until_fixed_point()))
    return {'scribble': ScribblePred, 'retain': RetainPred}.get(pmode, lambda x: x)(p)


LARGE_STEPS = 3


def call_evolve(cpl, c, ca, timesteps, rule):
    if c.get('npos') is not None:      # the same call written with the first npos arguments positional, the rest by keyword
        if c['dim'] == 1:
            return invoke(cpl.evolve, ['cellular_automaton', 'timesteps', 'apply_rule', 'r', 'memoize'],
                          [ca, timesteps, rule, c['r'], c['memo']], c['npos'])
        return invoke(cpl.evolve2d, ['cellular_automaton', 'timesteps', 'apply_rule', 'r', 'neighbourhood', 'memoize'],
                      [ca, timesteps, rule, c['r'], c['nb'], c['memo']], c['npos'])
    if c['dim'] == 1:
        return cpl.evolve(ca, timesteps=timesteps, apply_rule=rule, r=c['r'], memoize=c['memo'])
    return cpl.evolve2d(ca, timesteps=timesteps, apply_rule=rule, r=c['r'], neighbourhood=c['nb'], memoize=c['memo'])


def run_impl(c):
    import cellpylib as cpl
    if c.get('finding') == 'cast-path':
        return _run_outofrange(cpl, c)
    if c.get('large'):
        return _run_large(cpl, c)
    ca = build_ca(c)
    if c.get('direct'):
        res = call_impl(lambda: call_evolve(cpl, c, ca, cpl.until_fixed_point(), build_rule(c)))
        if res[0] != 'ok':
            return list(res)
        out = np.asarray(res[1])
        return ['ok', {'out': conv(c, out), 'shape': [int(x) for x in out.shape], 'dtype': str(out.dtype),
                       'after': conv(c, ca), 'fresh': bool(not np.shares_memory(out, ca))}]
    pred = make_pred(cpl, c['pred'], c.get('pmode'))
    if c.get('reentrant') == 'pred':
        pred = NestedPred(pred, nested_call(cpl, c))
    rule_obj = build_rule(c)
    if c.get('reentrant') == 'rule':
        rule_obj = Reentrant(rule_obj, nested_call(cpl, c))
    res = call_impl(lambda: call_evolve(cpl, c, ca, dress_pred(pred, c.get('pdress')), rule_obj))
    if res[0] != 'ok':
        return list(res)
    out = np.asarray(res[1])
    o = {'out': conv(c, out), 'plog': [[conv(c, s), int(t)] for (s, t) in pred.log],
         'shape': [int(x) for x in out.shape], 'dtype': str(out.dtype),
         'after': conv(c, ca), 'fresh': bool(isinstance(res[1], np.ndarray) and not np.shares_memory(res[1], ca)),
         'retained_ok': bool(pred.intact()) if c.get('pmode') == 'retain' else True}
    # the sentence "equals the fixed-count evolution of the same length", on the implementation alone
    k1 = len(pred.log)
    ca2 = build_ca(c)
    ref = call_impl(lambda: call_evolve(cpl, c, ca2, k1, build_rule(c)))
    o['fixed'] = conv(c, ref[1]) if ref[0] == 'ok' else ref[1]
    return ['ok', o]


# ---------------------------------------------------------------- Coq
def cpredspec(p):
    if p['kind'] == 'lt':
        return '(PLt %s)' % cnat(p['k'])
    if p['kind'] == 'script':
        return '(PScript %s)' % clist(p['bs'], cbool)
    return 'PUfp'


def _wellformed(c, o):
    """arrays of the right rank with integral entries (otherwise they cannot be written as Coq terms)"""
    if o['out'] is None or any(e[0] is None for e in o['plog']):
        return False
    rank = 2 if c['dim'] == 1 else 3
    return len(o['shape']) == rank and all(np.asarray(e[0]).ndim == rank for e in o['plog'])


def to_coq(c, obs):
    if c.get('finding') == 'cast-path' or c.get('large'):
        return 'CSkip'          # nothing compared in Coq: the model has one cast, the code has two
    one = c['dim'] == 1
    carr = cgrid if one else chist
    if c.get('direct'):
        st = c.get('store') or ['id']
        cst = {'id': 'StId', 'bool': 'StBool'}.get(st[0]) or '(StQuot %s)' % cz(st[1])
        o = '(Raise OtherError)' if (obs[0] == 'ok' and obs[1]['out'] is None) else \
            ('(Ok %s)' % carr(obs[1]['out']) if obs[0] == 'ok' else cres(obs, str))
        if one:
            return '(C1D %s %s %s %s %s)' % (coq_rspec(c['rule']), cst, cnat(c['r']), cgrid(c['hist']), o)
        return '(C2D %s %s %s %s %s %s)' % (coq_rspec(c['rule']), cst, cnat(c['r']),
                                            'Moore' if c['nb'] == 'Moore' else 'VonNeumann', chist(c['hist']), o)
    if obs[0] == 'ok' and not _wellformed(c, obs[1]):
        o = '(Raise OtherError)'
    elif obs[0] == 'ok':
        o = '(Ok (%s, %s))' % (carr(obs[1]['out']), clist(obs[1]['plog'], lambda e: '(%s, %s)' % (carr(e[0]), cnat(e[1]))))
    else:
        o = cres(obs, str)
    if one:
        return '(C1 %s %s %s %s %s)' % (coq_rspec(c['rule']), cnat(c['r']), cgrid(c['hist']), cpredspec(c['pred']), o)
    return '(C2 %s %s %s %s %s %s)' % (coq_rspec(c['rule']), cnat(c['r']),
                                        'Moore' if c['nb'] == 'Moore' else 'VonNeumann',
                                        chist(c['hist']), cpredspec(c['pred']), o)


def nontrivial(c, obs):
    if c.get('finding') or c.get('large'):
        return False
    if c.get('direct'):
        return obs[0] == 'ok'
    return obs[0] == 'ok' and len(obs[1]['plog']) >= 2


# ---------------------------------------------------------------- the property's own oracle
def oracle(c, obs):
    if c.get('large'):
        o = obs[1]
        if not (o['dyn_ok'] and o['fix_ok']):
            return 'a call raised (callable ok: %s, fixed ok: %s)' % (o['dyn_ok'], o['fix_ok'])
        if o['consulted'] != [[k, k] for k in range(1, LARGE_STEPS + 2)]:
            return 'the predicate was consulted with %s' % o['consulted'][:6]
        if not o['same_shape'] or not o['prefix_ok']:
            return 'shape / dtype / prefix of the callable run are wrong'
        if o['differing_rows']:
            return ('the evolution gated by a callable differs from the fixed-count evolution of the same length in rows %s'
                    % o['differing_rows'])
        return None
    if c.get('finding') == 'cast-path':
        o = obs[1]
        if o['callable'] != o['fixed_run']:
            return ('callable run differs from the fixed run on out-of-range results: callable %s, fixed %s'
                    % (o['callable'][:2] if o['callable'][0] != 'ok' else 'returned', o['fixed_run'][:2] if o['fixed_run'][0] != 'ok' else 'returned'))
        return None
    if obs[0] != 'ok':
        return 'the call raised %s' % obs[1]
    o = obs[1]
    if o.get('after') is not None and o['after'] != c['hist']:
        return "the caller's array was modified"
    if not o.get('fresh', True):
        return "the result shares memory with the caller's array"
    if not o.get('retained_ok', True):
        return 'an array handed to the predicate changed after the predicate returned'
    if c.get('direct'):
        out, H = o['out'], len(c['hist'])
        if out is None:
            return 'the result is not integer-valued'
        if out[:H] != c['hist']:
            return 'the result does not start with the given history'
        if o['dtype'] != c['dtype']:
            return 'dtype changed from %s to %s' % (c['dtype'], o['dtype'])
        states = out[H - 1:]
        if len(states) < 2:
            return 'until_fixed_point performed no step'
        if states[-1] != states[-2]:
            return 'until_fixed_point: the last two rows differ'
        for j in range(1, len(states) - 1):
            if states[j] == states[j - 1]:
                return ('until_fixed_point: stored states %d and %d of this call are already equal, the evolution '
                        'should have stopped there' % (j - 1, j))
        return None
    if not _wellformed(c, o):
        return 'the result or a predicate argument is not an integer-valued array of the expected rank'
    plog, out, hist = o['plog'], o['out'], c['hist']
    H = len(hist)
    if not plog:
        return 'the predicate was never consulted'
    for j, (states, t) in enumerate(plog, start=1):
        if t != j:
            return 'consultation %d received t = %d' % (j, t)
        if len(states) != j:
            return 'consultation %d received %d states (the states of this call are %d)' % (j, len(states), j)
        if states[0] != hist[-1]:
            return 'consultation %d: the first state is not the starting state' % j
    final = plog[-1][0]
    for j, (states, t) in enumerate(plog, start=1):
        if states != final[:j]:
            return 'consultation %d did not receive a prefix of the states of this call' % j
    if out != hist[:-1] + final:
        return 'the result is not the given history followed by the states produced while the predicate said yes'
    if o['dtype'] != c['dtype']:
        return 'dtype changed from %s to %s' % (c['dtype'], o['dtype'])
    if o['fixed'] != out:
        return 'the result differs from the fixed-count evolution with timesteps = %d' % len(plog)
    # answers: the twins are deterministic functions of (consultation index, t, states)
    p = c['pred']
    k = len(plog) - 1          # steps performed
    if p['kind'] == 'lt' and k != max(p['k'] - 1, 0):
        return 't < %d performed %d steps' % (p['k'], k)
    if p['kind'] == 'script':
        want = 0
        while want < len(p['bs']) and p['bs'][want]:
            want += 1
        if k != want:
            return 'scripted predicate: %d steps performed, %d leading yes answers' % (k, want)
    if p['kind'] == 'ufp':
        if k < 1:
            return 'until_fixed_point performed no step'
        if final[-1] != final[-2]:
            return 'until_fixed_point: the last two rows differ'
        for j in range(1, k):
            if final[j] == final[j - 1]:
                return 'until_fixed_point: states %d and %d of this call are already equal' % (j - 1, j)
    return None


def shrink(c):
    if c['memo'] is not False:
        yield dict(c, memo=False)
    if len(c['hist']) > 1:
        yield dict(c, hist=c['hist'][1:])
    if c['dtype'] != 'int64' and c.get('base') is None:
        yield dict(c, dtype='int64')
    p = c['pred']
    if p['kind'] == 'lt' and p['k'] > 0:
        yield dict(c, pred={'kind': 'lt', 'k': p['k'] - 1})
    if p['kind'] == 'script' and p['bs']:
        yield dict(c, pred={'kind': 'script', 'bs': p['bs'][1:]})
        yield dict(c, pred={'kind': 'script', 'bs': p['bs'][:-1]})
    if c['dim'] == 1 and len(c['hist'][0]) > c['r'] and len(c['hist'][0]) > 1 and c['rule']['fam'] != 'script':
        yield dict(c, hist=[row[:-1] for row in c['hist']])


# ------------------------------------------------------------------ source tie (appended; harness/translate.py)
# pre(): regenerate coq/gen/GenFuns.v from the Python source of the tree under test and, if it changed, re-prove
# GenProps/GenFunsEquivC06.v, GenProps/C06Src.v and Properties/C06.v (theorem C06_source_tie) by hand.
# extra_checks(): report a failed translation / equivalence proof (theorem names, translator or coqc error).
from harness import translate as _translate
_prev_pre = globals().get('pre')
_prev_extra_checks = globals().get('extra_checks')
TRUSTED = list(globals().get('TRUSTED', [])) + [_translate.TRUSTED_NOTE]
NOTES = list(globals().get('NOTES', [])) + [
    'coq/gen/GenFuns.v is regenerated from the Python source at the start of every run; theorem C06_source_tie proves '
    'the regenerated definitions equal to the hand-written model for all inputs']


def pre(ctx):
    if _prev_pre is not None:
        _prev_pre(ctx)
    _translate.pre_hook(ctx, 'C06')


def extra_checks(ctx):
    out = list(_prev_extra_checks(ctx)) if _prev_extra_checks is not None else []
    return out + _translate.extra_hook(ctx, 'C06')
