"""C15 — CTRBL rule tables and the built-in loops: regenerated tables, witness search, correspondence.

pre(ctx)          re-exports the rule tables from the library under test (harness/gen_tables.py) into
                  coq/gen/GenTables.v; if they changed (or a dependent .vo is missing/stale) recompiles by hand
                  gen/GenTables.v, Corr/C15.v, GenProps/C15Tables.v, Properties/C15.v. If the table theorems no longer
                  compile, runs the WITNESS search (gen/C15Witness_<pid>.v: the same boolean checkers, `find5`) and
                  replays each witness key against the real __call__.
extra_checks(ctx) reports the witnesses (VIOLATION with the key; ' no-failing-input-found' + theorem name when no key
                  was found or the implementation does not show the failure on the key), and runs the property's own
                  Python oracle over all 8^5 / 9^5 combinations (second, Coq-independent detector).
Correspondence    COMPLETE streams: every (C,T,R,B,L) in 0..8 through the real __call__ of LangtonsLoop, SDSRLoop,
                  Evoloop, once as a plain 3x3 ndarray block and once as the masked von Neumann block evolve2d passes;
                  729 answers per case packed into one hex numeral; compared with the model inside Coq, in order.
                  Plus: rule_table property, explicit 3x3 blocks, one-step evolve2d grids, random user tables through
                  cpl.CTRBLRule (all keys of the state space, ValueError class exact), and the no-aliasing bucket
                  user/alias/*: the caller's dict is edited after construction, the rule must not change.
"""
import atexit
import os
import re
import shutil
import time

import numpy as np

from harness import driver
from harness.driver import call_impl, cz, cnat, cbool, clist, czlist, cgrid, cres

ID = 'C15'
OWN_COQCHK = True   # this module runs coqchk itself in the thorough tier (extra_checks)
COQ_IMPORTS = ('From CPL Require Import Model.Base Model.CTRBL Model.Loops Model.SayamaSpec gen.GenTables Corr.C15.\n'
               'Open Scope Z_scope.')
NONTRIVIAL_RULE = ('complete: all 9^5 (C,T,R,B,L) of each of the three loops (Langton: its 8^5 plus the combinations with '
                   'an 8, which must raise ValueError), as plain and as masked von Neumann 3x3 blocks, 729 per case; '
                   'random user tables (<= 30 entries, <= 4 states, with/without conflicts and rotations) queried on their '
                   'whole state space; non-trivial = the case contains at least one answer that is a value (not an '
                   'exception); distinct = distinct case dicts')
EXHAUSTIVE = {'quick': True, 'thorough': True}
NOTES = ['the loops\' state spaces (8^5, 9^5) are enumerated completely in both tiers; user tables are a seeded sweep',
         'gen/GenTables.v is re-exported from the library under test at the start of every run and the finite theorems '
         'are re-proved against it']
ASSUMPTIONS = ['states and images of the built-in loops are Python/NumPy ints (the tables are exported as Z; a non-int image is '
               'exported as -1); user tables over quarter-integral float states are carried scaled by 4 (exact), so the '
               'model keys stay integers and 2.0 == 2 is one key, as in a Python dict',
               'the neighbourhood is a 3x3 block indexable as n[i][j] (ndarray or the masked array of evolve2d)',
               'insertion order of rule_table is not compared (the property does not constrain it)']
TRUSTED = ['harness/gen_tables.py (AST reader and exporter of the rule tables; its output is cross-checked in Python and '
           'again by theorem C15_builtin_tables_are_closures and by the rule_table correspondence cases)']

VERIF = driver.VERIF
COQ = driver.COQ
GEN = driver.GEN
LOOPS = ('langton', 'sdsr', 'evoloop')
LCOQ = {'langton': 'LLangton', 'sdsr': 'LSdsr', 'evoloop': 'LEvoloop'}
CHAIN = ['gen/GenTables.v', 'Corr/C15.v', 'GenProps/C15Tables.v', 'Properties/C15.v']
STASH = os.path.join(GEN, 'c15_last_good')

_state = {'witness': None, 'status': None, 'failed': False, 'coqc_err': '', 'restore': False}


# ------------------------------------------------------------------ implementation side
def _objs():
    import cellpylib as cpl
    return {'langton': cpl.LangtonsLoop(), 'sdsr': cpl.SDSRLoop(), 'evoloop': cpl.Evoloop()}


def _code_of(v):
    if v is None:
        return 10
    if isinstance(v, (int, np.integer)) and not isinstance(v, (bool, np.bool_)) and 0 <= v <= 8:
        return int(v)
    return 12


def _code(fn, *a):
    try:
        v = fn(*a)
    except ValueError:
        return 9
    except Exception:  # noqa
        return 11
    return _code_of(v)


VN_MASK = np.array([[1, 0, 1], [0, 0, 0], [1, 0, 1]], dtype=bool)


DTYPES = {'int64': np.int64, 'int32': np.int32, 'uint8': np.uint8, 'int8': np.int8, 'float64': np.float64,
          'bool': np.bool_}


def _mk_block(masked, dtype=None):
    """a reusable 3x3 block; corners hold junk that a correct rule never reads"""
    if masked:
        data = np.zeros((3, 3), dtype=DTYPES[dtype] if dtype else np.int32)
        return np.ma.masked_array(data, VN_MASK), data
    data = np.zeros((3, 3), dtype=DTYPES[dtype] if dtype else np.int64)
    return data, data


def _fill(data, k, junk):
    c, t, r, b, l = k
    data[1, 1] = c
    data[0, 1] = t
    data[1, 2] = r
    data[2, 1] = b
    data[1, 0] = l
    data[0, 0] = junk % 9
    data[0, 2] = (junk + 4) % 9
    data[2, 0] = (junk + 7) % 9
    data[2, 2] = (junk + 2) % 9


def rot(k):
    c, t, r, b, l = k
    return (c, l, t, r, b)


# ---- exotic states (round 6): only key equality matters, so every exotic state is carried into Coq as a reserved
# integer. Tokens in the case dicts: ints (themselves), or one of the names below. NaN != NaN: every OCCURRENCE of
# 'nan' is a fresh float object and gets a fresh reserved integer, so it can never be looked up - exactly what the
# unchanged library does with a NaN read from a float array (inside a table the rotations of a key share the object,
# and share the reserved integer).
XBASE = 10 ** 12
XTOK = {'inf': (XBASE + 1, float('inf')), '-inf': (XBASE + 2, float('-inf')), 'complex': (XBASE + 3, 4 + 1j),
        'complex2': (XBASE + 4, -2j), 'str': (XBASE + 5, 'x'), 'str4': (XBASE + 6, '4'), 'None': (XBASE + 7, None),
        'half': (XBASE + 8, 0.5), 'f1.5': (XBASE + 9, 1.5), 'big': (2 ** 70, 2 ** 70), 'True': (1, True)}


class _XMap:
    """token -> Python value (for the real call) and -> reserved integer (for Coq), deterministic per case"""
    def __init__(self):
        self.nan_ids = {}
        self.count = 0

    def value(self, tok, floaty=False):
        if tok == 'nan':
            v = float('nan')
            self.count += 1
            self.nan_ids[id(v)] = XBASE + 100 + self.count
            self._keep = getattr(self, '_keep', []) + [v]      # keep the object alive: ids stay unique
            return v
        if isinstance(tok, str):
            return XTOK[tok][1]
        return float(tok) if floaty else int(tok)

    def code_of_value(self, x):
        """reserved integer of a state read back from rule_table"""
        if isinstance(x, float) and x != x:
            return self.nan_ids.get(id(x), XBASE + 99)
        for name, (code, val) in XTOK.items():
            if type(val) is type(x) and val == x and name != 'True':
                return code
        if isinstance(x, (bool, np.bool_)):
            return int(x)
        if isinstance(x, (int, np.integer)) or (isinstance(x, (float, np.floating)) and x == int(x)):
            return int(x)
        if isinstance(x, complex) and x.imag == 0 and x.real == int(x.real):
            return int(x.real)
        return XBASE + 98


def _xcodes(case):
    """the same traversal as run_impl, tokens -> reserved integers (items first, then queries / grid)"""
    cnt = [0]

    def code(tok):
        if tok == 'nan':
            cnt[0] += 1
            return XBASE + 100 + cnt[0]
        return XTOK[tok][0] if isinstance(tok, str) else int(tok)
    items = [[[code(t) for t in k], v] for k, v in case['items']]
    if 'queries' in case:
        rest = [[[code(t) for t in row] for row in q] for q in case['queries']]
    else:
        rest = [[code(t) for t in row] for row in case['g']]
    return items, rest


def _xblock(vals, form):
    if form == 'list':
        return vals
    if form == 'object':
        a = np.empty((3, 3), dtype=object)
        for i in range(3):
            for j in range(3):
                a[i, j] = vals[i][j]
        return a
    return np.array(vals, dtype={'float64': np.float64, 'float32': np.float32, 'complex128': np.complex128}[form])


def _unscale(v, scale, as_float):
    """the real state carried as the integer v = state * scale (scale 4: quarter-integral floats, exact in binary);
    an integral state is handed over as int or as float (2.0 == 2 and hash alike: same dict key)"""
    if scale == 1:
        return int(v)
    if v % scale == 0 and not as_float:
        return int(v // scale)
    return v / scale


def _rescale(x, scale):
    y = x * scale
    if y != int(y):
        raise ValueError('state %r is not a multiple of 1/%d' % (x, scale))
    return int(y)


def _real_block(q, scale, form):
    vals = [[_unscale(x, scale, form != 'list') for x in row] for row in q]
    if form == 'list':
        return vals                                   # nested Python lists, ints where integral
    if form == 'object':
        return np.array(vals, dtype=object)
    if form == 'int64':
        return np.array(vals, dtype=np.int64)
    arr = np.array(vals, dtype=np.float64)
    if form == 'masked':
        return np.ma.masked_array(arr, VN_MASK)
    return arr


def _chunk_codes(rule, c, t, masked, dom=9):
    n, data = _mk_block(masked)
    out = []
    for r in range(dom):
        for b in range(dom):
            for l in range(dom):
                _fill(data, (c, t, r, b, l), c + 2 * t + 3 * r + 5 * b + 7 * l + 1)
                out.append(_code(rule, n, (1, 1), 1))
    return out


_OBJ_CACHE = {}


def _rule(loop):
    # fresh objects once per process (the rules are stateless; the tables are read through the public property)
    if not _OBJ_CACHE:
        _OBJ_CACHE.update(_objs())
    return _OBJ_CACHE[loop]


def _items(tbl):
    out = []
    for k, v in tbl.items():
        out.append([[int(x) for x in k], int(v) if isinstance(v, (int, np.integer)) and not isinstance(v, bool) else -1])
    return out


def run_impl(c):
    import cellpylib as cpl
    op = c['op']
    if op == 'stream':
        r = call_impl(lambda: _chunk_codes(_rule(c['loop']), c['c'], c['t'], c['masked']), timeout=120)
        return list(r)
    if op == 'ruletable':
        r = call_impl(lambda: _items(_objs()[c['loop']].rule_table))
        return list(r)
    if op == 'block':
        n = np.array(c['n'], dtype=np.int64)
        if c.get('masked'):
            n = np.ma.masked_array(n.astype(np.int32), VN_MASK)
        return ['ok', _code(_rule(c['loop']), n, (1, 1), 1)]
    if op == 'grid':
        def go():
            g = np.array([c['g']], dtype=np.int32)
            try:
                out = cpl.evolve2d(g, timesteps=2, apply_rule=_rule(c['loop']), r=1, neighbourhood='von Neumann',
                                   memoize=c.get('memoize', False))
            except ValueError:
                return [[9]]
            except Exception:  # noqa
                return [[11]]
            return [[_code_of(x) for x in row] for row in np.asarray(out[1]).tolist()]
        return list(call_impl(go))
    if op == 'user':
        def go():
            d = {tuple(k): v for k, v in c['items']}
            rule = cpl.CTRBLRule(d, add_rotations=c['add_rot'])
            tbl = _items(rule.rule_table)
            ns = c['ns']
            n, data = _mk_block(c.get('masked', False), c.get('dtype'))
            codes = []
            for cc in range(ns):
                for t in range(ns):
                    for r in range(ns):
                        for b in range(ns):
                            for l in range(ns):
                                _fill(data, (cc, t, r, b, l), cc + t + r + b + l + 3)
                                codes.append(_code(rule, n, (1, 1), 1))
            return [tbl, codes]
        return list(call_impl(go, timeout=60))
    if op == 'dsample':
        def go():
            rule = _rule(c['loop'])
            n, data = _mk_block(c['masked'], c['dtype'])
            out = []
            for i, k in enumerate(c['keys']):
                _fill(data, k, i)
                if c['dtype'] == 'bool':
                    data[0, 0] = data[0, 2] = data[2, 0] = data[2, 2] = i % 2
                out.append(_code(rule, n, (1, 1), 1))
            return out
        return list(call_impl(go, timeout=120))
    if op == 'alias':
        def go():
            d = {tuple(k): v for k, v in c['items']}
            rule = cpl.CTRBLRule(d, add_rotations=c['add_rot'])
            # the caller goes on editing ITS dict after the rule exists
            for k, v in c['edits']:
                if v < 0:
                    d.pop(tuple(k), None)
                else:
                    d[tuple(k)] = v
            if c.get('clear'):
                d.clear()
            ns = c['ns']
            n, data = _mk_block(c.get('masked', False), c.get('dtype'))
            codes = []
            for cc in range(ns):
                for t in range(ns):
                    for r in range(ns):
                        for b in range(ns):
                            for l in range(ns):
                                _fill(data, (cc, t, r, b, l), cc + t + r + b + l + 3)
                                codes.append(_code(rule, n, (1, 1), 1))
            return [_items(rule.rule_table), codes]
        return list(call_impl(go, timeout=60))
    if op == 'absentx':
        def go():
            import warnings
            xm = _XMap()
            floaty = c['form'] in ('float64', 'float32')
            d = {}
            for k, v in c['items']:
                d[tuple(xm.value(t) for t in k)] = v
            rule = cpl.CTRBLRule(d, add_rotations=c['add_rot'])
            tbl = [[[xm.code_of_value(x) for x in k], int(v)] for k, v in rule.rule_table.items()]
            answers = []
            with warnings.catch_warnings():
                warnings.simplefilter('ignore')
                for q in c['queries']:
                    arr = _xblock([[xm.value(t, floaty) for t in row] for row in q], c['form'])
                    answers.append(list(call_impl(lambda: int(rule(arr, (1, 1), 1)))))
            return [tbl, answers]
        return list(call_impl(go, timeout=60))
    if op == 'absentgrid':
        def go():
            import warnings
            xm = _XMap()
            d = {}
            for k, v in c['items']:
                d[tuple(xm.value(t) for t in k)] = v
            rule = cpl.CTRBLRule(d, add_rotations=c['add_rot'])
            g = np.array([[[xm.value(t, True) for t in row] for row in c['g']]], dtype=np.float64)
            with warnings.catch_warnings():
                warnings.simplefilter('ignore')
                out = cpl.evolve2d(g, timesteps=2, apply_rule=rule, r=1, neighbourhood='von Neumann')
            return [[int(x) for x in row] for row in np.asarray(out[1]).tolist()]
        return list(call_impl(go, timeout=60))
    if op == 'userx':
        def go():
            sc = c['scale']
            d = {tuple(_unscale(x, sc, (x + i) % 2 == 0) for i, x in enumerate(k)): v for k, v in c['items']}
            rule = cpl.CTRBLRule(d, add_rotations=c['add_rot'])
            tbl = [[[_rescale(x, sc) for x in k], int(v)] for k, v in rule.rule_table.items()]
            answers = []
            for q in c['queries']:
                arr = _real_block(q, sc, c['form'])
                answers.append(list(call_impl(lambda: int(rule(arr, (1, 1), 1)))))
            return [tbl, answers]
        return list(call_impl(go, timeout=60))
    if op == 'usergrid':
        def go():
            sc = c['scale']
            d = {tuple(_unscale(x, sc, (x + i) % 2 == 0) for i, x in enumerate(k)): _unscale(v, sc, False)
                 for k, v in c['items']}
            rule = cpl.CTRBLRule(d, add_rotations=c['add_rot'])
            g = np.array([c['g']], dtype=np.float64) / sc if sc > 1 else np.array([c['g']], dtype=np.int64)
            out = cpl.evolve2d(g, timesteps=2, apply_rule=rule, r=1, neighbourhood='von Neumann',
                               memoize=c.get('memoize', False))
            return [[_rescale(x, sc) for x in row] for row in np.asarray(out[1]).tolist()]
        return list(call_impl(go, timeout=60))
    if op == 'userq':
        def go():
            d = {tuple(k): v for k, v in c['items']}
            rule = cpl.CTRBLRule(d, add_rotations=c['add_rot'])
            tbl = _items(rule.rule_table)
            answers = []
            for n in c['queries']:
                arr = np.array(n, dtype=np.int64)
                answers.append(list(call_impl(lambda: int(rule(arr, (1, 1), 1)))))
            return [tbl, answers]
        return list(call_impl(go, timeout=60))
    if op == 'witness':
        rule = _objs()[c['loop']]
        k = tuple(c['key'])
        obs = []
        for _ in range(4):
            big = any(abs(x) > 2 ** 62 for x in k)
            n = np.zeros((3, 3), dtype=object if big else np.int64)
            _fill(n, k, 5)
            obs.append(_code(rule, n, (1, 1), 1))
            k = rot(k)
        return ['ok', obs]
    raise ValueError(op)


# ------------------------------------------------------------------ Coq terms
def ckey(k):
    return '(%s)' % ', '.join(cz(x) for x in k)


def ctable(items):
    return '[' + '; '.join('(%s, %s)' % (ckey(k), cz(v)) for k, v in items) + ']'


def _pack(codes):
    """first answer = least significant hex digit; leading 1"""
    return '0x1' + ''.join('%x' % d for d in reversed(codes)) + '%N'


def to_coq(c, obs):
    op = c['op']
    bad = obs[0] != 'ok'
    if op == 'stream':
        codes = [11] * 729 if bad else obs[1]
        return '(CStream %s %s %s %s)' % (LCOQ[c['loop']], cz(c['c']), cz(c['t']), _pack(codes))
    if op == 'ruletable':
        return '(CRuleTable %s %s)' % (LCOQ[c['loop']], ctable([] if bad else obs[1]))
    if op == 'block':
        return '(CBlock %s %s %s)' % (LCOQ[c['loop']], cgrid(c['n']), cz(11 if bad else obs[1]))
    if op == 'grid':
        return '(CGrid %s %s %s)' % (LCOQ[c['loop']], cgrid(c['g']), cgrid([[11]] if bad else obs[1]))
    if op == 'user':
        tbl, codes = ([], []) if bad else obs[1]
        chunks = [codes[i:i + 729] for i in range(0, len(codes), 729)]
        return '(CUser %s %s %s %s %s)' % (ctable(c['items']), cbool(c['add_rot']), cnat(c['ns']), ctable(tbl),
                                           '[' + '; '.join(_pack(ch) for ch in chunks) + ']')
    if op == 'dsample':
        codes = [11] * len(c['keys']) if bad else obs[1]
        chunks = [codes[i:i + 729] for i in range(0, len(codes), 729)]
        return '(CSample %s %s %s)' % (LCOQ[c['loop']], '[' + '; '.join(ckey(k) for k in c['keys']) + ']',
                                       '[' + '; '.join(_pack(ch) for ch in chunks) + ']')
    if op == 'alias':
        tbl, codes = ([], []) if bad else obs[1]
        chunks = [codes[i:i + 729] for i in range(0, len(codes), 729)]
        edits = list(c['edits']) + ([[k, -1] for k, _ in c['items']] if c.get('clear') else [])
        return '(CAlias %s %s %s %s %s %s)' % (ctable(c['items']), cbool(c['add_rot']), cnat(c['ns']), ctable(edits),
                                              ctable(tbl), '[' + '; '.join(_pack(ch) for ch in chunks) + ']')
    if op == 'absentx':
        items, qs_ = _xcodes(c)
        tbl, answers = ([], [['exc', 'OtherError']] * len(c['queries'])) if bad else obs[1]
        qs = '[' + '; '.join('(%s, %s)' % (cgrid(n), cres(a, cz)) for n, a in zip(qs_, answers)) + ']'
        return '(CUserQ %s %s %s %s)' % (ctable(items), cbool(c['add_rot']), ctable(tbl), qs)
    if op == 'absentgrid':
        items, g = _xcodes(c)
        return '(CUserGrid %s %s %s %s)' % (ctable(items), cbool(c['add_rot']), cgrid(g), cres(obs, cgrid))
    if op == 'userx':
        tbl, answers = ([], [['exc', 'OtherError']] * len(c['queries'])) if bad else obs[1]
        qs = '[' + '; '.join('(%s, %s)' % (cgrid(n), cres(a, cz)) for n, a in zip(c['queries'], answers)) + ']'
        return '(CUserQ %s %s %s %s)' % (ctable(c['items']), cbool(c['add_rot']), ctable(tbl), qs)
    if op == 'usergrid':
        return '(CUserGrid %s %s %s %s)' % (ctable(c['items']), cbool(c['add_rot']), cgrid(c['g']), cres(obs, cgrid))
    if op == 'userq':
        tbl, answers = ([], [['exc', 'OtherError']] * len(c['queries'])) if bad else obs[1]
        qs = '[' + '; '.join('(%s, %s)' % (cgrid(n), cres(a, cz)) for n, a in zip(c['queries'], answers)) + ']'
        return '(CUserQ %s %s %s %s)' % (ctable(c['items']), cbool(c['add_rot']), ctable(tbl), qs)
    if op == 'witness':
        return '(CWitness %s %s %s)' % (LCOQ[c['loop']], ckey(c['key']), czlist([11] * 4 if bad else obs[1]))
    raise ValueError(op)


def nontrivial(c, obs):
    if obs[0] != 'ok':
        return False
    op = c['op']
    if op in ('stream', 'dsample'):
        return any(d <= 8 for d in obs[1])
    if op in ('user', 'alias'):
        return any(d <= 8 for d in obs[1][1])
    if op in ('userq', 'userx', 'absentx'):
        return any(a[0] == 'ok' for a in obs[1][1])
    return True


# ------------------------------------------------------------------ generators
def _rot_class(k):
    out = [k]
    for _ in range(3):
        out.append(rot(out[-1]))
    return out


def _user_table(rng, ns, conflicts, vals=9):
    """<= 30 entries over ns states; with `conflicts`, some rotation classes are listed twice with different images"""
    n = rng.randint(0, 30)
    d = {}
    attempts = 0
    while len(d) < n and attempts < 300:
        attempts += 1
        k = tuple(rng.randrange(ns) for _ in range(5))
        if rng.random() < 0.3:      # symmetric keys: classes of size 1 or 2
            a, b = rng.randrange(ns), rng.randrange(ns)
            k = (k[0], a, b, a, b) if rng.random() < 0.5 else (k[0], a, a, a, a)
        if not conflicts and any(q in d for q in _rot_class(k)):
            continue
        d[k] = rng.randrange(vals)
        if len(d) >= n:
            break
        if rng.random() < (0.5 if conflicts else 0.25) and len(d) < n:
            q = rng.choice(_rot_class(k)[1:])
            if q not in d:
                d[q] = rng.randrange(vals) if conflicts else d[k]
        if ns ** 5 <= len(d):
            break
    items = list(d.items())
    rng.shuffle(items)
    return [[list(k), v] for k, v in items]


def generate(rng, tier):
    # ---- complete streams: 3 loops x 81 (C,T) x {plain, masked}, 729 answers each
    for loop in LOOPS:
        for c in range(9):
            for t in range(9):
                for masked in (False, True):
                    yield {'kind': 'stream/%s/%s' % (loop, 'masked' if masked else 'plain'), 'op': 'stream',
                           'loop': loop, 'c': c, 't': t, 'masked': masked}
    # ---- the public rule_table property
    for loop in LOOPS:
        yield {'kind': 'rule_table/' + loop, 'op': 'ruletable', 'loop': loop}
    # ---- other dtypes of the 3x3 block: 2000 random keys per loop and dtype (half of them listed keys or their
    #      turns, so that the table branch is hit), plain and masked; bool: all 32 keys over {0,1}
    nd = 2000 if tier == 'quick' else 6000
    listed = {loop: [k for k in _rule(loop).rule_table if all(isinstance(x, int) and 0 <= x <= 8 for x in k)]
              for loop in LOOPS}
    for loop in LOOPS:
        for dt in ('uint8', 'int8', 'int32', 'float64'):
            keys = []
            for i in range(nd):
                if i % 2 and listed[loop]:
                    keys.append(list(rng.choice(_rot_class(rng.choice(listed[loop])))))
                else:
                    keys.append([rng.randrange(9) for _ in range(5)])
            yield {'kind': 'dtype/%s/%s' % (dt, loop), 'op': 'dsample', 'loop': loop, 'dtype': dt, 'keys': keys,
                   'masked': dt in ('int8', 'float64')}
        keys = [[(i >> j) & 1 for j in range(5)] for i in range(32)]
        for masked in (False, True):
            yield {'kind': 'dtype/bool/' + loop, 'op': 'dsample', 'loop': loop, 'dtype': 'bool', 'keys': keys,
                   'masked': masked}
    # ---- explicit 3x3 blocks, all nine cells arbitrary (which cells are read)
    nb = 150 if tier == 'quick' else 1500
    for loop in LOOPS:
        for i in range(nb):
            hi = 8 if loop == 'langton' and i % 4 else 9
            n = [[rng.randrange(hi) for _ in range(3)] for _ in range(3)]
            if i % 10 == 0:   # states outside 0..8 (orientation "over all states"; None / ValueError there)
                n[rng.randrange(3)][rng.randrange(3)] = rng.choice([-1, 9, 10, 15, 16, 17, 255, 2 ** 31 - 1])
            yield {'kind': 'block/' + loop, 'op': 'block', 'loop': loop, 'n': n, 'masked': bool(i % 2)}
    # ---- one evolve2d step (von Neumann, r = 1, torus), as the loops are used
    ng = 12 if tier == 'quick' else 60
    import cellpylib as cpl
    for i in range(ng):
        for loop in LOOPS:
            R, C = rng.randint(1, 6), rng.randint(1, 6)
            if loop == 'langton':
                g = np.asarray(cpl.LangtonsLoop.init_loops(1, (12, 17), [1], [2])).reshape(12, 17).tolist() if i % 3 == 0 else \
                    [[rng.choice([0, 0, 0, 1, 2]) for _ in range(C)] for _ in range(R)]
            else:
                g = [[rng.randrange(9) for _ in range(C)] for _ in range(R)]
            yield {'kind': 'evolve2d/' + loop, 'op': 'grid', 'loop': loop, 'g': g, 'memoize': i % 4 == 3}
    # ---- random user tables through cpl.CTRBLRule
    nu = 450 if tier == 'quick' else 20000
    for i in range(nu):
        ns = rng.choice([1, 2, 2, 3, 3, 4, 4, 4])
        conflicts = i % 2 == 1
        add_rot = (i // 2) % 2 == 0
        yield {'kind': 'user/%s/%s' % ('conflicts' if conflicts else 'one-image', 'rotations' if add_rot else 'plain'),
               'op': 'user', 'items': _user_table(rng, ns, conflicts), 'add_rot': add_rot, 'ns': ns,
               'masked': i % 5 == 0, 'dtype': ['int64', 'int32', 'uint8', 'int8', 'float64'][i % 5] if i % 3 else None}
    # ---- user tables over NON-INTEGER states (quarter-integral floats, carried x4), negative ints, ints beyond
    #      int64: the property quantifies over all user tables and neighbourhoods. Queries: listed keys and their
    #      turns, random keys, and keys that are absent ONLY because of a fraction (one component moved by 1/4 .. 3/4,
    #      so that its truncation towards zero or its rounding is a listed key)
    nx = 150 if tier == 'quick' else 1500
    specs = [('fractional', 4, [0, 2, 4, 6, 8, -2, 1, 5, -6], ['float64', 'list', 'masked', 'object']),
             ('negative', 1, [-3, -2, -1, 0, 1], ['int64', 'list', 'object']),
             ('bigint', 1, [0, 1, -1, 2 ** 31, 2 ** 63, 2 ** 64 + 1, -2 ** 70], ['object', 'list'])]
    for name, scale, pool, forms in specs:
        for i in range(nx if name == 'fractional' else nx // 2):
            d = {}
            for _ in range(rng.randint(1, 10)):
                k = tuple(rng.choice(pool) for _ in range(5))
                d[k] = rng.randrange(9)
                if rng.random() < 0.4:
                    d[rng.choice(_rot_class(k))] = rng.randrange(9) if i % 2 else d[k]
            items = [[list(k), v] for k, v in d.items()]
            qs = []
            for j in range(10):
                u = rng.random()
                if u < 0.45:
                    k = rng.choice(_rot_class(rng.choice(list(d))))
                elif u < 0.8 and scale > 1:
                    k = list(rng.choice(_rot_class(rng.choice(list(d)))))
                    pos = rng.randrange(5)
                    k[pos] += rng.choice([1, 2, 3, -1, -2, -3])
                    k = tuple(k)
                else:
                    k = tuple(rng.choice(pool) for _ in range(5))
                cc, t, r, b, l = k
                qs.append([[rng.choice(pool), t, rng.choice(pool)], [l, cc, r], [rng.choice(pool), b, rng.choice(pool)]])
            form = forms[i % len(forms)]
            yield {'kind': 'usertable/%s/%s' % (name, form), 'op': 'userx', 'scale': scale, 'items': items,
                   'add_rot': i % 3 != 0, 'queries': qs, 'form': form}
    # float / negative-int grids through evolve2d with a user CTRBLRule (states and images x scale)
    nxg = 24 if tier == 'quick' else 200
    import itertools
    for i in range(nxg):
        scale, S = (4, rng.choice([[0, 2, 4], [0, 2, -2], [0, 1, 6], [2, 4]])) if i % 3 else (1, [-2, -1, 0])
        total = i % 2 == 0
        items = [[list(k), rng.choice(S)] for k in itertools.product(S, repeat=5) if total or rng.random() < 0.9]
        rng.shuffle(items)
        R, C = rng.randint(1, 5), rng.randint(1, 5)
        yield {'kind': 'usertable/%s/evolve2d' % ('fractional' if scale > 1 else 'negative'), 'op': 'usergrid',
               'scale': scale, 'items': items, 'add_rot': i % 4 == 1,
               'g': [[rng.choice(S) for _ in range(C)] for _ in range(R)], 'memoize': i % 5 == 4}
    # ---- ABSENT (and present) combinations whose states are inf / -inf / nan / complex / str / None / huge ints /
    #      fractions: the property names the exception class - an absent combination raises ValueError, nothing else
    classes = [('inf', ['inf'], ['float64', 'float32', 'object', 'list']),
               ('-inf', ['-inf', 'inf'], ['float64', 'float32', 'object', 'list']),
               ('nan', ['nan'], ['float64', 'float32', 'object', 'list']),
               ('complex', ['complex', 'complex2'], ['object', 'list', 'complex128']),
               ('str', ['str', 'str4'], ['object', 'list']),
               ('None', ['None', 'True'], ['object', 'list']),
               ('bigint', ['big'], ['object', 'list', 'float64']),
               ('fraction', ['half', 'f1.5'], ['float64', 'float32', 'object', 'list'])]
    na_ = 12 if tier == 'quick' else 120
    for name, toks, forms in classes:
        for i in range(na_):
            form = forms[i % len(forms)]
            pool = [0, 1, 2, 3, 4] + toks * 2
            items = {}
            for _ in range(rng.randint(1, 6)):
                # exotic states may be KEY states too (legal: any hashable); nan keys can never be hit
                k = tuple(rng.choice(pool) if rng.random() < 0.5 else rng.randrange(5) for _ in range(5))
                items[k] = rng.randrange(9)
            items = [[list(k), v] for k, v in items.items()]
            qs = []
            for j in range(8):
                u = rng.random()
                base = list(rng.choice(_rot_class(tuple(rng.choice(items)[0]))))
                if u < 0.35:
                    k = base                                         # present (unless it holds a nan)
                elif u < 0.8:
                    k = base
                    k[rng.randrange(5)] = rng.choice(toks)           # (mostly) absent because of the exotic state
                else:
                    k = [rng.choice(pool) for _ in range(5)]
                cc, t, r, b, l = k
                qs.append([[rng.randrange(5), t, rng.randrange(5)], [l, cc, r], [rng.randrange(5), b, rng.randrange(5)]])
            yield {'kind': 'absent/%s/%s' % (name, form), 'op': 'absentx', 'items': items, 'add_rot': i % 2 == 0,
                   'queries': qs, 'form': form}
    # ... and through evolve2d on float grids holding inf / -inf / nan / fractional cells
    for i in range(16 if tier == 'quick' else 120):
        S = [0, 1] + rng.choice([['inf'], ['-inf'], ['inf', '-inf'], ['half'], ['nan', 'inf'], ['nan']])
        Sk = [x for x in S if x != 'nan']
        total = i % 2 == 0
        items = [[list(k), rng.choice([0, 1])] for k in itertools.product(Sk, repeat=5) if total or rng.random() < 0.85]
        rng.shuffle(items)
        R, C = rng.randint(1, 4), rng.randint(1, 4)
        yield {'kind': 'absent/evolve2d/' + '+'.join(str(x) for x in S[2:]), 'op': 'absentgrid', 'items': items,
               'add_rot': i % 4 == 1, 'g': [[rng.choice(S) for _ in range(C)] for _ in range(R)]}
    # ---- marker keys: five pairwise distinct states pin each rotation down as a permutation of positions
    for i, perm in enumerate([(0, 1, 2, 3, 4), (4, 3, 2, 1, 0), (2, 0, 4, 1, 3), (1, 2, 3, 4, 0)]):
        for add_rot in (True, False):
            yield {'kind': 'user/marker/%s' % ('rotations' if add_rot else 'plain'), 'op': 'user',
                   'items': [[list(perm), 7]] + ([[[perm[0], perm[4], perm[1], perm[2], perm[3]], 3]] if i == 3 else []),
                   'add_rot': add_rot, 'ns': 5, 'masked': bool(i % 2)}
    # ---- no aliasing: the caller edits its dict AFTER the rule was constructed (delete / add / re-image); the rule
    #      must keep answering with the table it was constructed with
    na = 100 if tier == 'quick' else 1500
    for i in range(na):
        ns = rng.choice([2, 2, 3, 3, 4])
        add_rot = i % 2 == 0
        items = _user_table(rng, ns, conflicts=i % 4 >= 2)
        while not items:
            items = _user_table(rng, ns, conflicts=i % 4 >= 2)
        edits = []
        present = [k for k, _ in items]
        for k in rng.sample(present, rng.randint(1, max(1, len(present) // 2))):
            edits.append([k, -1] if rng.random() < 0.5 else [k, rng.randrange(9)])         # delete / change image
        for _ in range(rng.randint(1, 6)):
            edits.append([[rng.randrange(ns) for _ in range(5)], rng.randrange(9)])        # new keys
        rng.shuffle(edits)
        yield {'kind': 'user/alias/%s' % ('rotations' if add_rot else 'plain'), 'op': 'alias', 'items': items,
               'add_rot': add_rot, 'ns': ns, 'edits': edits, 'clear': i % 10 == 9, 'masked': i % 5 == 0}
    # ---- user tables over arbitrary integers, explicit blocks (present keys, their turns, absent keys)
    nq = 150 if tier == 'quick' else 1500
    pool = [-7, -1, 0, 1, 2, 3, 8, 9, 15, 16, 17, 255, 256, 2 ** 31 - 1, 2 ** 40 + 1]
    for i in range(nq):
        n = rng.randint(0, 12)
        d = {}
        for _ in range(n):
            k = tuple(rng.choice(pool) for _ in range(5))
            d[k] = rng.choice(pool)
            if rng.random() < 0.4:
                d[rng.choice(_rot_class(k))] = rng.choice(pool)
        items = [[list(k), v] for k, v in d.items()]
        qs = []
        for _ in range(8):
            if d and rng.random() < 0.7:
                k = rng.choice(_rot_class(rng.choice(list(d))))
            else:
                k = tuple(rng.choice(pool) for _ in range(5))
            c, t, r, b, l = k
            qs.append([[rng.choice(pool), t, rng.choice(pool)], [l, c, r], [rng.choice(pool), b, rng.choice(pool)]])
        yield {'kind': 'user/wide-states', 'op': 'userq', 'items': items, 'add_rot': i % 2 == 0, 'queries': qs}


def shrink(c):
    op = c['op']
    if op == 'stream':
        # locate the first differing key of the chunk and hand it over as a single block
        obs = run_impl(c)
        if obs[0] != 'ok':
            return
        out, _ = driver.coq_eval(COQ_IMPORTS, 'model_out %s' % to_coq(c, obs))
        m = re.search(r'=\s*\[(.*?)\]', out or '', re.S)
        if not m:
            return
        model = [int(x) for x in re.findall(r'-?\d+', m.group(1))]
        for i, (a, b) in enumerate(zip(obs[1], model)):
            if a != b:
                r, b_, l = i // 81, (i // 9) % 9, i % 9
                yield {'kind': 'block/' + c['loop'], 'op': 'block', 'loop': c['loop'], 'masked': c['masked'],
                       'n': [[0, c['t'], 0], [l, c['c'], r], [0, b_, 0]]}
                return
    if op == 'user':
        items = c['items']
        for i in range(len(items)):
            yield dict(c, items=items[:i] + items[i + 1:])
        if c['ns'] > 1:
            yield dict(c, ns=c['ns'] - 1)
    if op == 'dsample' and len(c['keys']) > 1:
        h = len(c['keys']) // 2
        yield dict(c, keys=c['keys'][:h])
        yield dict(c, keys=c['keys'][h:])
    if op == 'alias':
        if c.get('clear'):
            yield dict(c, clear=False)
        for i in range(len(c['edits'])):
            yield dict(c, edits=c['edits'][:i] + c['edits'][i + 1:])
        items = c['items']
        for i in range(len(items)):
            yield dict(c, items=items[:i] + items[i + 1:])
    if op == 'absentx':
        if len(c['queries']) > 1:
            for i in range(len(c['queries'])):
                yield dict(c, queries=[c['queries'][i]])
        items = c['items']
        if len(items) > 1:
            for i in range(len(items)):
                yield dict(c, items=items[:i] + items[i + 1:])
    if op == 'absentgrid':
        g = c['g']
        if len(g) > 1:
            yield dict(c, g=g[:-1])
        if len(g[0]) > 1:
            yield dict(c, g=[row[:-1] for row in g])
    if op == 'userx':
        if len(c['queries']) > 1:
            for i in range(len(c['queries'])):
                yield dict(c, queries=[c['queries'][i]])
        items = c['items']
        for i in range(len(items)):
            yield dict(c, items=items[:i] + items[i + 1:])
    if op == 'usergrid':
        g = c['g']
        if len(g) > 1:
            yield dict(c, g=g[:-1])
        if len(g[0]) > 1:
            yield dict(c, g=[row[:-1] for row in g])
    if op == 'userq':
        if len(c['queries']) > 1:
            for i in range(len(c['queries'])):
                yield dict(c, queries=[c['queries'][i]])
        items = c['items']
        for i in range(len(items)):
            yield dict(c, items=items[:i] + items[i + 1:])
    if op == 'grid':
        g = c['g']
        if len(g) > 1:
            yield dict(c, g=g[:-1])
        if len(g[0]) > 1:
            yield dict(c, g=[row[:-1] for row in g])
        if c.get('memoize'):
            yield dict(c, memoize=False)


# ------------------------------------------------------------------ the property's own oracle, in Python
def _spec_default(variant, c, t, r, b, l):
    """Sayama's default rules, transcribed from the property text (priority: 8->0; next to an 8; tube rules; rest)."""
    trbl = (t, r, b, l)
    if c == 8:
        return 0
    if 8 in trbl:
        if c in (0, 1):
            return 8 if any(2 <= s <= 7 for s in trbl) else c
        return 0 if c in (2, 3, 5) else 1
    if variant == 'sdsr':
        tube = sum(1 for s in trbl if s in (1, 2, 4, 6, 7)) >= 2
        if c == 0:
            return 1 if tube and 1 in trbl else 0
        if c == 1 and tube:
            for s in (7, 6, 4):
                if s in trbl:
                    return s
        if c in (4, 6, 7) and tube and 0 in trbl:
            return 0
        if c == 2:
            if 3 in trbl:
                return 1
            if 2 in trbl:
                return 2
    return 0 if c == 0 else 8


def _python_oracle():
    """complete sweep in Python: orientation, totality/range, defaults. Returns findings (first failing key per loop)."""
    findings = []
    objs = _objs()
    for loop in LOOPS:
        rule = objs[loop]
        dom = 8 if loop == 'langton' else 9
        n, data = _mk_block(False)
        ans = {}
        for c in range(dom):
            for t in range(dom):
                for r in range(dom):
                    for b in range(dom):
                        for l in range(dom):
                            k = (c, t, r, b, l)
                            _fill(data, k, 0)
                            ans[k] = _code(rule, n, (1, 1), 1)
        tbl = rule.rule_table
        bad = None
        for k, a in ans.items():
            if ans[rot(k)] != a:
                bad = (k, 'orientation: %r answers %s but its quarter-turn %r answers %s' % (k, _show(a), rot(k), _show(ans[rot(k)])),
                       'C15_%s_orientation_free' % loop)
                break
            if loop != 'langton':
                if k[0] == 8 and a != 0:
                    bad = (k, '8 always becomes 0: %r answers %s' % (k, _show(a)), 'C15_eight_always_zero')
                    break
                if a > 8:
                    bad = (k, 'totality/range: %r answers %s' % (k, _show(a)), 'C15_%s_total_range' % loop)
                    break
                if k not in tbl and a != _spec_default(loop, *k):
                    bad = (k, 'default rules: %r is outside the table and answers %s, Sayama\'s rule gives %d'
                           % (k, _show(a), _spec_default(loop, *k)), 'C15_%s_defaults' % loop)
                    break
        if bad:
            findings.append(_witness_finding(loop, bad[0], bad[2], 'python oracle: ' + bad[1]))
    return findings


def _show(code):
    return {9: 'ValueError', 10: 'None', 11: 'another exception', 12: 'a value outside 0..8'}.get(code, str(code))


# ------------------------------------------------------------------ fail-closed AST gate for the constructor path
# CTRBLRule.__call__ is under the translator (C15_source_tie). The constructor path (__init__, _init_rule_table, the
# rule_table property) uses idioms outside the translator's subset (a dict built in a loop over .items(), list
# pop/insert), so it is tied to Model/CTRBL.v (`init_rule_table`, `add_entry`, `rot`) by (a) the data-level theorem
# C15_builtin_tables_are_closures, (b) the user-table correspondence, and (c) this gate: the AST of the three
# definitions, with local names alpha-renamed, must be one of the shapes below, each of which was checked against the
# model. Any other shape is an alarm: a 10x search for a disagreeing user table is run; if it finds none the alarm is
# still raised, with ' no-failing-input-found'.
import ast as _ast

GATE_SHAPES = {
    '__init__': ['''
def __init__(self, rule_table, add_rotations=False):
    self._rule_table = self._init_rule_table(rule_table, add_rotations)
'''],
    'rule_table': ['''
def rule_table(self):
    return self._rule_table
'''],
    '_init_rule_table': ['''
def _init_rule_table(rule_table, add_rotations):
    new_rule_table = {}
    for rule, image in rule_table.items():
        new_rule_table[rule] = image
        if add_rotations:
            r = list(rule)
            for _ in range(3):
                r.insert(1, r.pop(4))
                new_rule_table[tuple(r)] = image
    return new_rule_table
''', '''
def _init_rule_table(rule_table, add_rotations):
    new_rule_table = {}
    for rule, image in rule_table.items():
        new_rule_table[rule] = image
        if add_rotations:
            c, t, r, b, l = rule
            for turned in ((c, l, t, r, b), (c, b, l, t, r), (c, r, b, l, t)):
                new_rule_table[turned] = image
    return new_rule_table
'''],
}
_KEEP_NAMES = {'list', 'tuple', 'range', 'dict', 'self', 'True', 'False', 'None'}


def _shape(fn):
    """args (with defaults) + body without the docstring, local names renamed in order of first appearance"""
    body = list(fn.body)
    if body and isinstance(body[0], _ast.Expr) and isinstance(getattr(body[0], 'value', None), _ast.Constant) \
            and isinstance(body[0].value.value, str):
        body = body[1:]
    mod = _ast.Module(body=[_ast.FunctionDef(name='f', args=fn.args, body=body or [_ast.Pass()], decorator_list=[],
                                             returns=None, type_comment=None)], type_ignores=[])
    names = {}

    def ren(x):
        if x in _KEEP_NAMES:
            return x
        return names.setdefault(x, 'v%d' % len(names))
    # NodeTransformer visits fields in source order (args, then body): the renaming is deterministic
    class R(_ast.NodeTransformer):
        def visit_arg(self, node):
            return _ast.arg(arg=ren(node.arg), annotation=None)

        def visit_Name(self, node):
            return _ast.Name(id=ren(node.id), ctx=node.ctx)
    import copy
    mod = R().visit(copy.deepcopy(mod))
    return _ast.dump(mod, annotate_fields=False)


_SAFE_BUILTINS = {'list', 'tuple', 'dict', 'range', 'len', 'enumerate', 'zip', 'reversed', 'sorted', 'iter', 'next',
                  'bool', 'int', 'set', 'frozenset', 'map', 'filter', 'any', 'all', 'sum', 'min', 'max', 'isinstance',
                  'True', 'False', 'None'}
_PARAM_READONLY_ATTRS = {'items', 'keys', 'values', 'get', 'copy'}
_FORBIDDEN_NODES = (_ast.Global, _ast.Nonlocal, _ast.FunctionDef, _ast.AsyncFunctionDef, _ast.Lambda, _ast.ClassDef,
                    _ast.Import, _ast.ImportFrom, _ast.Delete, _ast.With, _ast.AsyncWith, _ast.Try, _ast.Yield,
                    _ast.YieldFrom, _ast.Await, _ast.NamedExpr, _ast.While)


def _purity(fn):
    """AST condition (ii): the function only reads its parameters, assigns local names and writes into containers it
    created itself. Returns a list of objections (empty = pure as far as the AST can tell)."""
    bad = []
    a = fn.args
    params = [x.arg for x in a.posonlyargs + a.args + a.kwonlyargs]
    if a.vararg or a.kwarg:
        bad.append('*args / **kwargs')
    for d in list(a.defaults) + [d for d in a.kw_defaults if d is not None]:
        if not isinstance(d, _ast.Constant):
            bad.append('default argument that is not a constant')
    for dec in fn.decorator_list:
        if not (isinstance(dec, _ast.Name) and dec.id == 'staticmethod'):
            bad.append('decorator other than staticmethod')
    body_nodes = [n for st in fn.body for n in _ast.walk(st)]
    for n in body_nodes:
        if isinstance(n, _FORBIDDEN_NODES):
            bad.append('statement/expression kind %s' % type(n).__name__)
    local_names = set()

    def targets(t, store):
        if isinstance(t, _ast.Name):
            store.add(t.id)
        elif isinstance(t, (_ast.Tuple, _ast.List)):
            for e in t.elts:
                targets(e, store)
        elif isinstance(t, _ast.Starred):
            targets(t.value, store)
    for n in body_nodes:
        if isinstance(n, _ast.Assign):
            for t in n.targets:
                targets(t, local_names)
        elif isinstance(n, (_ast.AugAssign, _ast.AnnAssign, _ast.For)):
            targets(n.target, local_names)
        elif isinstance(n, _ast.comprehension):
            targets(n.target, local_names)
    own = local_names - set(params)          # names that can only hold objects made inside the function ... or aliases

    def check_target(t):
        if isinstance(t, _ast.Name):
            if t.id in params:
                bad.append('parameter %s is re-bound' % t.id)
        elif isinstance(t, (_ast.Tuple, _ast.List)):
            for e in t.elts:
                check_target(e)
        elif isinstance(t, _ast.Starred):
            check_target(t.value)
        elif isinstance(t, _ast.Subscript):
            if not (isinstance(t.value, _ast.Name) and t.value.id in own):
                bad.append('item assignment into something that is not a local container: %s' % _ast.unparse(t))
        else:
            bad.append('assignment target %s' % _ast.unparse(t))
    for n in body_nodes:
        if isinstance(n, _ast.Assign):
            for t in n.targets:
                check_target(t)
        elif isinstance(n, (_ast.AugAssign, _ast.AnnAssign, _ast.For)):
            check_target(n.target)
        elif isinstance(n, _ast.comprehension):
            check_target(n.target)
        elif isinstance(n, _ast.Name) and isinstance(n.ctx, _ast.Load):
            if n.id not in params and n.id not in local_names and n.id not in _SAFE_BUILTINS:
                bad.append('reads the non-local name %s' % n.id)
        elif isinstance(n, _ast.Attribute):
            if n.attr.startswith('_'):
                bad.append('attribute %s' % n.attr)
            if isinstance(n.value, _ast.Name) and n.value.id in params and n.attr not in _PARAM_READONLY_ATTRS:
                bad.append('calls/reads .%s on the parameter %s' % (n.attr, n.value.id))
    return sorted(set(bad))


def _small_domain():
    """COMPLETE small domain of user tables (as ordered item lists):
       - the empty table;
       - marker keys: five pairwise distinct symbols pin every rotation down as a permutation of positions
         (all 120 arrangements of 10..14, and one with non-int hashables);
       - over 2 states: ALL tables with one, two and three distinct keys in every order (32 + 992 + 29760), images
         1,2,3 pairwise different, so that every overwrite between explicit entries and rotations (last wins) shows;
       - over 3 states: all 243 single-entry tables and all ordered pairs within one rotation class."""
    import itertools
    yield []
    for perm in itertools.permutations((10, 11, 12, 13, 14)):
        yield [(perm, 7)]
    yield [(('c', 't', 'r', 'b', 'l'), 'image')]
    keys2 = list(itertools.product((0, 1), repeat=5))
    for k in keys2:
        yield [(k, 1)]
    for a, b in itertools.permutations(keys2, 2):
        yield [(a, 1), (b, 2)]
    for a, b, c in itertools.permutations(keys2, 3):
        yield [(a, 1), (b, 2), (c, 3)]
    for k in itertools.product((0, 1, 2), repeat=5):
        yield [(k, 4)]
        cls = []
        for q in _rot_class(k):
            if q not in cls:
                cls.append(q)
        for a, b in itertools.permutations(cls, 2):
            yield [(a, 5), (b, 6)]


def _semantic_gate(fn_node):
    """conditions (i)-(iii) for an `_init_rule_table` of unknown shape; returns {'accepted': bool, ...}"""
    import copy
    import inspect
    import cellpylib as cpl
    out = {'accepted': False}
    objections = _purity(fn_node)
    out['purity (AST)'] = objections or 'only parameters read, only locals and own containers written'
    if objections:
        return out
    try:
        static = inspect.getattr_static(cpl.CTRBLRule, '_init_rule_table')
    except AttributeError:
        out['callable'] = 'CTRBLRule._init_rule_table not found at run time'
        return out
    if not isinstance(static, staticmethod):
        out['callable'] = 'not a staticmethod'
        return out
    f = cpl.CTRBLRule._init_rule_table
    # (i) complete small domain, every flag value by truthiness
    n = 0
    for items in _small_domain():
        for flag in (False, True):
            d = dict(items)
            keep = copy.deepcopy(d)
            try:
                got = f(d, flag)
            except Exception as e:  # noqa
                out['small domain'] = 'raises %s on %r, add_rotations=%r' % (type(e).__name__, items, flag)
                return out
            n += 1
            want = _ref_init(keep, flag)
            if type(got) is not dict or got != want:
                out['small domain'] = 'differs from the property on %r, add_rotations=%r: %r' % (items, flag, got)
                return out
            # (iii) no aliasing, argument untouched
            if got is d:
                out['aliasing'] = 'returns its argument (add_rotations=%r)' % flag
                return out
            if d != keep or list(d) != list(keep):
                out['aliasing'] = 'modifies its argument on %r' % (items,)
                return out
            if n % 97 == 0 or len(items) <= 1:
                d[(9, 9, 9, 9, 9)] = 9
                for k in list(keep)[:1]:
                    del d[k]
                if got != want:
                    out['aliasing'] = 'result changes when the argument is edited afterwards (%r, add_rotations=%r)' % (items, flag)
                    return out
                again = f(dict(keep), flag)
                if again is got:
                    out['aliasing'] = 'two calls return the same object'
                    return out
                got[(8, 8, 8, 8, 8)] = 8
                if f(dict(keep), flag) != want:
                    out['aliasing'] = 'editing one result changes later results (shared state)'
                    return out
    for flag, truth in ((0, False), (1, True), (None, False), ('yes', True), ([], False)):
        d = {(10, 11, 12, 13, 14): 7}
        if f(d, flag) != _ref_init(d, truth):
            out['small domain'] = 'add_rotations=%r is not read by truthiness' % (flag,)
            return out
    out['small domain'] = '%d calls (all tables of <= 3 keys over 2 states in every order, marker keys, 3-state classes), ' \
                          'both flags: equal to the property; result never the argument, argument never modified' % n
    out['accepted'] = True
    return out


def _ast_gate():
    """returns (ok, details) for the constructor path of cellpylib/ctrbl_rule.py in the tree under test"""
    path = os.path.join(driver.REPO, 'cellpylib', 'ctrbl_rule.py')
    details = {}
    try:
        tree = _ast.parse(open(path).read())
    except Exception as e:  # noqa
        return False, {'error': 'cannot parse %s: %s' % (path, type(e).__name__)}
    cls = next((n for n in _ast.walk(tree) if isinstance(n, _ast.ClassDef) and n.name == 'CTRBLRule'), None)
    if cls is None:
        return False, {'error': 'class CTRBLRule not found in ' + path}
    ok = True
    for name, shapes in GATE_SHAPES.items():
        fns = [n for n in cls.body if isinstance(n, _ast.FunctionDef) and n.name == name]
        allowed = {_shape(_ast.parse(src).body[0]) for src in shapes}
        if len(fns) != 1 or _shape(fns[0]) not in allowed:
            sem = None
            if name == '_init_rule_table' and len(fns) == 1:
                # not a known shape: accept it only on mechanical grounds (purity by AST, complete small-domain
                # comparison with the property, run-time no-alias checks); otherwise keep failing closed
                sem = _semantic_gate(fns[0])
                details[name + ' (semantic gate)'] = sem
            if sem is not None and sem.get('accepted'):
                details[name] = 'unknown shape, accepted by the semantic gate'
            else:
                ok = False
                details[name] = 'not one of the %d accepted shapes' % len(shapes) if fns else 'not found'
            if fns:
                details[name + ' (source)'] = _ast.unparse(fns[0])[:1500]
        else:
            details[name] = 'accepted shape'
    # an overriding constructor path in a subclass-free file only: other definitions touching _rule_table
    others = [n.name for n in cls.body if isinstance(n, _ast.FunctionDef) and n.name not in GATE_SHAPES
              and n.name != '__call__' and '_rule_table' in _ast.unparse(n)]
    if others:
        ok = False
        details['other methods touching _rule_table'] = others
    return ok, details


def _ref_init(d, add_rot):
    """the property, on a dict: every key (and with add_rotations its three turns) gets its image, later wins"""
    out = {}
    for k, v in d.items():
        out[k] = v
        if add_rot:
            kk = k
            for _ in range(3):
                kk = rot(kk)
                out[kk] = v
    return out


def _gate_search(seed, budget=5000):
    """look for a user table on which the real constructor path departs from the property; returns a case or None"""
    import random
    import cellpylib as cpl
    rng = random.Random(seed + 15)
    for i in range(budget):
        ns = rng.choice([2, 2, 3, 3, 4])
        items = _user_table(rng, ns, conflicts=i % 2 == 1)
        for add_rot in (False, True):
            d = {tuple(k): v for k, v in items}
            want = _ref_init(d, add_rot)
            try:
                rule = cpl.CTRBLRule(d, add_rot) if i % 2 else cpl.CTRBLRule(d, add_rotations=add_rot)
                got = dict(rule.rule_table)
            except Exception:  # noqa
                got = None
            if got != want:
                return {'kind': 'user/gate-search', 'op': 'user', 'items': items, 'add_rot': add_rot, 'ns': ns,
                        'masked': False}
            # edit the caller's dict afterwards
            edits = [[list(k), -1] for k in list(d)[:max(1, len(d) // 2)]] + [[[rng.randrange(ns) for _ in range(5)], 5]]
            for k, v in edits:
                if v < 0:
                    d.pop(tuple(k), None)
                else:
                    d[tuple(k)] = v
            if dict(rule.rule_table) != want:
                return {'kind': 'user/alias/gate-search', 'op': 'alias', 'items': items, 'add_rot': add_rot, 'ns': ns,
                        'edits': edits, 'clear': False, 'masked': False}
        # default value of add_rotations
        d = {tuple(k): v for k, v in items}
        try:
            if dict(cpl.CTRBLRule(d).rule_table) != _ref_init(d, False):
                return {'kind': 'user/gate-search', 'op': 'user', 'items': items, 'add_rot': False, 'ns': ns,
                        'masked': False, 'default_flag': True}
        except Exception:  # noqa
            pass
    return None


def _gate_findings(ctx):
    ok, details = _ast_gate()
    if ok:
        sem = any('semantic gate' in str(v) for v in details.values())
        return [{'info': True, 'what': 'AST gate: constructor path of CTRBLRule ' +
                 ('accepted by the semantic gate (unknown shape of _init_rule_table; purity + complete small domain + '
                  'no-alias run-time checks)' if sem else 'has an accepted shape'), 'details': details}]
    case = _gate_search(ctx.seed)
    base = {'what': 'AST gate: the constructor path of CTRBLRule (__init__ / _init_rule_table / rule_table) is not one '
                    'of the shapes that were checked against Model/CTRBL.v init_rule_table',
            'theorem': 'gate:C15/_init_rule_table (ties C15_rotations_closed, _last_wins, _image, _absent, '
                       '_no_rotations_identity to the code)', 'details': details}
    if case is not None:
        obs = run_impl(case)
        term = to_coq(case, obs)
        out, _ = driver.coq_eval(COQ_IMPORTS, 'check_case %s' % term)
        if out is not None and re.search(r'=\s*false', out):
            return [dict(base, what=base['what'] + '; the search found a user table on which the real constructor and '
                                    'the model disagree', case=case, impl_observation=obs, coq_case_term=term, suffix='')]
    return [dict(base, what=base['what'] + '; a search over %d random user tables (both flags, with edits of the '
                            'caller\'s dict afterwards) found no disagreeing input' % 5000, case={},
                 suffix=' no-failing-input-found')]


# ------------------------------------------------------------------ regenerated data, hand compilation, witness search
def _coqc(rel, timeout=900):
    return driver.coqc(rel, timeout=timeout)


def _stale():
    for rel in CHAIN:
        v = os.path.join(COQ, rel)
        vo = v + 'o'
        if not os.path.exists(vo) or os.path.getmtime(vo) < os.path.getmtime(v):
            return True
    # a dependent .vo older than the tables' .vo
    g = os.path.getmtime(os.path.join(COQ, 'gen/GenTables.vo'))
    return any(os.path.getmtime(os.path.join(COQ, rel) + 'o') < g for rel in CHAIN[1:])


def _stash_save():
    os.makedirs(STASH, exist_ok=True)
    for rel in ['gen/GenTables.v'] + [r + 'o' for r in CHAIN]:
        shutil.copy2(os.path.join(COQ, rel), os.path.join(STASH, rel.replace('/', '__')))


def _stash_current():
    try:
        return all(os.path.getmtime(os.path.join(STASH, rel.replace('/', '__'))) == os.path.getmtime(os.path.join(COQ, rel))
                   for rel in ['gen/GenTables.v'] + [r + 'o' for r in CHAIN])
    except OSError:
        return False


def _stash_restore():
    """after a run in which the table theorems failed: put the last proved tables (and their .vo files) back, so
    that the builds of the other properties are not blocked by this failure; the next C15 run regenerates anyway"""
    if not _state['restore']:
        return
    _state['restore'] = False
    rels = ['gen/GenTables.v'] + [r + 'o' for r in CHAIN]
    if not all(os.path.exists(os.path.join(STASH, r.replace('/', '__'))) for r in rels):
        return
    lk = driver._lock()
    try:
        now = time.time()
        for i, rel in enumerate(rels):
            dst = os.path.join(COQ, rel)
            shutil.copy2(os.path.join(STASH, rel.replace('/', '__')), dst)
            os.utime(dst, (now + i * 0.01, now + i * 0.01))
    finally:
        lk.close()


WITNESS_THEOREMS = [
    # (number, theorem of Properties/C15.v, loop, Coq term : option key)
    (1, 'C15_builtin_tables_are_closures', 'langton',
     'tdiff (loop_new langton_literal langton_add_rotations) langton_table'),
    (2, 'C15_builtin_tables_are_closures', 'sdsr',
     'tdiff (sdsr_new sdsr_base_literal sdsr_base_add_rotations sdsr_extra) sdsr_table'),
    (3, 'C15_builtin_tables_are_closures', 'evoloop',
     'tdiff (loop_new evoloop_literal evoloop_add_rotations) evoloop_table'),
    (4, 'C15_langton_orientation_free', 'langton', 'find5 (states 8) (fun k => negb (ok_orient (fast_ctrbl lm) k))'),
    (5, 'C15_loops_orientation_free_all_states', 'langton', 'tturn langton_table (fun _ => None)'),
    (6, 'C15_sdsr_total_range', 'sdsr', 'find5 (states 9) (fun k => negb (ok_range (fast_sdsr sm) k))'),
    (7, 'C15_sdsr_orientation_free', 'sdsr', 'find5 (states 9) (fun k => negb (ok_orient (fast_sdsr sm) k))'),
    (8, 'C15_loops_orientation_free_all_states', 'sdsr', "tturn sdsr_table (fun k => let '(c, t, r, b, l) := k in sdsr_default c t r b l)"),
    (9, 'C15_sdsr_defaults', 'sdsr',
     'find5 (states 9) (fun k => negb (ok_default sm (fast_sdsr sm) sayama_sdsr k))'),
    (10, 'C15_evoloop_total_range', 'evoloop', 'find5 (states 9) (fun k => negb (ok_range (fast_evoloop em) k))'),
    (11, 'C15_evoloop_orientation_free', 'evoloop', 'find5 (states 9) (fun k => negb (ok_orient (fast_evoloop em) k))'),
    (12, 'C15_loops_orientation_free_all_states', 'evoloop', "tturn evoloop_table (fun k => let '(c, t, r, b, l) := k in evoloop_default c t r b l)"),
    (13, 'C15_evoloop_defaults', 'evoloop',
     'find5 (states 9) (fun k => negb (ok_default em (fast_evoloop em) sayama_evoloop k))'),
    (14, 'C15_eight_always_zero', 'sdsr', 'find5 (states 9) (fun k => negb (ok_eight (fast_sdsr sm) k))'),
    (15, 'C15_eight_always_zero', 'evoloop', 'find5 (states 9) (fun k => negb (ok_eight (fast_evoloop em) k))'),
]

WITNESS_HEADER = '''(* GENERATED by harness/props/c15.py: witness search for the finite theorems of GenProps/C15Tables.v.
   Uses the same boolean checkers; does not depend on the failed theorems. *)
From CPL Require Import Model.Base Model.CTRBL Model.Loops Model.SayamaSpec gen.GenTables.
From CPL Require Import Proofs.CTRBLProofs Proofs.CTRBLClauses.   (* table-independent; ok_eight *)
Open Scope Z_scope.
Definition lm := compile langton_table.
Definition sm := compile sdsr_table.
Definition em := compile evoloop_table.
(* first listed key on which two tables differ *)
Definition tdiff (a b : table) : option key :=
  option_map fst (find (fun e => negb (opt_eqb (dict_get (fst e) a) (dict_get (fst e) b))) (a ++ b)).
(* first listed key on which the rule (table entry, else default d) does not answer like on its quarter-turn *)
Definition tturn (t : table) (d : key -> option Z) : option key :=
  let call k := match dict_get k t with Some v => Some v | None => d k end in
  option_map fst (find (fun e => negb (opt_eqb (call (rot (fst e))) (call (fst e)))) t).
'''


def _witness_search():
    """returns {number: key tuple or None} or None when the search itself failed"""
    path = os.path.join(GEN, 'C15Witness_%d.v' % os.getpid())
    body = '; '.join('(%d%%nat, %s)' % (n, term) for n, _, _, term in WITNESS_THEOREMS)
    open(path, 'w').write(WITNESS_HEADER + 'Eval vm_compute in [%s].\n' % body)
    rc, out, err = driver.coqc(path, out_vo=path + 'o', timeout=600)
    for p in (path, path + 'o', path[:-2] + '.glob', path[:-2] + '.vok', path[:-2] + '.vos'):
        try:
            os.remove(p)
        except OSError:
            pass
    if rc != 0:
        return None, (err or out)[-1500:]
    res = {}
    flat = ' '.join(out.split())
    for m in re.finditer(r'\((\d+)%nat, (None|Some \(([-\d, ]+)\))\)', flat):
        res[int(m.group(1))] = None if m.group(2) == 'None' else tuple(int(x) for x in m.group(3).split(','))
    return res, ''


def _witness_finding(loop, key, theorem, what):
    case = {'kind': 'witness/' + theorem, 'op': 'witness', 'loop': loop, 'key': [int(x) for x in key],
            'theorem': theorem}
    obs = run_impl(case)
    term = to_coq(case, obs)
    out, err = driver.coq_eval(COQ_IMPORTS, 'check_case %s' % term)
    confirmed = out is not None and re.search(r'=\s*false', out) is not None
    turns = _rot_class(tuple(key))
    return {
        'what': what,
        'theorem': theorem, 'case': case,
        'impl_observation': {'keys (C,T,R,B,L), successive quarter-turns': [list(k) for k in turns],
                             'answers of the real __call__': [_show(a) for a in obs[1]]},
        'property_fails_on_implementation': confirmed,
        'coq_case_term': term,
        'suffix': '' if confirmed else ' no-failing-input-found',
    }


def pre(ctx):
    from harness import gen_tables
    lk = driver._lock()
    try:
        had_good = (os.path.exists(os.path.join(COQ, 'gen/GenTables.v')) and
                    all(os.path.exists(os.path.join(COQ, r) + 'o') for r in CHAIN) and not _stale())
        if had_good and not _stash_current():
            _stash_save()
        status = gen_tables.main(quiet=True)
        _state['status'] = status
        if not (status['changed'] or _stale()):
            return
        failed_at = None
        for rel in CHAIN:
            rc, out, err = _coqc(rel)
            if rc != 0:
                failed_at = rel
                _state['coqc_err'] = (err or out)[-2500:]
                break
        if failed_at is None:
            _stash_save()
            return
        _state['failed'] = failed_at
        # keep going past the theorems file so that the correspondence still has its .vo (Corr comes first in CHAIN)
        if failed_at in ('GenProps/C15Tables.v', 'Properties/C15.v'):
            res, werr = _witness_search()
            _state['witness'] = (res, werr)
            if os.path.isdir(STASH):
                _state['restore'] = True
                atexit.register(_stash_restore)
    finally:
        lk.close()


def extra_checks(ctx):
    findings = []
    st = _state['status'] or {}
    findings.append({'info': True, 'what': 'regenerated tables', 'sizes': st.get('sizes'), 'digests': st.get('digests'),
                     'ast_crosscheck': st.get('crosscheck'), 'notes': st.get('notes'), 'rewritten': st.get('changed')})
    seen = set()
    if _state['failed']:
        res, werr = _state['witness'] or (None, 'no witness search for a failure in ' + str(_state['failed']))
        found = []
        if res:
            for n, thm, loop, _ in WITNESS_THEOREMS:
                if res.get(n) is not None:
                    found.append((thm, loop, res[n]))
        for thm, loop, key in found:
            if (loop, key) in seen:
                continue
            seen.add((loop, key))
            f = _witness_finding(loop, key, thm,
                                 'theorem %s no longer holds on the regenerated tables (coqc of %s fails); witness key '
                                 '%r found by the finite search' % (thm, _state['failed'], tuple(key)))
            f['all_failing_theorems'] = sorted({t for t, _, _ in found})
            findings.append(f)
        if not found:
            findings.append({
                'what': 'the theorems of %s no longer compile against the regenerated tables and the witness search '
                        'found no key' % _state['failed'],
                'theorem': 'GenProps/C15Tables.v / Properties/C15.v', 'case': {},
                'coqc_stderr': _state['coqc_err'], 'witness_search_error': werr,
                'suffix': ' no-failing-input-found'})
        # confirmed findings first, at most three
        real = [f for f in findings if not f.get('info')]
        real.sort(key=lambda f: f.get('suffix', '') != '')
        findings = [f for f in findings if f.get('info')] + real[:3]
    # fail-closed AST gate for the constructor path (not under the translator)
    findings.extend(_gate_findings(ctx))
    # the property's own oracle, evaluated in Python on the implementation alone
    for f in _python_oracle():
        k = (f['case']['loop'], tuple(f['case']['key']))
        if k not in seen and len([g for g in findings if not g.get('info')]) < 3:
            seen.add(k)
            findings.append(f)
    if ctx.tier == 'thorough' and not _state['failed']:
        import subprocess
        t0 = time.time()
        r = subprocess.run('ulimit -s unlimited 2>/dev/null; timeout 1500 coqchk -silent -o -Q %s CPL CPL.Properties.C15' % COQ,
                           shell=True, capture_output=True, text=True, cwd=COQ)
        tail = ' '.join((r.stdout + r.stderr).split())[-600:]
        if r.returncode != 0:
            findings.append({'what': 'coqchk rejects Properties/C15.vo: ' + tail, 'case': {},
                             'theorem': 'Properties/C15.vo', 'suffix': ' no-failing-input-found'})
        else:
            findings.append({'info': True, 'what': 'coqchk -o CPL.Properties.C15 accepted in %.0f s' % (time.time() - t0),
                             'output': tail})
    _stash_restore()
    return findings


# ------------------------------------------------------------------ source tie (appended; harness/translate.py)
# Order: (1) regenerate coq/gen/GenFuns.v from the Python source and re-prove GenProps/GenFunsEquivC15.v (neither
# depends on the tables); (2) the table chain above, which now passes through GenProps/C15Src.v (it imports the
# table theorems) before Properties/C15.v; (3) whatever of GenProps/C15Src.v, Properties/C15.v is still stale.
from harness import translate as _translate
CHAIN[CHAIN.index('Properties/C15.v'):CHAIN.index('Properties/C15.v')] = ['GenProps/C15Src.v']
_tables_pre = pre
_tables_extra_checks = extra_checks
TRUSTED = list(TRUSTED) + [_translate.TRUSTED_NOTE]
NOTES = list(NOTES) + [
    'coq/gen/GenFuns.v is regenerated from the Python source at the start of every run; theorem C15_source_tie proves '
    'the regenerated definitions equal to the hand-written model for all inputs']


def pre(ctx):
    _translate.pre_hook(ctx, 'C15', upto=2)
    if not _translate._state['C15']['failed']:
        _tables_pre(ctx)
        if not _state['failed']:
            _translate.pre_hook(ctx, 'C15')
    else:
        # the equivalence proof failed: C15Src.v / Properties/C15.v cannot compile; the table chain is still
        # brought up to date as far as the correspondence needs it (gen/GenTables.v, Corr/C15.v)
        _tables_pre(ctx)


def extra_checks(ctx):
    tie = _translate._state.get('C15') or {}
    if tie.get('failed') and _state['failed'] in ('GenProps/C15Src.v', 'Properties/C15.v') and not (
            _state['witness'] and _state['witness'][0] and any(v is not None for v in _state['witness'][0].values())):
        # the table chain stopped only because the source tie does not compile: that failure is reported below
        _state['failed'] = False
    return list(_tables_extra_checks(ctx)) + _translate.extra_hook(ctx, 'C15')
