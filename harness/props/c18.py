"""C18 — BiEntropy family: correspondence generators and runners.

Derivatives (exact): every binary string of length 0..10, both derivatives, compared digit by digit with the
model's loops; plus random longer strings.
Values (bien / tbien / ktbien): every binary string of length 2..10 (2044 strings x 3 functions) and random /
structured strings of length 11..300 (bien: a 11..64 bucket and a 65..300 bucket with fixed lengths\n65, 66, 100, 128, 129, 200, 300; tbien, ktbien: 11..300).  The returned double is transported exactly
(float.hex() -> integer mantissa and exponent) and must lie within 2^-30 of the verified interval enclosure of the
model's real value.  In run_impl the metamorphic partners (complement, reverse, rotations) are also evaluated on the
implementation; oracle() checks them with tolerance 1e-12, checks 0.0 <= v <= 1.0 on every double (a test), and compares
every value with reference(): Croll's weighted mean over all n-1 derivatives computed independently (tolerance 1e-9).
"""
from harness.driver import call_impl, cz, cbool, clist, czlist, cres

ID = 'C18'
COQ_IMPORTS = ('From CPL Require Import Model.Base Model.BienExact Model.Bien Corr.C18.\n'
               'Open Scope Z_scope.')
NONTRIVIAL_RULE = ('derivative case: the string has at least 2 digits; value case: the call returned a double strictly '
                   'between 0 and 1 (neither end of the range); distinct = distinct case dicts')
EXHAUSTIVE = {'quick': True, 'thorough': True}
NOTES = ['both tiers: binary_derivative and cyclic_binary_derivative on ALL 2047 binary strings of length 0..10 (exact); '
         'bien, tbien, ktbien on ALL 2044 binary strings of length 2..10 (through the enclosure)',
         'the thorough tier is also complete for lengths 11 and 12 (6144 more strings, all five functions)',
         'long strings (lengths 1024, 1025, 1026, 1027, 1500, 2048; random, alternating, all-zero-but-one, periodic): 5 cases in the quick tier, '
         '57 in the thorough tier, for tbien and ktbien at every length and for bien up to 1025, the longest string on which the code returns '
         '(OverflowError from 1026); enclosure at 64 bits (width < 2^-50), tolerance 2^-30 as everywhere; '
         'periodic strings of period 2, 4, 8 and length 11..64 for all three functions',
         'beyond that sampled: lengths 11..300 for bien (incl. 65, 66, 100, 128, 129, 200, 300: weights 2^k beyond a machine word), tbien, ktbien and the derivatives (uniform, sparse, '
         'periodic, constant, alternating strings); the thorough tier takes 16 times more of them',
         'the [0,1] bound and the invariances are theorems about the real-valued definitions; every double is shown to be '
         'within 2^-30 of that real; additionally 0.0 <= v <= 1.0 and the partner equalities (1e-12) are TESTED on every '
         'double seen']
ASSUMPTIONS = ['inputs are str objects over the alphabet {0,1}; length >= 2 for bien/tbien/ktbien (below that the code divides by zero)',
               'bien: n <= 1025 in the correspondence (the code overflows beyond; documented range <= 32)',
               'the comparison of doubles is by enclosure with tolerance 2^-30, not bit for bit']
TRUSTED = ['float.hex() parsing in harness/props/c18.py (double -> integer mantissa, exponent)',
           'Interval 4.6.1 (verified interval arithmetic, FloatIntervalFull over pure-Z radix-2 floats) and Flocq 4.1.0']

FNS = ('bien', 'tbien', 'ktbien')
COQ_FN = {'bien': 'FBien', 'tbien': 'FTbien', 'ktbien': 'FKtbien'}


# ---------------------------------------------------------------- helpers
def hex_to_me(h):
    """'0x1.8p-1' -> (m, e) with value m * 2**e exactly; None for inf / nan."""
    h = h.strip().lower()
    if 'inf' in h or 'nan' in h:
        return None
    sign = -1 if h.startswith('-') else 1
    h = h.lstrip('+-')
    assert h.startswith('0x')
    mant, _, exp = h[2:].partition('p')
    ip, _, fp = mant.partition('.')
    m = int(ip + fp, 16)
    e = int(exp) - 4 * len(fp)
    return [sign * m, e]


def me_to_float(me):
    import math
    return math.ldexp(me[0], me[1])


def compl(s):
    return ''.join('1' if c == '0' else '0' for c in s)


def all_strings(n):
    return [format(v, '0%db' % n) for v in range(2 ** n)] if n else ['']


def rand_string(rng, n):
    style = rng.random()
    if style < 0.45:
        return ''.join(rng.choice('01') for _ in range(n))
    if style < 0.6:                                   # sparse
        p = rng.choice([0.02, 0.05, 0.1, 0.9])
        return ''.join('1' if rng.random() < p else '0' for _ in range(n))
    if style < 0.8:                                   # periodic
        per = ''.join(rng.choice('01') for _ in range(rng.randint(1, 7)))
        return (per * (n // len(per) + 1))[:n]
    if style < 0.87:
        return rng.choice('01') * n                   # constant
    if style < 0.94:
        return ('01' * n)[:n]                         # alternating
    return '0' * (n - 1) + '1'                        # single one at the end


def long_string(rng, n, content):
    if content == 'random':
        return ''.join(rng.choice('01') for _ in range(n))
    if content == 'alternating':
        return ('01' * n)[:n]
    if content == 'single':                           # all zero but one
        k = rng.randrange(n)
        return '0' * k + '1' + '0' * (n - k - 1)
    per = ''.join(rng.choice('01') for _ in range(rng.choice([3, 5, 7, 8, 12])))
    if '1' not in per:
        per = per[:-1] + '1'
    return (per * (n // len(per) + 1))[:n]


# ---------------------------------------------------------------- independent reference (second detector)
def _ref_H(s):
    import math
    n = len(s)
    c = s.count('1')
    if c == 0 or c == n:
        return 0.0
    return math.log2(n) - (c * math.log2(c) + (n - c) * math.log2(n - c)) / n


def reference(op, s):
    """Croll's definition computed independently of cellpylib: entropies from the two counts, derivatives with zip,
    bien in exact rational arithmetic (Fractions of the float entropies, integer weights 2^k), tbien/ktbien with
    math.fsum over ALL n-1 (cyclic) derivatives."""
    import math
    from fractions import Fraction
    n = len(s)
    hs = []
    for _ in range(n - 1):
        hs.append(_ref_H(s))
        if op == 'ktbien':
            s = ''.join('1' if a != b else '0' for a, b in zip(s, s[1:] + s[:1]))
        else:
            s = ''.join('1' if a != b else '0' for a, b in zip(s, s[1:]))
    if op == 'bien':
        return float(sum(Fraction(h) * (1 << k) for k, h in enumerate(hs)) / ((1 << (n - 1)) - 1))
    ws = [math.log2(k + 2) for k in range(n - 1)]
    return math.fsum(h * w for h, w in zip(hs, ws)) / math.fsum(ws)


# ---------------------------------------------------------------- generation
def generate(rng, tier):
    light = []
    # derivatives: complete up to length 10
    for n in range(0, 11):
        for s in all_strings(n):
            light.append({'kind': 'deriv/complete_len<=10', 'op': 'deriv', 's': s})
    # values: complete for lengths 2..10
    for n in range(2, 11):
        for s in all_strings(n):
            for f in FNS:
                light.append({'kind': '%s/complete_len2..10' % f, 'op': f, 's': s})
    if tier == 'thorough':                       # complete for lengths 11 and 12 as well
        for n in (11, 12):
            for s in all_strings(n):
                light.append({'kind': 'deriv/complete_len11..12', 'op': 'deriv', 's': s})
                for f in FNS:
                    light.append({'kind': '%s/complete_len11..12' % f, 'op': f, 's': s})
    heavy = []
    scale = 1 if tier == 'quick' else 16
    for _ in range(40 * scale):
        n = rng.choice([11, 12, 16, 17, 31, 32, 33, 63, 64, rng.randint(11, 64), rng.randint(11, 64)])
        heavy.append({'kind': 'deriv/random_len11..300', 'op': 'deriv',
                      's': rand_string(rng, rng.choice([n, rng.randint(65, 300)]))})
    for _ in range(40 * scale):
        n = rng.choice([11, 16, 31, 32, 33, 48, 63, 64, rng.randint(11, 64), rng.randint(11, 64)])
        heavy.append({'kind': 'bien/random_len11..64', 'op': 'bien', 's': rand_string(rng, n)})
    # bien beyond 64 digits: the weights 2^k no longer fit a machine word (the code works in floats up to n ~ 1024)
    for rep in range(2 * scale):
        for n in (65, 66, 100, 128, 129, 200, 300):
            s = rand_string(rng, n) if rep % 2 else ''.join(rng.choice('01') for _ in range(n))
            heavy.append({'kind': 'bien/random_len65..300', 'op': 'bien', 's': s})
    for _ in range(6 * scale):
        heavy.append({'kind': 'bien/random_len65..300', 'op': 'bien', 's': rand_string(rng, rng.randint(65, 300))})
    # long strings (beyond the 301-entry logarithm table: Corr.C18.enclosure switches to Model/BienLong.v, 64 bits,
    # a table built per string; 15 s at n ~ 1025, 23 s at 1500, 32 s at 2048).  1025 is the largest length at which
    # bien still returns (from 1026 the unchanged code raises OverflowError: 2**1024 does not convert to float), so
    # bien is only called up to 1025; tbien and ktbien have no such limit.
    xheavy = []
    if tier == 'quick':
        plan = [('tbien', 1026, 'random'), ('ktbien', 1026, 'periodic'), ('ktbien', 1027, 'single'),
                ('tbien', 2048, 'random'), ('bien', 1025, 'random')]
    else:
        plan = [(f, n, cont) for n in (1024, 1025, 1026, 1027, 1500, 2048) for f in ('tbien', 'ktbien')
                for cont in ('random', 'alternating', 'single', 'periodic')]
        plan += [('bien', n, cont) for n in (1024, 1025) for cont in ('random', 'alternating', 'single', 'periodic')]
        plan += [('bien', rng.randint(600, 1023), 'random')]
    for f, n, cont in plan:
        xheavy.append({'kind': 'long/%s_len%s' % (f, '1025_pinned' if (f, n) == ('bien', 1025) else '1024..2048' if n >= 1024 else '600..1023'),
                       'op': f, 's': long_string(rng, n, cont), 'content': cont})
    # periodic strings (period 2, 4, 8): their derivative chains reach the zero string early, so most terms of the
    # mean are 0 while the normaliser still has to count every weight
    pers = ['01', '10', '0011', '0110', '0001', '0111', '0101', '00001111', '00110011', '01010101', '00010001',
            '01101001', '00000001', '01111111']
    lens = [12, 16, 24, 32, 48, 64] if tier == 'quick' else [11, 12, 13, 16, 20, 24, 30, 32, 40, 48, 56, 63, 64]
    for per in pers:
        for n in lens:
            if tier == 'quick' and rng.random() < 0.5:
                continue
            s = (per * (n // len(per) + 1))[:n]
            for f in FNS:
                light.append({'kind': '%s/periodic_len11..64' % f, 'op': f, 's': s})
    for f in ('tbien', 'ktbien'):
        for _ in range(24 * scale):
            n = rng.choice([11, 33, 64, 65, 100, 128, 255, 256, 257, 299, 300,
                            rng.randint(11, 300), rng.randint(11, 300), rng.randint(11, 300)])
            heavy.append({'kind': '%s/random_len11..300' % f, 'op': f, 's': rand_string(rng, n)})
    rng.shuffle(heavy)
    # spread the expensive cases evenly over the shards
    out = []
    step = max(1, len(light) // (len(heavy) + 1))
    hi = 0
    for i, c in enumerate(light):
        out.append(c)
        if i % step == step - 1 and hi < len(heavy):
            out.append(heavy[hi])
            hi += 1
    out.extend(heavy[hi:])
    # the very expensive long cases: one per stretch of the output, so that they land in different shards
    span = len(out) if tier != 'quick' else min(len(out), 15 * 400)     # quick: all in the first wave of 16 shards
    stride = max(1, span // (len(xheavy) + 1))
    for j, c in enumerate(xheavy):
        out.insert(min(len(out), (j + 1) * stride + j), c)
    for c in out:
        yield c


# ---------------------------------------------------------------- implementation
def _digits(x):
    if not isinstance(x, str):
        raise TypeError('not a str')
    return [int(ch) if ch in '0123456789' else 99 for ch in x]


def _val(fn, s):
    r = call_impl(lambda: fn(s), timeout=60)
    if r[0] != 'ok':
        return list(r)
    v = r[1]
    if not isinstance(v, float):
        try:
            v = float(v)
        except Exception:
            return ['exc', 'TypeError']
    me = hex_to_me(v.hex())
    if me is None:
        return ['exc', 'OtherError']
    return ['ok', me]


def run_impl(c):
    import cellpylib as cpl
    s = c['s']
    if c['op'] == 'deriv':
        return {'plain': list(call_impl(lambda: _digits(cpl.binary_derivative(s)))),
                'cyclic': list(call_impl(lambda: _digits(cpl.cyclic_binary_derivative(s))))}
    fn = getattr(cpl, c['op'])
    obs = {'v': _val(fn, s), 'compl': _val(fn, compl(s)), 'rev': _val(fn, s[::-1])}
    if c['op'] == 'ktbien':
        n = len(s)
        ks = sorted(set([1, n // 2, n - 1, (7 * n) // 10]) - {0}) if n <= 301 else [(7 * n) // 10]
        obs['rot'] = [[k, _val(fn, s[k:] + s[:k])] for k in ks]
    return obs


def to_coq(c, obs):
    bits = clist([ch == '1' for ch in c['s']], cbool)
    if c['op'] == 'deriv':
        return '(CDeriv %s %s %s)' % (bits, cres(obs['plain'], czlist), cres(obs['cyclic'], czlist))
    return '(CValue %s %s %s)' % (COQ_FN[c['op']], bits, cres(obs['v'], lambda me: '(%s, %s)' % (cz(me[0]), cz(me[1]))))


def nontrivial(c, obs):
    if c['op'] == 'deriv':
        return len(c['s']) >= 2
    if obs['v'][0] != 'ok':
        return False
    v = me_to_float(obs['v'][1])
    return 0.0 < v < 1.0


def oracle(c, obs):
    """The property itself, evaluated on the implementation's answers (a test, second detector)."""
    s = c['s']
    if c['op'] == 'deriv':
        if obs['plain'][0] == 'ok':
            want = [int(s[i]) ^ int(s[i + 1]) for i in range(len(s) - 1)]
            if obs['plain'][1] != want:
                return 'binary_derivative is not the xor of adjacent digits (length n-1)'
        if obs['cyclic'][0] == 'ok':
            want = [int(s[i]) ^ int(s[(i + 1) % len(s)]) for i in range(len(s))]
            if obs['cyclic'][1] != want:
                return 'cyclic_binary_derivative is not the xor of each digit with its cyclic successor (length n)'
        return None
    if obs['v'][0] != 'ok':
        return '%s raised %s on a binary string of length %d' % (c['op'], obs['v'][1], len(s))
    v = me_to_float(obs['v'][1])
    if not (0.0 <= v <= 1.0):
        return '%s value %r outside [0, 1]' % (c['op'], v)
    ref = reference(c['op'], s)
    if abs(ref - v) > 1e-9:
        return '%s value %r differs from the independent weighted mean over all n-1 derivatives %r (n = %d)' % (c['op'], v, ref, len(s))
    partners = [('complement', obs['compl']), ('reverse', obs['rev'])]
    partners += [('rotation by %d' % k, o) for k, o in obs.get('rot', [])]
    for name, o in partners:
        if o[0] != 'ok':
            return '%s raised %s on the %s' % (c['op'], o[1], name)
        w = me_to_float(o[1])
        if abs(w - v) > 1e-12:
            return '%s changes under %s: %r vs %r' % (c['op'], name, v, w)
    return None


def shrink(c):
    s = c['s']
    if c['op'] == 'deriv':
        if len(s) > 0:
            yield dict(c, s=s[1:])
            yield dict(c, s=s[:-1])
        if len(s) >= 4:
            yield dict(c, s=s[:len(s) // 2])
            yield dict(c, s=s[len(s) // 2:])
        return
    # value cases: every candidate costs one coqc with the 6 s logarithm table, so at most 3 + 2 candidates in all
    depth = c.get('_sh', 0)
    if depth >= 2:
        return
    if depth == 0 and s != '01':
        yield dict(c, s='01', _sh=2)
    if len(s) >= 4:
        yield dict(c, s=s[:len(s) // 2], _sh=depth + 1)
        yield dict(c, s=s[len(s) // 2:], _sh=depth + 1)


# ------------------------------------------------------------------ source tie (appended; harness/translate.py)
# pre(): regenerate coq/gen/GenFuns.v from the Python source of the tree under test and, if it changed, re-prove
# GenProps/GenFunsEquivC18.v, GenProps/C18Src.v and Properties/C18.v (theorem C18_source_tie) by hand.
# extra_checks(): report a failed translation / equivalence proof (theorem names, translator or coqc error).
from harness import translate as _translate
_prev_pre = globals().get('pre')
_prev_extra_checks = globals().get('extra_checks')
TRUSTED = list(globals().get('TRUSTED', [])) + [_translate.TRUSTED_NOTE]
NOTES = list(globals().get('NOTES', [])) + [
    'coq/gen/GenFuns.v is regenerated from the Python source at the start of every run; theorem C18_source_tie proves '
    'the regenerated definitions equal to the hand-written model for all inputs']


def pre(ctx):
    if _prev_pre is not None:
        _prev_pre(ctx)
    _translate.pre_hook(ctx, 'C18')


def extra_checks(ctx):
    out = list(_prev_extra_checks(ctx)) if _prev_extra_checks is not None else []
    return out + _translate.extra_hook(ctx, 'C18')
