"""C01 — 1D evolution (memoize=False) is the synchronous update of a ring: correspondence
generators, runner, Coq emitter and the property's own oracle."""
import numpy as np
from harness.driver import call_impl, cz, cnat, cbool, czlist, cgrid, clist, cres
from harness import twins
from harness.twins import Scribble, make_rule, coq_rule_spec

ID = 'C01'
COQ_IMPORTS = ('From CPL Require Import Model.Base Model.Rules Model.Engine Model.Evolve1D Corr.C01.\n'
               'Open Scope Z_scope.')
NONTRIVIAL_RULE = ('non-trivial = evolve returned an array and at least one step was computed (T >= 2); '
                   'distinct = distinct case dicts (ring size, radius, history, dtype, T, rule family and parameters, '
                   'fixed or callable timesteps)')
EXHAUSTIVE = {'quick': False, 'thorough': False}
NOTES = ['every (N, r) with 1 <= r <= N <= 8 (thorough: <= 12), every T in 1..4, every rule family, both forms of '
         '`timesteps` is enumerated (history length and dtype random there); history length and dtype are crossed completely for N <= 3 (thorough: N <= 12, and N <= 6 for callable timesteps)',
         'the (n, c, t) argument log is compared in full for every case with N <= 12 and for Script rules at every size',
         'stream floatrule: the rule returns value/4.0 into an int automaton; model store = truncation toward zero',
         'stream bigint: int64 / uint64 automata with states and rule results above 2**53 (exact in Z on the model side)',
         'the dtype name of the result and (scribble stream) the caller array after the call are compared inside Coq too',
         'streams float/overflow (float32 / float16, results beyond the range -> inf, below the smallest subnormal -> '
         '0.0 / -0.0) and float/signed_zero (float64 / float32 with -0.0; a later step observes the sign): the Z-valued '
         'model cannot express inf or -0.0, so these cases emit the trivially agreeing Coq constructor CNoModel and are '
         'DECIDED BY THE PYTHON ORACLE: bitwise comparison with an independent reference ring update in c01.py '
         '(_reference_rows), all three memoize modes for pure rules, both timesteps forms; an exception is a failure',
         'every case: np.geterr() after the call must equal NumPy\'s default error state',
         'stream dress/<how>/...: the rule callable (and the timesteps predicate) is handed to evolve in every shape of '
         'twins.RULE_DRESSINGS / PRED_DRESSINGS (8 cases each in quick: Script / LinCT / Lin / Aff, r = 1 and larger, '
         'fixed and callable, H in 1..3, one scribbling, one float-valued); the dressing is the outermost wrapper, the '
         'exact log sits inside; the model ignores the dressing (same behaviour)',
         'stream reentrant/<same|other_r|same_family>/...: the rule is twins.Reentrant(inner, nested), nested = a complete '
         'cpl.evolve on a ring of the same N and dtype (same r / another r / nested rule of the inner rule\'s family) with '
         'memoize False / True / recursive; model side = inner rule; arrays and logs compared in Coq',
         'stream callform/...: evolve called through twins.invoke all-positional, all-keyword and mixed, r and memoize '
         'given or defaulted; stream retview/...: twins.ProjView1 (0-d view of the argument), model = one-hot Lin',
         'stream huge/... (N = 3001, r = 1500 and N = 2 900 001, r = 1, int64, T = 2; neighbourhood tables above 64 MiB) is '
         'ORACLE-DECIDED (Coq term CNoModel): the log must be c = 0..N-1 ascending once per step and the row the closed '
         'form (c*7 + previous state) % 11',
         'stream scribble: the rule overwrites its neighbourhood argument in place after computing its value '
         '(twins.Scribble); the model passes values, so the model-side rule is the underlying one']
ASSUMPTIONS = ['rule results are representable in the automaton dtype (out-of-range results are outside the property)',
               'float automata carry integer-valued floats',
               'T = 0 and r outside 1..N are outside the property and are not generated']
TRUSTED = ['Python twins Lin1 / LinCT1 / Aff1 / Script / Scribble of harness/twins.py and the StrictLogged1 / Scaled wrappers of harness/props/c01.py']

DTYPES = ['int32', 'int64', 'uint8', 'float64']
FAMS = ['script', 'linct', 'lin', 'aff']


class StrictLogged1:
    """records (n, c, t) of every call EXACTLY: a neighbourhood entry that is not an integer value (the automata
    generated here only hold integer values) is kept as a float and makes the case disagree.  twins.Logged1 and the
    Lin twins read the neighbourhood through int(x), which would hide a non-integer state handed to the rule."""
    def __init__(self, f):
        self.f, self.log, self.exact = f, [], True

    def __call__(self, nbhd_arg, cell_arg, step_arg):

        n, c, t = nbhd_arg, cell_arg, step_arg   # not named (n, c, t): the library must call rules positionally
        vals = []
        for x in np.asarray(n).ravel().tolist():
            if isinstance(x, float) and not x.is_integer():
                self.exact = False
                vals.append(x)
            else:
                vals.append(int(x))
        self.log.append((vals, int(c), int(t)))
        return self.f(n, c, t)


class Scaled:
    """returns f(n, c, t) / scale as a Python float (scale is a power of two: exact)"""
    def __init__(self, f, scale):
        self.f, self.scale = f, scale

    def __call__(self, nbhd_arg, cell_arg, step_arg):

        n, c, t = nbhd_arg, cell_arg, step_arg   # not named (n, c, t): the library must call rules positionally
        return self.f(n, c, t) / float(self.scale)


# ---------------------------------------------------------------- float-valued rules (oracle-only buckets)
# the floating-point error state of a fresh NumPy (what np.geterr() returns before cellpylib is imported);
# importing or calling the library must leave it alone
DEFAULT_ERR = {'divide': 'warn', 'over': 'warn', 'under': 'ignore', 'invalid': 'warn'}


class FloatRule:
    """rules on float automata; all arithmetic on Python floats (no NumPy scalar arithmetic inside the rule).
    fscript: the i-th call returns vs[i] (stateful);  fmul: float(n[r]) * k;  fmaxmul: max(n) * k;
    neg: -n[r];  csz: copysign(0.0, n[0] - 1);  obs: zero -> copysign(1, zero), positive -> -0.0, negative -> 0.0;
    tdep: neg at t = 1, obs from t = 2 on."""
    def __init__(self, spec, r):
        self.spec, self.r, self.i = spec, r, 0

    def __call__(self, nbhd_arg, cell_arg, step_arg):
        import math
        n, c, t = nbhd_arg, cell_arg, step_arg   # not named (n, c, t): the library must call rules positionally
        fam = self.spec['fam']
        x = float(n[self.r])
        if fam == 'fscript':
            vs = self.spec['vs']
            v = vs[self.i] if self.i < len(vs) else 0.0
            self.i += 1
            return v
        if fam == 'fmul':
            return x * self.spec['k']
        if fam == 'fmaxmul':
            return max(float(y) for y in n) * self.spec['k']
        if fam == 'neg' or (fam == 'tdep' and int(t) == 1):
            return -x
        if fam == 'csz':
            return math.copysign(0.0, float(n[0]) - 1.0)
        # obs, and tdep from t = 2 on
        if x == 0:
            return math.copysign(1.0, x)
        return -0.0 if x > 0 else 0.0


def _ref_float_value(spec, i, window, r, t):
    """independent re-statement of the FloatRule families for the reference ring update (window: Python floats)"""
    import math
    fam = spec['fam']
    mid = window[r]
    if fam == 'fscript':
        return spec['vs'][i] if i < len(spec['vs']) else 0.0
    if fam == 'fmul':
        return mid * spec['k']
    if fam == 'fmaxmul':
        return max(window) * spec['k']
    if fam == 'csz':
        return 0.0 if window[0] - 1.0 >= 0 else -0.0
    if fam == 'neg' or (fam == 'tdep' and t == 1):
        return math.copysign(abs(mid), -math.copysign(1.0, mid))
    if mid == 0:
        return 1.0 if math.copysign(1.0, mid) > 0 else -1.0
    return -0.0 if mid > 0 else 0.0


def _reference_rows(c):
    """the property, executed: row t, cell c = dtype(rule(window of row t-1 at (c-r+k) mod N, c, t)); the cast is
    NumPy's float cast with the floating-point error state ignored (overflow -> inf, underflow -> 0.0 / -0.0)"""
    ty = np.dtype(c['dtype']).type
    r, T = c['r'], c['T']
    with np.errstate(all='ignore'):
        rows = [[ty(x) for x in row] for row in c['hist']]
        cur = rows[-1]
        N = len(cur)
        i = 0
        for t in range(1, T):
            nxt = []
            for cell in range(N):
                window = [float(cur[(cell - r + k) % N]) for k in range(2 * r + 1)]
                nxt.append(ty(_ref_float_value(c['frule'], i, window, r, t)))
                i += 1
            rows.append(nxt)
            cur = nxt
    return [b''.join(x.tobytes() for x in row).hex() for row in rows]


def _float_cases(rng, tier):
    reps = 1 if tier == 'quick' else 6
    memo_pure = ['False', 'True', 'recursive']
    for _ in range(reps):
        # float/overflow: results beyond the dtype's range and below its smallest subnormal
        for dtype in ('float32', 'float16'):
            big = {'float32': [1e40, -1e40, 3.5e38, 1e300], 'float16': [1e40, -1e40, 70000.0, -65520.0]}[dtype]
            tiny = {'float32': [1e-50, -1e-50, 1e-46, 1.4e-45], 'float16': [1e-50, -1e-50, 1e-8, 6e-8]}[dtype]
            for dyn in (False, True):
                for fam in ('fscript', 'fmul/big', 'fmul/tiny', 'fmaxmul'):
                    for memo in (memo_pure if fam != 'fscript' else ['False']) * 2:
                        N = rng.randint(1, 6)
                        r = rng.randint(1, N)
                        T = rng.randint(2, 4)
                        hist = [[rng.choice([1.0, -1.0, 2.0, 0.5, -1.5, 0.0, 3.0]) for _ in range(N)]
                                for _ in range(rng.randint(1, 2))]
                        if fam == 'fscript':
                            fr = {'fam': 'fscript', 'vs': [rng.choice(big + tiny + [1.5, -2.0, 0.1]) for _ in range(N * (T - 1))]}
                        elif fam == 'fmul/big':
                            fr = {'fam': 'fmul', 'k': rng.choice(big)}
                        elif fam == 'fmul/tiny':
                            fr = {'fam': 'fmul', 'k': rng.choice(tiny)}
                        else:
                            fr = {'fam': 'fmaxmul', 'k': rng.choice(big + tiny)}
                        yield {'kind': 'float/overflow/%s/%s/%s/memoize=%s' % (dtype, fam, 'callable' if dyn else 'fixed', memo),
                               'nomodel': True, 'dtype': dtype, 'hist': hist, 'T': T, 'r': r, 'dyn': dyn, 'memoize': memo,
                               'frule': fr}
        # float/signed_zero: -0.0 and 0.0 are different states; a later step observes the sign
        for dtype in ('float64', 'float32'):
            for dyn in (False, True):
                for fam in ('neg', 'csz', 'obs', 'tdep'):
                    for memo in (memo_pure if fam != 'tdep' else ['False']):
                        for _k in range(2):
                            N = rng.randint(2, 6)
                            r = rng.randint(1, N)
                            T = rng.randint(3, 5)
                            row = [rng.choice([0.0, -0.0, 1.0, -1.0, 2.0]) for _ in range(N)]
                            row[rng.randrange(N)] = 0.0
                            row[rng.randrange(N)] = -0.0 if rng.random() < 0.5 else 1.0
                            hist = [[rng.choice([0.0, -0.0, 1.0]) for _ in range(N)] for _ in range(rng.randint(0, 1))] + [row]
                            yield {'kind': 'float/signed_zero/%s/%s/%s/memoize=%s' % (dtype, fam, 'callable' if dyn else 'fixed', memo),
                                   'nomodel': True, 'dtype': dtype, 'hist': hist, 'T': T, 'r': r, 'dyn': dyn,
                                   'memoize': memo, 'frule': {'fam': fam}}


class IndexRule:
    """cheap index-dependent rule for the huge rings: (c*7 + n[r]) % 11, and it records c"""
    def __init__(self, r):
        self.r, self.cells, self.steps = r, [], []

    def __call__(self, nbhd_arg, cell_arg, step_arg):
        self.cells.append(cell_arg)
        self.steps.append(step_arg)
        return (cell_arg * 7 + int(nbhd_arg[self.r])) % 11


def _run_huge(c):
    """the observation is a summary (the row and the log have up to 2.9 million entries): where the log departs from
    0..N-1 ascending once per step, and where the new row departs from the closed form (c*7 + prev[c]) % 11"""
    import cellpylib as cpl
    N, r, T = c['N'], c['r'], c['T']
    init = np.random.RandomState(c['hist_seed']).randint(0, 11, size=N).astype(c['dtype'])
    ca = np.array([init])
    rule = IndexRule(r)
    ts = (lambda ca_, t: t < T) if c['dyn'] else T
    res = call_impl(lambda: cpl.evolve(ca, timesteps=ts, apply_rule=rule, r=r, memoize=False), timeout=120)
    if res[0] != 'ok':
        return [res[0], res[1], {'geterr': dict(np.geterr())}]
    out = np.asarray(res[1])
    o = {'shape': [int(x) for x in out.shape], 'dtype': str(out.dtype), 'geterr': dict(np.geterr()),
         'calls': len(rule.cells), 'bad_call': None, 'bad_cell': None}
    if out.shape == (T, N):
        want_c = np.tile(np.arange(N), T - 1)
        want_t = np.repeat(np.arange(1, T), N)
        if len(rule.cells) == len(want_c):
            got_c, got_t = np.asarray(rule.cells), np.asarray(rule.steps)
            bad = np.nonzero((got_c != want_c) | (got_t != want_t))[0]
            if len(bad):
                i = int(bad[0])
                o['bad_call'] = [i, int(got_c[i]), int(got_t[i]), int(want_c[i]), int(want_t[i])]
        for t in range(1, T):
            bad = np.nonzero(out[t] != (np.arange(N) * 7 + out[t - 1]) % 11)[0]
            if len(bad) and o['bad_cell'] is None:
                j = int(bad[0])
                o['bad_cell'] = [t, j, int(out[t][j]), int((j * 7 + int(out[t - 1][j])) % 11)]
        o['prefix_ok'] = bool(np.array_equal(out[0], init))
    return ['ok', o]


def _oracle_huge(c, obs):
    if obs[0] != 'ok':
        return 'evolve raised %s on a ring of %d cells, r = %d' % (obs[1], c['N'], c['r'])
    o = obs[1]
    if o['dtype'] != c['dtype'] or o['shape'] != [c['T'], c['N']]:
        return 'result dtype / shape %s %s, expected %s %s' % (o['dtype'], o['shape'], c['dtype'], [c['T'], c['N']])
    if o['calls'] != c['N'] * (c['T'] - 1):
        return 'the rule was consulted %d times, expected N*(T-1) = %d' % (o['calls'], c['N'] * (c['T'] - 1))
    if o['bad_call']:
        return 'call %d received (c, t) = (%d, %d), expected (%d, %d): cells ascending, each once per step' % tuple(o['bad_call'])
    if o['bad_cell']:
        return 'row %d cell %d is %d, the rule value (c*7 + previous state) %% 11 is %d' % tuple(o['bad_cell'])
    if not o.get('prefix_ok'):
        return 'the result does not start with the given row'
    return None


def _run_nomodel(c):
    import warnings
    import cellpylib as cpl
    if c.get('huge'):
        return _run_huge(c)
    ca = np.array(c['hist'], dtype=c['dtype'])
    rule = FloatRule(c['frule'], c['r'])
    T = c['T']
    ts = (lambda ca_, t: t < T) if c['dyn'] else T
    memo = {'False': False, 'True': True, 'recursive': 'recursive'}[c['memoize']]
    with warnings.catch_warnings():
        warnings.simplefilter('ignore')      # warnings only; the floating-point error STATE is left as the library set it
        res = call_impl(lambda: cpl.evolve(ca, timesteps=ts, apply_rule=rule, r=c['r'], memoize=memo))
    if res[0] != 'ok':
        return [res[0], res[1], {'geterr': dict(np.geterr())}]
    out = np.asarray(res[1])
    return ['ok', {'rows_hex': [row.tobytes().hex() for row in out] if out.ndim == 2 else None,
                   'shape': [int(x) for x in out.shape], 'dtype': str(out.dtype), 'geterr': dict(np.geterr())}]


def _oracle_nomodel(c, obs):
    if c.get('huge'):
        return _oracle_huge(c, obs)
    if obs[0] != 'ok':
        return 'evolve raised %s; the library should store inf / 0.0 / -0.0 in the automaton dtype' % obs[1]
    o = obs[1]
    H, N = len(c['hist']), len(c['hist'][0])
    if o['dtype'] != c['dtype']:
        return 'result dtype %s differs from the automaton dtype %s' % (o['dtype'], c['dtype'])
    if o['shape'] != [H + c['T'] - 1, N]:
        return 'result shape %s, expected %s' % (o['shape'], [H + c['T'] - 1, N])
    want = _reference_rows(c)
    for i, (a, b) in enumerate(zip(o['rows_hex'], want)):
        if a != b:
            ty = np.dtype(c['dtype'])
            return 'row %d is %s (bit pattern %s), the reference ring update gives %s (%s)' % (
                i, np.frombuffer(bytes.fromhex(a), dtype=ty).tolist(), a, np.frombuffer(bytes.fromhex(b), dtype=ty).tolist(), b)
    return None


# ---------------------------------------------------------------- generators
def _cell(rng, dtype, wide=False):
    if dtype == 'uint8':
        return rng.choice([0, 1, 2, 3, 255, rng.randint(0, 255)]) if wide else rng.randint(0, 3)
    if wide:
        big = {'int32': 2 ** 31 - 1, 'int64': 2 ** 62, 'float64': 2 ** 40}[dtype]
        return rng.choice([0, 1, -1, big, -big, rng.randint(-100, 100)])
    return rng.randint(-4, 4)


def _hist(rng, N, H, dtype):
    mode = rng.random()
    rows = []
    for h in range(H):
        if mode < 0.35:      # all cells distinct: any index slip changes a neighbourhood
            base = list(range(1 + 10 * h, N + 1 + 10 * h))
            rng.shuffle(base)
            rows.append(base)
        elif mode < 0.85:
            rows.append([_cell(rng, dtype) for _ in range(N)])
        else:
            rows.append([_cell(rng, dtype, wide=True) for _ in range(N)])
    return rows


def _rule(rng, fam, N, r, T, dtype, scale=1):
    lo, hi = (0, 255) if dtype == 'uint8' else (-60, 60)
    if fam == 'script':
        need = N * max(T - 1, 0)
        k = rng.choice([need, need, need, max(need - rng.randint(1, 3), 0), need + 2])   # exhausted scripts answer 0
        vs = [rng.randint(lo * scale, hi * scale) for _ in range(k)]
        if need and rng.random() < 0.3:      # distinct values: later rows detect index slips too
            vs = list(range(1, k + 1))
            rng.shuffle(vs)
            if dtype == 'uint8':
                vs = [v % 256 for v in vs]
        return {'fam': 'script', 'vs': vs}
    ws = [rng.randint(-3, 3) for _ in range(2 * r + 1)]
    if all(w == 0 for w in ws):
        ws[rng.randrange(len(ws))] = 1
    if dtype == 'uint8':
        m = rng.choice([2, 3, 7, 256, rng.randint(1, 256)])
    else:
        m = rng.choice([2, 3, 7, 101, -5, -64, rng.randint(1, 500)])
    m = m * (scale if scale != 1 and rng.random() < 0.5 else 1)
    if fam == 'aff':      # pure affine: the all-zero neighbourhood maps to b mod m, not to 0
        return {'fam': 'aff', 'ws': ws, 'b': rng.choice([1, 2, 5, -1, rng.randint(-20, 20)]), 'm': m}
    return {'fam': fam, 'ws': ws, 'm': m}


def _case(rng, kind, N, r, T, H, dtype, fam, dyn, scale=1, log=True, scribble=False):
    c = {'kind': kind, 'dyn': dyn, 'scale': scale, 'dtype': dtype, 'hist': _hist(rng, N, H, dtype),
         'T': T, 'r': r, 'rule': _rule(rng, fam, N, r, T, dtype, scale), 'log': log}
    if scribble:
        c['scribble'] = True     # Python side only: the rule overwrites its argument after computing its value
    return c


def generate(rng, tier):
    nmax = 8 if tier == 'quick' else 12
    ncross = 3 if tier == 'quick' else 12
    # (1) every (N, r, T, family, fixed|callable); H and dtype drawn at random
    for N in range(1, nmax + 1):
        for r in range(1, N + 1):
            for T in range(1, 5):
                for fam in FAMS:
                    for dyn in (False, True):
                        if N <= ncross and not dyn:
                            continue        # covered by the complete cross below
                        yield _case(rng, 'sweep/%s/%s' % (fam, 'callable' if dyn else 'fixed'), N, r, T,
                                    rng.randint(1, 3), rng.choice(DTYPES), fam, dyn)
    # (2) complete cross of H and dtype on the small rings
    for N in range(1, ncross + 1):
        for r in range(1, N + 1):
            for T in range(1, 5):
                for H in range(1, 4):
                    for dtype in DTYPES:
                        for fam in FAMS:
                            yield _case(rng, 'cross/%s/fixed' % fam, N, r, T, H, dtype, fam, False)
                            if tier != 'quick' and N <= 6:
                                yield _case(rng, 'cross/%s/callable' % fam, N, r, T, H, dtype, fam, True)
    # (3) random larger rings
    n_rand = 300 if tier == 'quick' else 3000
    for _ in range(n_rand):
        N = rng.randint(9, 40) if rng.random() < 0.8 else rng.randint(1, 8)
        p = rng.random()
        if p < 0.5:
            r = rng.randint(1, min(N, 4))
        elif p < 0.7:
            r = rng.choice([N, max(N - 1, 1), (N + 1) // 2, max(N // 2, 1)])    # N <= 2r+1 boundary, r = N
        else:
            r = rng.randint(1, N)
        T = rng.choice([1, 2, 2, 3, 3, 4, 5, 6])
        fam = rng.choice(FAMS)
        yield _case(rng, 'random/%s' % fam, N, r, T, rng.randint(1, 3), rng.choice(DTYPES), fam,
                    rng.random() < 0.3, log=(fam == 'script' or N <= 12))
    # (4) float results into an int automaton: store truncates toward zero
    n_fl = 200 if tier == 'quick' else 2000
    #     T >= 3 in 9 cases of 10: step 2 must read the row as STORED by step 1 (truncated), not the raw results;
    #     the neighbourhood log is recorded exactly (StrictLogged1), so a non-integer state reaching a rule shows
    for k in range(n_fl):
        N = rng.randint(1, 8)
        r = rng.randint(1, N)
        T = 2 if k % 10 == 9 else rng.randint(3, 5)
        fam = ['script', 'linct', 'lin', 'aff', 'script'][k % 5]
        dtype = rng.choice(['int32', 'int64', 'uint8'])
        yield _case(rng, 'floatrule/%s/%s' % (fam, 'callable' if k % 3 == 2 else 'fixed'), N, r, T, rng.randint(1, 2),
                    dtype, fam, k % 3 == 2, scale=4)
    # (5) rules that overwrite their neighbourhood argument in place (after computing their value): every cell
    #     must still receive the states of the previous row, i.e. its own copy of the neighbourhood
    n_sc = 150 if tier == 'quick' else 1500
    for k in range(n_sc):
        N = 3 + k % 10
        r = rng.randint(1, N)
        fam = FAMS[k % len(FAMS)]
        dyn = (k // len(FAMS)) % 2 == 1
        yield _case(rng, 'scribble/%s/%s' % (fam, 'callable' if dyn else 'fixed'), N, r, rng.randint(2, 4),
                    rng.randint(1, 2), rng.choice(DTYPES), fam, dyn, scribble=True)
    # (6) int64 / uint64 automata whose states and rule results exceed 2**53: the stored values are exact
    #     (no detour through float64 anywhere between the rule's return value and the array)
    n_big = 120 if tier == 'quick' else 1200
    for k in range(n_big):
        fam = FAMS[k % len(FAMS)]
        dyn = (k // len(FAMS)) % 2 == 1
        dtype = 'uint64' if (k // (2 * len(FAMS))) % 2 else 'int64'
        N = rng.randint(1, 8)
        r = rng.randint(1, N)
        T = rng.randint(2, 4)
        H = rng.randint(1, 2)
        yield {'kind': 'bigint/%s/%s/%s' % (dtype, fam, 'callable' if dyn else 'fixed'), 'dyn': dyn, 'scale': 1,
               'dtype': dtype, 'hist': [[_bigcell(rng, dtype) for _ in range(N)] for _ in range(H)], 'T': T, 'r': r,
               'rule': _bigrule(rng, fam, N, r, T, dtype), 'log': True}
    # (8) dressings: the same evolutions with the rule callable (and the timesteps predicate) handed over in another
    #     SHAPE (*args, functools.partial, bound method, lambda, subclass of a library rule class, ...) or returning
    #     another Python TYPE for the same value (0-d array, NumPy scalar, Python int).  Behaviour is unchanged, so the
    #     Coq side ignores the dressing; the library must call exactly what it was given, positionally, once per cell.
    reps = 1 if tier == 'quick' else 5
    for _ in range(reps):
        for di, how in enumerate(twins.RULE_DRESSINGS):
            for k in range(8):
                fam = ['script', 'linct', 'script', 'linct', 'lin', 'aff', 'script', 'linct'][k]
                dyn = k % 2 == 1
                N = rng.randint(1, 9)
                r = 1 if k < 4 else rng.randint(1, N)       # r = 1: the elementary-rule radius (fast paths live there)
                T = rng.randint(2, 4)
                scale = 4 if k == 7 else 1
                dtype = rng.choice(['int32', 'int64', 'uint8']) if scale != 1 else rng.choice(DTYPES)
                c = _case(rng, 'dress/%s/%s/%s' % (how, fam, 'callable' if dyn else 'fixed'), N, r, T, 1 + k % 3, dtype, fam,
                          dyn, scale=scale, scribble=(k == 6))
                c['dress'] = how
                if dyn:
                    c['pdress'] = twins.PRED_DRESSINGS[(di + k // 2) % len(twins.PRED_DRESSINGS)]
                yield c
    # (9) re-entrancy: the rule itself runs a complete nested cpl.evolve (same N, r, dtype; same N other r; nested rule of
    #     the same family) before and after computing its value; the nested call must not disturb the outer evolution
    reps = 1 if tier == 'quick' else 6
    for _ in range(reps):
        for mode in ('same', 'other_r', 'same_family'):
            for memo2 in ('False', 'True', 'recursive'):
                for dyn in (False, True):
                    for fam in ('script', 'linct'):
                        N = rng.randint(2, 7)
                        r = rng.randint(1, N)
                        T = rng.randint(2, 3)
                        dtype = rng.choice(DTYPES)
                        c = _case(rng, 'reentrant/%s/nested_memoize=%s/%s/%s' % (mode, memo2, fam, 'callable' if dyn else 'fixed'),
                                  N, r, T, rng.randint(1, 2), dtype, fam, dyn)
                        r2 = r if mode != 'other_r' else rng.choice([x for x in range(1, N + 1) if x != r] or [r])
                        T2 = rng.randint(2, 3)
                        fam2 = fam if mode == 'same_family' else 'lin'
                        c['reentrant'] = {'mode': mode, 'r2': r2, 'T2': T2,
                                          'memo2': memo2 if fam2 == 'lin' else 'False',
                                          'rule2': _rule(rng, fam2, N, r2, T2, dtype), 'hist2': _hist(rng, N, 1, dtype)}
                        yield c
    # (10) call forms: the same evolve call written all-positional, all-keyword and mixed; r / memoize given or defaulted
    for _ in range(2 * reps):
        for given in (['r', 'memoize'], ['r'], ['memoize'], []):
            names = ['cellular_automaton', 'timesteps', 'apply_rule'] + given
            top = len(names) if given != ['memoize'] else 3      # memoize without r can only be a keyword
            for npos in range(top + 1):
                N = rng.randint(1, 7)
                r = rng.randint(1, N) if 'r' in given else 1
                fam = rng.choice(FAMS)
                dyn = rng.random() < 0.5
                c = _case(rng, 'callform/given=%s/npos=%d/%s' % ('+'.join(given) or 'none', npos, 'callable' if dyn else 'fixed'),
                          N, r, rng.randint(2, 4), rng.randint(1, 2), rng.choice(DTYPES), fam, dyn)
                c['callform'] = {'given': given, 'npos': npos}
                yield c
    # (11) a rule that returns a zero-dimensional VIEW of its argument (twins.ProjView1); model = one-hot Lin
    for k in range(40 * reps):
        N = rng.randint(1, 8)
        r = rng.randint(1, N)
        dtype = DTYPES[k % 4]
        dyn = (k // 4) % 2 == 1
        pos = rng.randrange(2 * r + 1)
        hist = [[rng.randint(0, 9) for _ in range(N)] for _ in range(rng.randint(1, 2))]
        yield {'kind': 'retview/%s/%s' % (dtype, 'callable' if dyn else 'fixed'), 'dyn': dyn, 'scale': 1, 'dtype': dtype,
               'hist': hist, 'T': rng.randint(2, 4), 'r': r, 'retview': pos, 'log': True,
               'rule': {'fam': 'lin', 'ws': [1 if i == pos else 0 for i in range(2 * r + 1)], 'm': 10}}
    # (12) oracle-only: rings whose neighbourhood table exceeds 64 MiB (3001 x 3001 x 8 bytes; 2 900 001 x 3 x 8 bytes)
    for N, r in ((3001, 1500), (2900001, 1)):
        for dyn in (False, True):
            yield {'kind': 'huge/N=%d/r=%d/%s' % (N, r, 'callable' if dyn else 'fixed'), 'nomodel': True, 'huge': True,
                   'dtype': 'int64', 'N': N, 'r': r, 'T': 2, 'dyn': dyn, 'hist_seed': rng.randrange(2 ** 31)}
    # (7) oracle-only: float overflow / underflow and signed zeros (outside the Z-valued model)
    for c in _float_cases(rng, tier):
        yield c


def _bigcell(rng, dtype):
    if dtype == 'uint64':
        return rng.choice([2 ** 53 + 1, 2 ** 63 + 5, 2 ** 64 - 1, 2 ** 62 + 3, rng.randrange(2 ** 53, 2 ** 64), rng.randint(0, 9)])
    return rng.choice([2 ** 53 + 1, -(2 ** 53) - 1, 2 ** 62 + 3, 2 ** 63 - 1, -(2 ** 63), rng.randrange(-2 ** 63, 2 ** 63),
                       rng.randint(-9, 9)])


def _bigrule(rng, fam, N, r, T, dtype):
    if fam == 'script':
        # a whole row of results must be of one kind for np.array([...]) to stay integral:
        # uint64 rows are all >= 0; int64 rows stay within the int64 range
        vs = [_bigcell(rng, dtype) for _ in range(N * (T - 1))]
        if dtype == 'uint64' and N >= 2 and rng.random() < 0.5:
            # rows whose Python-int results straddle 2**63 (np.array([2**63 + 5, 3]) without a dtype is float64:
            # the defect repaired by /repo commit c474f58); exact values are required
            for row in range(T - 1):
                pair = rng.choice([[2 ** 63 + 5, 3], [2 ** 64 - 1, 0], [0, 2 ** 64 - 1], [2 ** 63, 2 ** 63 - 1]])
                at = rng.randrange(N - 1)
                vs[row * N + at: row * N + at + 2] = pair
        return {'fam': 'script', 'vs': vs}
    ws = [rng.choice([1, -1, 3, 2 ** 40 + 1, -(2 ** 33) - 7, rng.randint(-5, 5)]) for _ in range(2 * r + 1)]
    if all(w == 0 for w in ws):
        ws[0] = 1
    if dtype == 'uint64':
        m = rng.choice([2 ** 64, 2 ** 64 - 59, 2 ** 63 + 29, 2 ** 63])     # results in [0, m), on both sides of 2**63
    else:
        m = rng.choice([2 ** 63, 2 ** 63 - 25, -(2 ** 63), -(2 ** 62) - 1])   # results in [0, m) or (m, 0]
    if fam == 'aff':
        return {'fam': 'aff', 'ws': ws, 'b': rng.choice([2 ** 53 + 1, -(2 ** 60) - 1, 7]), 'm': m}
    return {'fam': fam, 'ws': ws, 'm': m}


# ---------------------------------------------------------------- implementation
def run_impl(c):
    import cellpylib as cpl
    if c.get('nomodel'):
        return _run_nomodel(c)
    ca = np.array(c['hist'], dtype=c['dtype'])
    base = twins.ProjView1(c['retview']) if c.get('retview') is not None else make_rule(c['rule'])
    if c['scale'] != 1:
        base = Scaled(base, c['scale'])
    if c.get('scribble'):
        base = Scribble(base)
    if c.get('reentrant'):
        re = c['reentrant']
        memo2 = {'False': False, 'True': True, 'recursive': 'recursive'}[re['memo2']]

        def nested():       # a complete library call of its own: fresh array, fresh rule object
            cpl.evolve(np.array(re['hist2'], dtype=c['dtype']), timesteps=re['T2'], apply_rule=make_rule(re['rule2']),
                       r=re['r2'], memoize=memo2)
        base = twins.Reentrant(base, nested)
    rule = StrictLogged1(base)
    handed = twins.dress(rule, c.get('dress'))      # outermost: the library sees the dressed object, the log is inside
    T = c['T']
    ts = twins.dress_pred(lambda ca_, t: t < T, c.get('pdress')) if c['dyn'] else T
    if c.get('callform'):
        cf = c['callform']
        names = ['cellular_automaton', 'timesteps', 'apply_rule'] + cf['given']
        values = [ca, ts, handed] + [{'r': c['r'], 'memoize': False}[g] for g in cf['given']]
        res = call_impl(lambda: twins.invoke(cpl.evolve, names, values, cf['npos']))
    else:
        res = call_impl(lambda: cpl.evolve(ca, timesteps=ts, apply_rule=handed, r=c['r'], memoize=False))
    if res[0] != 'ok':
        return list(res) + [{'geterr': dict(np.geterr())}]
    out = np.asarray(res[1])
    flat = [float(x) for x in out.ravel().tolist()]
    integral = all(x == x and abs(x) != float('inf') and x == int(x) for x in flat) and rule.exact
    arr = out.tolist() if out.ndim == 2 else None
    if arr is not None and integral:
        arr = [[int(x) for x in row] for row in arr]
    return ['ok', {'array': arr, 'integral': integral, 'shape': [int(s) for s in out.shape], 'dtype': str(out.dtype),
                   'log': [[n, cc, tt] for (n, cc, tt) in rule.log],
                   # the caller's array after the call (compared for the rules that write into their argument)
                   'after': _exact_rows(ca) if c.get('scribble') else None,
                   'geterr': dict(np.geterr())}]


def _exact_rows(a):
    rows = a.tolist()
    if all(float(x) == int(x) for row in rows for x in row):
        return [[int(x) for x in row] for row in rows]
    return rows


def _ccall(e):
    return '(%s, %s, %s)' % (czlist(e[0]), cnat(e[1]), cnat(e[2]))


_CDTYPE = {'int32': 'DInt32', 'int64': 'DInt64', 'uint8': 'DUInt8', 'uint64': 'DUInt64', 'float64': 'DFloat64'}


def _integral_rows(rows):
    return all(isinstance(x, int) or (isinstance(x, float) and x.is_integer()) for row in rows for x in row)


def to_coq(c, obs):
    if c.get('nomodel'):
        return 'CNoModel'
    if obs[0] == 'ok' and (obs[1]['array'] is None or not obs[1]['integral']
                           or (obs[1].get('after') is not None and not _integral_rows(obs[1]['after']))):
        o = '(Raise OtherError)'       # not a 2-D integer-valued array: cannot agree with the model
    elif obs[0] == 'ok':
        lg = '(Some %s)' % clist(obs[1]['log'], _ccall) if c.get('log', True) else 'None'
        after = 'None' if obs[1].get('after') is None else '(Some %s)' % cgrid(obs[1]['after'])
        o = '(Ok (MkObs %s %s %s %s))' % (cgrid(obs[1]['array']), lg, _CDTYPE.get(obs[1]['dtype'], 'DOther'), after)
    else:
        o = cres(obs[:2], str)
    return '(CEvolve %s %s %s %s %s %s %s %s)' % (cbool(c['dyn']), cz(c['scale']), _CDTYPE[c['dtype']], cgrid(c['hist']),
                                                cnat(c['T']), cnat(c['r']), coq_rule_spec(c['rule']), o)


def nontrivial(c, obs):
    return obs[0] == 'ok' and c['T'] >= 2


# ---------------------------------------------------------------- the property's own oracle
def _trunc_div(q, s):
    a = abs(q) // s
    return a if q >= 0 else -a


def _value(rule, i, n, cidx, t):
    """what the rule of the case returns on its i-th call, as an exact integer numerator (over `scale`)"""
    if rule['fam'] == 'script':
        return rule['vs'][i] if i < len(rule['vs']) else 0
    s = sum(w * x for w, x in zip(rule['ws'], n))
    if rule['fam'] == 'linct':
        s += 3 * cidx + 5 * t
    if rule['fam'] == 'aff':
        s += rule['b']
    return s % rule['m']


def oracle(c, obs):
    """the property's sentence on the implementation's output first (a concrete failing input is the better
    report); then the process-wide floating-point error state"""
    msg = _oracle_nomodel(c, obs) if c.get('nomodel') else _oracle_main(c, obs)
    if msg:
        return msg
    ge = (obs[1] if obs[0] == 'ok' else (obs[2] if len(obs) > 2 else {})).get('geterr')
    if ge is not None and ge != DEFAULT_ERR:
        return ('after the call np.geterr() is %s; importing / calling the library must leave the process-wide '
                'floating-point error state at NumPy\'s default %s' % (ge, DEFAULT_ERR))
    return None


def _oracle_main(c, obs):
    """Evaluate the sentence of C01 on what the implementation returned: row t, cell c is the rule's value on
    the window [(c - r + k) mod N] of row t-1 with (c, t), t 1-based; the rule was consulted once per cell,
    ascending, steps ascending; the result has the dtype and the width of the input and extends it."""
    if obs[0] != 'ok':
        return 'evolve raised %s on an input inside the property domain' % obs[1]
    o = obs[1]
    hist, T, r, scale = c['hist'], c['T'], c['r'], c['scale']
    H, N = len(hist), len(hist[0])
    if o['dtype'] != c['dtype']:
        return 'result dtype %s differs from the automaton dtype %s' % (o['dtype'], c['dtype'])
    if o['shape'] != [H + T - 1, N]:
        return 'result shape %s, expected %s' % (o['shape'], [H + T - 1, N])
    if not o['integral']:
        return 'non-integer state in the result or handed to the rule (every row holds integer values here)'
    arr, log = o['array'], o['log']
    if arr[:H] != hist:
        return 'the result does not start with the given history'
    if o.get('after') is not None and o['after'] != hist:
        return "the caller's array was modified by the call"
    if len(log) != N * (T - 1):
        return 'the rule was consulted %d times, expected N*(T-1) = %d' % (len(log), N * (T - 1))
    for t in range(1, T):
        prev, new = arr[H - 1 + t - 1], arr[H - 1 + t]
        for cell in range(N):
            i = (t - 1) * N + cell
            window = [prev[(cell - r + k) % N] for k in range(2 * r + 1)]
            if log[i] != [window, cell, t]:
                return 'call %d received %s, expected %s' % (i, log[i], [window, cell, t])
            want = _value(c['rule'], i, window, cell, t)
            if scale != 1:
                want = _trunc_div(want, scale)
            if new[cell] != want:
                return 'row %d cell %d is %s, the rule value stored is %s' % (H - 1 + t, cell, new[cell], want)
    return None


def shrink(c):
    if c.get('nomodel'):
        return
    hist, T, r = c['hist'], c['T'], c['r']
    N = len(hist[0])

    def rebuild(hist2, T2, r2, rule2=None):
        rule = dict(rule2 or c['rule'])
        N2 = len(hist2[0])
        if rule['fam'] != 'script':
            ws = list(rule['ws'])[:2 * r2 + 1]
            rule['ws'] = ws + [1] * (2 * r2 + 1 - len(ws))
        return dict(c, hist=hist2, T=T2, r=min(r2, N2), rule=rule, log=True)

    if T > 2:
        yield rebuild(hist, T - 1, r)
    if len(hist) > 1:
        yield rebuild(hist[-1:], T, r)
    if c['dyn']:
        yield dict(c, dyn=False, pdress=None)
    if c.get('retview') is not None:
        return          # the view index and the one-hot weights of the model go together: no structural shrinking
    if c.get('reentrant'):
        yield dict(c, reentrant=None)
    if c.get('callform'):
        yield dict(c, callform=None)
    if c.get('scribble'):
        yield dict(c, scribble=False)
    if N > 1:
        yield rebuild([row[:N - 1] for row in hist], T, min(r, N - 1))
        yield rebuild([row[:max(N // 2, 1)] for row in hist], T, min(r, max(N // 2, 1)))
    if r > 1:
        yield rebuild(hist, T, r - 1)
    if c['dtype'] not in ('int64', 'uint8', 'uint64'):
        yield dict(c, dtype='int64')
    if c.get('dress') or c.get('pdress'):
        yield dict(c, dress=None, pdress=None)
    if c['rule']['fam'] != 'script' and c['scale'] == 1:
        yield rebuild(hist, T, r, {'fam': 'script', 'vs': list(range(1, N * (T - 1) + 1))})


# ------------------------------------------------------------------ source tie (appended; harness/translate.py)
# pre(): regenerate coq/gen/GenFuns_C01.v from the Python source of the tree under test and, if it changed, re-prove
# GenProps/GenFunsEquivC01.v, GenProps/C01Src.v and Properties/C01.v (theorem C01_source_tie) by hand.
# extra_checks(): report a failed translation / equivalence proof (theorem names, translator or coqc error).
from harness import translate as _translate
_prev_pre = globals().get('pre')
_prev_extra_checks = globals().get('extra_checks')
TRUSTED = list(globals().get('TRUSTED', [])) + [_translate.TRUSTED_NOTE]
NOTES = list(globals().get('NOTES', [])) + [
    'coq/gen/GenFuns_C01.v is regenerated from the Python source at the start of every run; theorem C01_source_tie '
    'proves the regenerated definitions equal to the hand-written model for all inputs']


def pre(ctx):
    if _prev_pre is not None:
        _prev_pre(ctx)
    _translate.pre_hook(ctx, 'C01')


def extra_checks(ctx):
    out = list(_prev_extra_checks(ctx)) if _prev_extra_checks is not None else []
    return out + _translate.extra_hook(ctx, 'C01')
