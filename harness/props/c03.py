"""C03 — 1D memoisation is transparent: correspondence generators, runner, Coq emitter, oracle.

A case is a list of evolve calls made back to back in ONE run_impl invocation (one process);
most cases hold one call.  A call is
  {'rule': {'fam': 'lin', 'ws': [...], 'm': k}, 'memo': <form>, 'r': r, 'hist': rows, 'dtype': ..,
   'ts': ['fixed', T] | ['lt', k]}
where <form> names how the option value is built (see MEMO_FORMS).  The generators are shared with
C09 (harness/props/c09.py imports them)."""
import numpy as np
from harness.driver import call_impl, cz, cnat, czlist, cgrid, clist, cres
from harness.twins import (Logged1, make_rule, coq_rule_spec, PredLt, dress, RULE_DRESSINGS, ProjView1, Reentrant,
                           Scribble, invoke)

ID = 'C03'
COQ_IMPORTS = ('From Coq Require Import String.\n'
               'From CPL Require Import Model.Base Model.Rules Model.Engine Model.Evolve1D Model.Memo1D Corr.C03.\n'
               'Open Scope Z_scope.')
NONTRIVIAL_RULE = ('non-trivial = every call of the case returned an array and at least one memoised call '
                   '(True or "recursive") answered at least one cell from its cache (rule calls < N*(T-1)); '
                   'distinct = distinct case dicts')
EXHAUSTIVE = {'quick': False, 'thorough': False}
ASSUMPTIONS = ['rules are pure (Lin: sum(w_i * n_i) mod k; Aff: (sum(w_i * n_i) + b) mod k, b != 0, one third of the cases) and their '
               'results fit the automaton dtype (store = identity)',
               'float automata carry integer-valued floats',
               'r outside 1..N and timesteps = 0 are outside the property and are not generated',
               'rule results outside the dtype range: bucket outofrange/* only, not compared with the model (open finding cast-path)',
               'an unsupported option value must be rejected only when at least one step is attempted (the option is '
               'examined inside the loop body); any exception class counts as rejection']
TRUSTED = ['Python twins Lin1 / Aff1 / Logged1 / PredLt / ProjView1 / Scribble / Reentrant, twins.invoke and the shape-only '
           'wrappers twins.dress of harness/twins.py; BlankCentre / SortThenRank of harness/props/c03.py']

# hit-rate bookkeeping, reported through NOTES (the driver reads NOTES after the run)
_STATS = {'True': [0, 0], 'recursive': [0, 0]}     # mode -> [rule calls, cells computed]
NOTES = ['every (N, r) with 1 <= r <= N <= 9 and every T in 1..6 is enumerated in all three modes; quick: alphabet, '
         'fixed/callable and the shape of the initial row cycle; thorough: crossed completely',
         'cache hit rate: (filled in by the run)',
         'retview/*: twins.ProjView1 (the rule returns a 0-d VIEW of its neighbourhood; model = one-hot Lin mod 7, cells 0..4), '
         'T in 4..6; inplace/blank, inplace/scribble<fill>: rules that write into their argument (BlankCentre: model Lin; '
         'twins.Scribble over Lin/Aff with fill 0, 1, 2, 77: model = inner rule), all three modes, N not a power of two, r up '
         'to N; inplace/sortrank is decided by the Python oracle alone (SortThenRank has no Coq twin: the three modes are '
         'compared with a reference ring update computed in the harness; Coq term = CNotCompared); reentrant/*: '
         'twins.Reentrant, the rule runs a memoised cpl.evolve with another rule on the same N, r, dtype and row before and '
         'after computing its value; callform/pos<k>/*: twins.invoke with k positional arguments, the rest by keyword',
         'dress/<how>/*: every shape of twins.RULE_DRESSINGS is applied outermost to the logging twin (>= 6 cases each, the '
         'four user-subclass shapes sub:BaseRule / sub:NKSRule / sub:BinaryRule / sub:TotalisticRule >= 12), memoize=True and '
         '"recursive", fixed and callable, N in {3,5,6,7,9,10,11,13}, r up to N, rules whose weights differ mod k so that '
         'equal-sum neighbourhoods map to different values; objdtype/*: dtype=object rows of Python ints (small, and beyond '
         '2**64 with moduli beyond 2**64), three modes, fixed and callable',
         'float/signed_zero is decided by the Python oracle alone (the Z-valued model cannot express -0.0; its Coq case is the '
         'always-true CNotCompared): float64 / float32 automata over {0.0, -0.0, 1.0}, r = 1..2, T = 3..5, three pure rules that '
         'observe the sign of a zero (two of them return -0.0, so later rows keep signed zeros), fixed and callable timesteps; '
         'memoize=False, True and a non-interned "recursive" must return bit-identical arrays (tobytes(), dtype, shape)',
         'call sequences: history/* build a rule object per call (history/dtypes shares one); shared/* pass ONE rule object '
         'to all 2-5 calls, which differ in radius (both orders), dtype (int8 <-> uint8 on aliasing bytes, int32 <-> int64), '
         'memoize mode, on identical or overlapping rows; more than half of all sequences share the object']

DTYPES = ['int64', 'int32', 'uint8', 'float64']      # gen_shared also uses int8 (bytes aliasing uint8)
BIASES = ['periodic', 'sparse', 'constant', 'random']

# how the value passed as `memoize` is built, and its Coq counterpart
MEMO_FORMS = {
    'literal': (lambda: 'recursive', '(PStr "recursive"%string)'),
    'join': (lambda: ''.join(['recur', 'sive']), '(PStr "recursive"%string)'),        # equal, not interned
    'bytes': (lambda: str(b'recursive', 'ascii'), '(PStr "recursive"%string)'),       # equal, not interned
    'true': (lambda: True, '(PBool true)'),
    'false': (lambda: False, '(PBool false)'),
    'int1': (lambda: 1, '(PInt 1)'),
    'int0': (lambda: 0, '(PInt 0)'),
    'capital': (lambda: 'Recursive', '(PStr "Recursive"%string)'),
    'empty': (lambda: '', '(PStr ""%string)'),
    'truestr': (lambda: 'True', '(PStr "True"%string)'),
    'none': (lambda: None, 'PNone'),
    # NumPy / subclass values: selected by VALUE too (evolve converts np.bool_ to bool first: fix 751b55b).
    # The model has no separate constructor for np.bool_: np.True_ / np.False_ are emitted as PBool.
    'np_true': (lambda: (np.arange(3) > 0).any(), '(PBool true)'),
    'np_false': (lambda: (np.arange(3) > 5).any(), '(PBool false)'),
    'np_true_lit': (lambda: np.True_, '(PBool true)'),
    'np_false_lit': (lambda: np.bool_(0), '(PBool false)'),
    'np_str': (lambda: np.str_('recursive'), '(PStr "recursive"%string)'),
    'str_subclass': (lambda: _StrSub('recur' + 'sive'), '(PStr "recursive"%string)'),
    'np_int1': (lambda: np.int64(1), '(PInt 1)'),                 # an integer, not a boolean: rejected
    'np_str_capital': (lambda: np.str_('Recursive'), '(PStr "Recursive"%string)'),
}
MODE_FORM = {'plain': 'false', 'memo': 'true', 'recursive': 'literal'}
VALID = {'literal': 'recursive', 'join': 'recursive', 'bytes': 'recursive', 'true': 'True', 'false': 'False',
         'np_true': 'True', 'np_false': 'False', 'np_true_lit': 'True', 'np_false_lit': 'False',
         'np_str': 'recursive', 'str_subclass': 'recursive'}
PLAIN_FORMS = ('false', 'np_false', 'np_false_lit')


class _StrSub(str):
    """a str subclass: equal to 'recursive' by value, a different type and object"""


# ---------------------------------------------------------------- generators (shared with C09)
def init_row(rng, N, k, bias):
    if bias == 'constant':
        return [rng.randrange(k)] * N
    if bias == 'sparse':
        row = [0] * N
        for _ in range(rng.choice([1, 1, 2])):
            row[rng.randrange(N)] = rng.randrange(1, k)
        return row
    if bias == 'periodic':
        p = rng.choice([1, 2, 2, 3, 4])
        motif = [rng.randrange(k) for _ in range(p)]
        return [motif[i % p] for i in range(N)]
    return [rng.randrange(k) for _ in range(N)]


def pure_rule(rng, r, k, width=None):
    """a pure rule over `width` (default 2r+1) weights: two thirds Lin (sum(w*x) mod k), one third Aff
    ((sum(w*x) + b) mod k with b != 0 mod k, so that the all-zero neighbourhood does not map to 0)"""
    ws = [rng.randint(-2, 3) for _ in range(width or 2 * r + 1)]
    if all(w % k == 0 for w in ws[:3]):
        ws[rng.randrange(min(3, len(ws)))] = 1
    if rng.randrange(3) == 0:
        return {'fam': 'aff', 'ws': ws, 'b': rng.randrange(1, k), 'm': k}
    return {'fam': 'lin', 'ws': ws, 'm': k}


lin_rule = pure_rule


def mk_call(rng, N, r, T, k, memo, dyn, bias, dtype='int64', H=1, rule=None):
    hist = [[rng.randrange(k) for _ in range(N)] for _ in range(H - 1)] + [init_row(rng, N, k, bias)]
    return {'rule': rule or lin_rule(rng, r, k), 'memo': memo, 'r': r, 'hist': hist, 'dtype': dtype,
            'ts': ['lt', T] if dyn else ['fixed', T]}


def gen_sweep(rng, tier):
    """(a) every (N, r, T) in all three modes"""
    i = rng.randrange(16)
    for N in range(1, 10):
        for r in range(1, N + 1):
            for T in range(1, 7):
                for mode in ('plain', 'memo', 'recursive'):
                    if tier == 'quick':
                        i += 1
                        combos = [(2 + i % 2, (i // 2) % 2 == 1, BIASES[(i // 4) % 4])]
                    else:
                        combos = [(k, dyn, b) for k in (2, 3) for dyn in (False, True) for b in BIASES]
                    for k, dyn, bias in combos:
                        yield {'kind': 'sweep/%s/%s' % (mode, 'callable' if dyn else 'fixed'),
                               'calls': [mk_call(rng, N, r, T, k, MODE_FORM[mode], dyn, bias)]}


def gen_random(rng, tier):
    """larger rings, radius up to N, histories longer than one row, all dtypes"""
    n = 300 if tier == 'quick' else 4000
    for _ in range(n):
        N = rng.randint(10, 33) if rng.random() < 0.7 else rng.randint(1, 9)
        p = rng.random()
        r = rng.randint(1, min(N, 3)) if p < 0.6 else (rng.choice([N, max(N - 1, 1), (N + 1) // 2]) if p < 0.8 else rng.randint(1, N))
        if N > 12 and r > 6:
            r = rng.randint(1, 6)
        T = rng.choice([2, 3, 4, 5, 6, 8])
        mode = rng.choice(['memo', 'recursive', 'recursive'])
        yield {'kind': 'random/%s' % mode,
               'calls': [mk_call(rng, N, r, T, rng.choice([2, 3]), MODE_FORM[mode], rng.random() < 0.3,
                                 rng.choice(BIASES), rng.choice(DTYPES), rng.randint(1, 3))]}


def gen_options(rng, tier):
    """(b) the option is selected by value"""
    reps = 6 if tier == 'quick' else 40
    for form in MEMO_FORMS:
        for j in range(reps):
            N = rng.randint(1, 8)
            r = rng.randint(1, N)
            T = [2, 3, 1, 4, 2, 5][j % 6]         # T = 1: no step is attempted, nothing is rejected
            yield {'kind': 'option/%s' % form,
                   'calls': [mk_call(rng, N, r, T, rng.choice([2, 3]), form, j % 3 == 2, rng.choice(BIASES))]}


def gen_histories(rng, tier):
    """(c) 2-5 evolve calls back to back: different rules on overlapping states, same rule on different dtypes"""
    n = 250 if tier == 'quick' else 2500
    for j in range(n):
        ncalls = rng.randint(2, 5)
        N = rng.randint(1, 9)
        r = rng.randint(1, min(N, 3))
        k = rng.choice([2, 3])
        T = rng.randint(2, 5)
        mode = rng.choice(['memo', 'recursive'])
        flavour = ['rules', 'dtypes', 'mixed'][j % 3]
        base = mk_call(rng, N, r, T, k, MODE_FORM[mode], False, rng.choice(BIASES))
        calls = [base]
        for _ in range(ncalls - 1):
            c = dict(base)
            if flavour == 'rules':
                # a different rule on the same (or a one-cell-changed) state: a cache surviving the
                # previous call would answer with the other rule's values
                c['rule'] = lin_rule(rng, r, k)
                if rng.random() < 0.4:
                    row = list(base['hist'][-1])
                    row[rng.randrange(N)] = rng.randrange(k)
                    c['hist'] = base['hist'][:-1] + [row]
            elif flavour == 'dtypes':
                c['dtype'] = rng.choice(DTYPES)
                if rng.random() < 0.3:
                    c['rule'] = lin_rule(rng, r, k)
                    c.pop('obj', None)
                else:
                    base['obj'] = c['obj'] = 0       # the same rule OBJECT as the first call
            else:
                c = mk_call(rng, N, r, rng.randint(2, 5), k, MODE_FORM[rng.choice(['memo', 'recursive', 'plain'])],
                            rng.random() < 0.3, rng.choice(BIASES), rng.choice(DTYPES),
                            rule=(base['rule'] if rng.random() < 0.5 else None))
                if rng.random() < 0.5:
                    c['hist'] = base['hist']
            calls.append(c)
        yield {'kind': 'history/%s/%d' % (flavour, ncalls), 'calls': calls}


def _alias_rows(rng, N):
    """the same bytes read as int8 and as uint8: -1 / 255, -2 / 254, and small non-negative values"""
    signed = [rng.choice([-1, -1, -2, 0, 1, 2]) for _ in range(N)]
    if all(v >= 0 for v in signed):
        signed[rng.randrange(N)] = -1
    return signed, [v % 256 for v in signed]


def gen_shared(rng, tier):
    """(c') 2-5 evolve calls back to back that are all given ONE rule object (key 'obj'), consecutive calls
    differing in the radius (larger then smaller and vice versa), in the dtype (int8 <-> uint8 on states whose
    bytes alias, int32 <-> int64) and / or in the memoize mode, on identical or overlapping initial states.
    The model of each call is unchanged (fresh cache per call): anything that survives a call and is found
    again through the rule object, the radius, the mode or the key bytes shows up as a disagreement."""
    n = 320 if tier == 'quick' else 3000
    flavours = ['radius', 'alias8', 'width3264', 'mode', 'repeat', 'mixed']
    for j in range(n):
        flavour = flavours[j % len(flavours)]
        ncalls = rng.randint(2, 5)
        N = rng.randint(2, 12)
        k = rng.choice([3, 5]) if flavour in ('alias8', 'mixed') else rng.choice([2, 3])
        rmax = min(N, 4)
        radii = [rng.randint(1, rmax) for _ in range(ncalls)]
        if flavour == 'radius':
            a, b = rng.sample(range(1, rmax + 1), 2) if rmax >= 2 else (1, 1)
            radii = [(a, b)[i % 2] for i in range(ncalls)]          # larger then smaller, or the reverse
        elif flavour != 'mixed':
            radii = [radii[0]] * ncalls
        rule = pure_rule(rng, max(radii), k, width=2 * max(radii) + 1)   # the twin reads the first 2r+1 weights
        T = rng.randint(2, 6)
        modes = [rng.choice(['memo', 'recursive'])] * ncalls
        if flavour in ('mode', 'mixed'):
            modes = [rng.choice(['memo', 'recursive', 'recursive', 'plain']) for _ in range(ncalls)]
        elif flavour == 'radius':
            modes = [rng.choice(['recursive', 'recursive', 'memo'])] * ncalls
        base_row = init_row(rng, N, k if flavour != 'alias8' else 2, rng.choice(BIASES))
        signed, unsigned = _alias_rows(rng, N)
        calls = []
        for i in range(ncalls):
            row, dtype = list(base_row), 'int64'
            if flavour == 'alias8' or (flavour == 'mixed' and rng.random() < 0.4):
                first_signed = (j // len(flavours)) % 2 == 0
                if (i % 2 == 0) == first_signed:
                    row, dtype = list(signed), 'int8'
                else:
                    row, dtype = list(unsigned), 'uint8'
            elif flavour == 'width3264' or (flavour == 'mixed' and rng.random() < 0.4):
                dtype = ('int32', 'int64')[(i + j) % 2]
                if dtype == 'int32' and rng.random() < 0.5:
                    # an int32 row whose bytes are those of the int64 row (little endian: value, 0, value, 0, ..)
                    row = [v for x in base_row for v in (x, 0)]
            if flavour in ('radius', 'mode', 'mixed') and i > 0 and rng.random() < 0.4:
                row[rng.randrange(len(row))] = rng.randrange(k)      # overlapping, not identical
            r = min(radii[i], len(row))
            calls.append({'rule': rule, 'memo': MODE_FORM[modes[i]], 'r': r, 'hist': [row], 'dtype': dtype,
                          'ts': ['lt', T] if rng.random() < 0.2 else ['fixed', T if flavour != 'mixed' else rng.randint(2, 6)],
                          'obj': 0})
        yield {'kind': 'shared/%s/%d' % (flavour, ncalls), 'calls': calls}


def gen_outofrange(rng, tier):
    """OPEN finding 'cast-path' (known_findings.json): pure rules whose results are not representable in the
    automaton's dtype.  The three modes store through different NumPy casts (array assignment wraps, scalar
    assignment of a Python int raises), so they are not required to agree with the model (nothing is compared in
    Coq); oracle() reports when the memoised modes differ from memoize=False, and the driver turns exactly these
    cases (key 'finding') into KNOWN-FINDING lines."""
    n = 20 if tier == 'quick' else 120
    for j in range(n):
        dtype = ('uint8', 'int8')[j % 2]
        N = rng.randint(3, 8)
        r = rng.randint(1, min(N, 2))
        T = rng.randint(2, 4)
        row = [rng.randint(1, 4) for _ in range(N)]
        if j % 4 < 2:       # below the range: sum - b is negative for small sums (and < -128 for int8)
            rule = {'fam': 'sumoff', 'ws': [1] * (2 * r + 1), 'b': -(7 + 4 * (r - 1)) - (140 if dtype == 'int8' else 0)}
        else:               # above the range
            rule = {'fam': 'sumoff', 'ws': [rng.randint(40, 90) for _ in range(2 * r + 1)], 'b': rng.randint(0, 9)}
        if j == 0:          # the recorded input: uint8 [[1,2,3,4]], n[0]+n[1]+n[2]-7, r=1, T=3
            dtype, N, r, T, row, rule = 'uint8', 4, 1, 3, [1, 2, 3, 4], {'fam': 'sumoff', 'ws': [1, 1, 1], 'b': -7}
        calls = [{'rule': rule, 'memo': MODE_FORM[m], 'r': r, 'hist': [row], 'dtype': dtype, 'ts': ['fixed', T]}
                 for m in ('plain', 'memo', 'recursive')]
        yield {'kind': 'outofrange/%s' % dtype, 'finding': 'cast-path', 'calls': calls}


SZ_RULES = ('copysign_centre', 'copysign_sum', 'flip_zero')


class SignRule:
    """pure rules on float neighbourhoods that observe the SIGN of a zero (bucket float/signed_zero; no Coq twin)"""
    def __init__(self, name, r):
        self.name, self.r, self.ncalls = name, r, 0

    def __call__(self, nbhd_arg, cell_arg, step_arg):
        n = [float(x) for x in np.asarray(nbhd_arg).ravel()]     # positional parameters, not named (n, c, t)
        self.ncalls += 1
        sg = [1.0 if np.copysign(1.0, x) > 0 else -1.0 for x in n]
        if self.name == 'copysign_centre':         # +1.0 / -1.0 -> stored as 1.0 / -0.0 so that later rows keep signed zeros
            return 1.0 if sg[self.r] > 0 else -0.0
        if self.name == 'copysign_sum':            # number of negative signs selects 0.0 / -0.0 / 1.0
            return (0.0, -0.0, 1.0)[sum(1 for x in sg if x < 0) % 3]
        # flip_zero: a zero centre changes its sign when its left neighbour is negative-signed; others copy the right sign
        c = n[self.r]
        if c == 0.0:
            return -c if sg[self.r - 1] < 0 else c
        return 0.0 if sg[self.r + 1] > 0 else -0.0


def gen_signed_zero(rng, tier):
    """ORACLE-ONLY bucket: float automata over {0.0, -0.0, 1.0} and pure rules that see the sign of a zero.  The
    Z-valued model cannot express -0.0, so nothing is compared in Coq; oracle() requires the arrays of the three
    modes to be bit-identical (tobytes()).  Neighbourhoods that differ only in the sign of a zero are different
    byte strings, hence different cache keys."""
    n = 60 if tier == 'quick' else 600
    for j in range(n):
        N = rng.randint(5, 14)
        r = 1 + j % 2
        row = [rng.choice([0.0, -0.0, 0.0, -0.0, 1.0]) for _ in range(N)]
        if not any(x == 0.0 and np.copysign(1.0, x) < 0 for x in row):
            row[rng.randrange(N)] = -0.0
        yield {'kind': 'float/signed_zero', 'oracle_only': 'signed_zero', 'dtype': ('float64', 'float32')[(j // 2) % 2],
               'row': row, 'r': r, 'T': rng.randint(3, 5), 'dyn': (j // 4) % 2 == 1, 'rule': SZ_RULES[j % 3]}


def asym_rule(rng, r, k):
    """a pure Lin / Aff rule whose weights are NOT all congruent mod k: two neighbourhoods with the same sum of
    cells (a permutation of one another) map to different values, so a cache keyed more coarsely than by the
    contents (by the sum, by the multiset, ...) returns a wrong value"""
    w = 2 * r + 1
    ws = [rng.randint(0, 2 * k) for _ in range(w)]
    i, j = rng.sample(range(w), 2)
    ws[i], ws[j] = 1, 0
    if rng.randrange(3) == 0:
        return {'fam': 'aff', 'ws': ws, 'b': rng.randrange(1, k), 'm': k}
    return {'fam': 'lin', 'ws': ws, 'm': k}


def gen_dress(rng, tier):
    """(d) the SHAPE of the rule callable (twins.dress, applied outermost: what evolve receives is a *args function,
    a partial, a bound method, an instance of a user subclass of BaseRule / NKSRule / BinaryRule / TotalisticRule whose
    __call__ is overridden, a rule returning a 0-d array / NumPy scalar / Python int, ...).  The behaviour is that of
    the twin inside; the Coq side ignores the dressing.  memoize=True and 'recursive', fixed and callable timesteps,
    rings that are not powers of two, radii up to N, rules that tell equal-sum neighbourhoods apart."""
    mult = 1 if tier == 'quick' else 6
    sizes = [3, 5, 6, 7, 9, 10, 11, 13]
    for how in RULE_DRESSINGS:
        n = (12 if how.startswith('sub:') else 6) * mult
        for i in range(n):
            mode = ('memo', 'recursive')[i % 2]
            dyn = (i // 2) % 2 == 1
            N = sizes[(i + rng.randrange(len(sizes))) % len(sizes)]
            r = rng.choice([N, N - 1]) if i % 6 == 5 else rng.randint(1, min(N, 3))
            if N > 7 and r > 4:
                r = 4
            k = 2 + (i // 4) % 2
            call = mk_call(rng, N, r, rng.randint(3, 5), k, MODE_FORM[mode], dyn, 'random', rule=asym_rule(rng, r, k))
            call['dress'] = how
            yield {'kind': 'dress/%s/%s/%s' % (how, mode, 'callable' if dyn else 'fixed'), 'calls': [call]}


def gen_objdtype(rng, tier):
    """(e) dtype=object automata holding Python ints, small and beyond 64 bits ("every dtype"): all three modes,
    fixed and callable timesteps.  The twins read object cells exactly (exact_int on Python ints); the moduli of the
    'big' cases exceed 2**64, so every later row holds big ints too."""
    n = 36 if tier == 'quick' else 240
    for j in range(n):
        mode = ('plain', 'memo', 'recursive')[j % 3]
        dyn = (j // 3) % 2 == 1
        big = (j // 6) % 2 == 1
        N = rng.randint(2, 9)
        r = rng.randint(1, min(N, 3))
        T = rng.randint(2, 5)
        H = rng.randint(1, 2)
        if big:
            m = 2 ** 64 + rng.choice([13, 2 ** 20 + 7, 2 ** 66, 2 ** 64])
            cell = lambda: rng.choice([0, 1, 2 ** 64 + rng.randint(0, 5), 2 ** 70, -(2 ** 65) - 1, rng.randint(0, 3), 2 ** 64])
            ws = [rng.choice([0, 1, 2, 3, 2 ** 33]) for _ in range(2 * r + 1)]
            ws[rng.randrange(len(ws))] = 1
        else:
            m = rng.choice([2, 3, 5])
            cell = lambda: rng.randrange(m)
            ws = [rng.randint(-2, 3) for _ in range(2 * r + 1)]
            ws[rng.randrange(len(ws))] = 1
        rule = {'fam': 'lin', 'ws': ws, 'm': m} if j % 4 else {'fam': 'aff', 'ws': ws, 'b': 1 + (2 ** 65 if big else 0), 'm': m}
        hist = [[cell() for _ in range(N)] for _ in range(H)]
        yield {'kind': 'objdtype/%s/%s/%s' % ('big' if big else 'small', mode, 'callable' if dyn else 'fixed'),
               'calls': [{'rule': rule, 'memo': MODE_FORM[mode], 'r': r, 'hist': hist, 'dtype': 'object',
                          'ts': ['lt', T] if dyn else ['fixed', T]}]}


# ---- round 6: rules that hand back views, write into their argument, or re-enter the library
SIZES_NP2 = [3, 5, 6, 7, 9, 10, 11, 12, 13]        # rings that are not powers of two


class BlankCentre:
    """pure rule that WRITES INTO its argument: reads the centre, sets n[mid] = 0 in place, then returns
    (wc * centre + sum(w_i * n_i over the blanked neighbourhood)) mod m.  As a function of the ORIGINAL contents this
    is Lin ws m (ws[mid] = wc): that is the model side."""
    def __init__(self, ws, m):
        self.ws, self.m = list(ws), m

    def __call__(self, nbhd_arg, cell_arg, step_arg):
        mid = len(nbhd_arg) // 2
        centre = int(nbhd_arg[mid])
        nbhd_arg[mid] = 0
        rest = sum(w * int(x) for i, (w, x) in enumerate(zip(self.ws, nbhd_arg)))     # the centre now contributes 0
        return (self.ws[mid] * centre + rest) % self.m


class SortThenRank:
    """pure rule that WRITES INTO its argument: reads the centre, sorts the neighbourhood in place and returns the
    rank of the centre in it = the number of cells of the ORIGINAL neighbourhood smaller than its centre (no Coq
    twin: bucket inplace/sortrank is decided by the Python oracle against a reference computed in the harness)"""
    def __call__(self, nbhd_arg, cell_arg, step_arg):
        centre = nbhd_arg[len(nbhd_arg) // 2].item()
        nbhd_arg.sort()
        return int(np.searchsorted(nbhd_arg, centre, side='left'))


def gen_retview(rng, tier):
    """(f) rules that return a ZERO-DIMENSIONAL VIEW of their neighbourhood (twins.ProjView1): a result kept in a memo
    table aliases the neighbourhood's memory; if that memory is re-used for later steps the cached value changes.
    Model side: one-hot Lin with modulus 7 above every cell value (cells in 0..4).  T >= 4 so that hits come after
    the neighbourhoods of later steps have been gathered."""
    n = 28 if tier == 'quick' else 280
    for i in range(n):
        mode = ('memo', 'memo', 'recursive', 'plain')[i % 4]
        dyn = (i // 4) % 2 == 1
        N = SIZES_NP2[(i * 2 + rng.randrange(3)) % len(SIZES_NP2)]
        r = N if i % 7 == 6 and N <= 7 else rng.randint(1, min(N, 3))
        k = rng.randrange(2 * r + 1)
        ws = [1 if j == k else 0 for j in range(2 * r + 1)]
        call = mk_call(rng, N, r, rng.randint(4, 6), 5, MODE_FORM[mode], dyn, rng.choice(['random', 'periodic', 'random']),
                       rule={'fam': 'lin', 'ws': ws, 'm': 7})
        call['wrap'] = {'kind': 'projview', 'k': k}
        yield {'kind': 'retview/%s/%s' % (mode, 'callable' if dyn else 'fixed'), 'calls': [call]}


def gen_inplace(rng, tier):
    """(g) pure rules that write into their neighbourhood argument before / while / after computing: every rule call
    must be given its own copy, and a cache key must be the contents the rule was GIVEN.  blank (BlankCentre, model Lin),
    scribble (twins.Scribble over Lin / Aff with fill 0, 1, 2, 77, model = the inner rule), sortrank (SortThenRank,
    oracle-only).  All three modes, rings that are not powers of two, r up to N."""
    mult = 1 if tier == 'quick' else 8
    for i in range(18 * mult):
        mode = ('plain', 'memo', 'recursive')[i % 3]
        dyn = (i // 3) % 2 == 1
        N = SIZES_NP2[(i + rng.randrange(4)) % len(SIZES_NP2)]
        r = rng.choice([N, N - 1]) if i % 6 == 5 and N <= 7 else rng.randint(1, min(N, 3))
        k = rng.choice([3, 4])
        rule = asym_rule(rng, r, k)
        if rule['fam'] != 'lin':
            rule = {'fam': 'lin', 'ws': rule['ws'], 'm': k}
        rule['ws'][r] = rng.randrange(1, k)                      # the centre, read before it is blanked, matters
        call = mk_call(rng, N, r, rng.randint(3, 5), k, MODE_FORM[mode], dyn, rng.choice(BIASES), rule=rule)
        call['wrap'] = {'kind': 'blank'}
        yield {'kind': 'inplace/blank/%s' % mode, 'calls': [call]}
    for i in range(24 * mult):
        mode = ('plain', 'memo', 'recursive', 'recursive')[i % 4]
        dyn = (i // 4) % 2 == 1
        N = SIZES_NP2[(i + rng.randrange(4)) % len(SIZES_NP2)]
        r = rng.choice([N, N - 1]) if i % 8 == 7 and N <= 7 else rng.randint(1, min(N, 3))
        k = rng.choice([2, 3])
        fill = (0, 1, 0, 2, 77, 0)[i % 6]
        call = mk_call(rng, N, r, rng.randint(3, 5), k, MODE_FORM[mode], dyn, rng.choice(['sparse', 'random', 'periodic']),
                       rule=asym_rule(rng, r, k))
        call['wrap'] = {'kind': 'scribble', 'fill': fill}
        yield {'kind': 'inplace/scribble%d/%s' % (fill, mode), 'calls': [call]}
    for i in range(18 * mult):
        N = SIZES_NP2[(i + rng.randrange(4)) % len(SIZES_NP2)]
        r = rng.choice([N, N - 1]) if i % 6 == 5 and N <= 7 else rng.randint(1, min(N, 3))
        yield {'kind': 'inplace/sortrank', 'oracle_only': 'sortrank', 'row': [rng.randrange(4) for _ in range(N)], 'r': r,
               'T': rng.randint(3, 6), 'dyn': i % 2 == 1, 'dtype': ('int64', 'int32', 'uint8')[i % 3]}


def gen_reentrant(rng, tier):
    """(h) rules that call the library themselves (twins.Reentrant): before and after computing its value the rule runs a
    complete MEMOISED cpl.evolve on the same ring size, radius, dtype and initial row with ANOTHER pure rule.  Tables or
    scratch buffers that are not local to one call would be filled with the other rule's values.  Model = the inner rule."""
    n = 18 if tier == 'quick' else 120
    for i in range(n):
        mode = ('plain', 'memo', 'recursive')[i % 3]
        dyn = (i // 3) % 2 == 1
        N = [3, 5, 6, 7][(i + rng.randrange(4)) % 4]
        r = rng.randint(1, min(N, 2))
        k = rng.choice([2, 3])
        call = mk_call(rng, N, r, rng.randint(3, 4), k, MODE_FORM[mode], dyn, rng.choice(BIASES), rule=asym_rule(rng, r, k))
        call['wrap'] = {'kind': 'reentrant', 'rule2': asym_rule(rng, r, k), 'memo2': ('true', 'join', 'true', 'literal')[i % 4],
                        'T2': rng.randint(2, 3)}
        yield {'kind': 'reentrant/%s/%s' % (mode, 'callable' if dyn else 'fixed'), 'calls': [call]}


def gen_callform(rng, tier):
    """(i) the same call written with 0, 2, 3, 4 or 5 positional arguments, the rest by keyword (twins.invoke); the
    memoize strings are built at run time"""
    reps = 1 if tier == 'quick' else 6
    for _ in range(reps):
        for npos in (0, 2, 3, 4, 5):
            for memo in ('false', 'true', 'join', 'bytes', 'np_true', 'str_subclass'):
                N = rng.choice(SIZES_NP2)
                r = rng.randint(1, min(N, 3))
                k = rng.choice([2, 3])
                call = mk_call(rng, N, r, rng.randint(2, 5), k, memo, rng.random() < 0.4, rng.choice(BIASES),
                               rule=asym_rule(rng, r, k))
                call['npos'] = npos
                yield {'kind': 'callform/pos%d/%s' % (npos, VALID[memo]), 'calls': [call]}


def generate(rng, tier):
    yield from gen_retview(rng, tier)
    yield from gen_inplace(rng, tier)
    yield from gen_reentrant(rng, tier)
    yield from gen_callform(rng, tier)
    yield from gen_dress(rng, tier)
    yield from gen_objdtype(rng, tier)
    yield from gen_outofrange(rng, tier)
    yield from gen_signed_zero(rng, tier)
    yield from gen_sweep(rng, tier)
    yield from gen_options(rng, tier)
    yield from gen_histories(rng, tier)
    yield from gen_shared(rng, tier)
    yield from gen_random(rng, tier)


# ---------------------------------------------------------------- implementation
def _to_int_rows(out):
    out = np.asarray(out)
    if out.ndim != 2:
        return None
    rows = out.tolist()
    try:
        # Python ints (object-dtype automata, possibly beyond 64 bits) are exact as they are; everything else must
        # be integer-valued
        if not all(isinstance(x, int) or float(x) == int(x) for row in rows for x in row):
            return None
    except (ValueError, OverflowError, TypeError):
        return None
    return [[int(x) for x in row] for row in rows]


class SumOff:
    """sum(w*x) + b as a Python int, no modulus: leaves the dtype range (bucket outofrange/* only; no Coq twin)"""
    def __init__(self, ws, b):
        self.ws, self.b = ws, b

    def __call__(self, nbhd_arg, cell_arg, step_arg):

        n, c, t = nbhd_arg, cell_arg, step_arg   # not named (n, c, t): the library must call rules positionally
        return sum(w * int(x) for w, x in zip(self.ws, np.asarray(n).ravel())) + self.b


def _make_rule(spec):
    if spec['fam'] == 'sumoff':
        return SumOff(list(spec['ws']), spec['b'])
    return make_rule(spec)


def _build_twin(cpl, call):
    """the Python rule of a call: the family twin of call['rule'], or what call['wrap'] says (the Coq side always
    uses call['rule'])"""
    w = call.get('wrap')
    if not w:
        return _make_rule(call['rule'])
    if w['kind'] == 'projview':
        return ProjView1(w['k'])
    if w['kind'] == 'scribble':
        return Scribble(_make_rule(call['rule']), w['fill'])
    if w['kind'] == 'blank':
        return BlankCentre(call['rule']['ws'], call['rule']['m'])
    if w['kind'] == 'reentrant':
        other = make_rule(w['rule2'])

        def nested():
            ca2 = np.array(call['hist'][-1:], dtype=call['dtype'])
            cpl.evolve(ca2, timesteps=w['T2'], apply_rule=other, r=call['r'], memoize=MEMO_FORMS[w['memo2']][0]())
        return Reentrant(_make_rule(call['rule']), nested)
    raise ValueError(w)


EVOLVE_PARAMS = ['cellular_automaton', 'timesteps', 'apply_rule', 'r', 'memoize']


def run_call(cpl, call, memo_value, rule=None):
    """one evolve call on the implementation; `rule` = an existing Logged1 object to pass again (its log is
    sliced), or None for a fresh one.  Returns (obs, number of rule calls of THIS call, their log)"""
    ca = np.array(call['hist'], dtype=call['dtype'])
    if rule is None:
        rule = Logged1(_build_twin(cpl, call))
    start = len(rule.log)
    kind, T = call['ts']
    ts = PredLt(T) if kind == 'lt' else T
    # the dressing (shape of the callable only) goes outermost: it is what evolve receives; the logging twin is inside
    fn = dress(rule, call.get('dress'))
    if 'npos' in call:     # the same call with call['npos'] positional arguments and the rest by keyword
        res = call_impl(lambda: invoke(cpl.evolve, EVOLVE_PARAMS, [ca, ts, fn, call['r'], memo_value], call['npos']))
    else:
        res = call_impl(lambda: cpl.evolve(ca, timesteps=ts, apply_rule=fn, r=call['r'], memoize=memo_value))
    log = rule.log[start:]
    if res[0] != 'ok':
        return list(res), len(log), log
    return ['ok', _to_int_rows(res[1])], len(log), log


def _run_signed_zero(cpl, c):
    obs = []
    for memo in (False, True, ''.join(['recur', 'sive'])):
        ca = np.array([c['row']], dtype=c['dtype'])
        rule = SignRule(c['rule'], c['r'])
        ts = PredLt(c['T']) if c['dyn'] else c['T']
        res = call_impl(lambda: cpl.evolve(ca, timesteps=ts, apply_rule=rule, r=c['r'], memoize=memo))
        if res[0] != 'ok':
            obs.append({'res': list(res), 'ncalls': rule.ncalls})
            continue
        out = np.asarray(res[1])
        obs.append({'res': ['ok', {'bytes': out.tobytes().hex(), 'dtype': str(out.dtype), 'shape': [int(x) for x in out.shape],
                                   'negzeros': int(np.sum((out == 0) & np.signbit(out)))}],
                    'ncalls': rule.ncalls})
    return obs


def _sortrank_reference(row, r, steps):
    rows, N = [list(row)], len(row)
    for _ in range(steps):
        cur = rows[-1]
        rows.append([sum(1 for j in range(2 * r + 1) if cur[(c - r + j) % N] < cur[c]) for c in range(N)])
    return rows


def _run_sortrank(cpl, c):
    obs = []
    for memo in (False, True, ''.join(['recur', 'sive'])):
        ca = np.array([c['row']], dtype=c['dtype'])
        rule = Logged1(SortThenRank())
        ts = PredLt(c['T']) if c['dyn'] else c['T']
        res = call_impl(lambda: cpl.evolve(ca, timesteps=ts, apply_rule=rule, r=c['r'], memoize=memo))
        obs.append({'res': list(res) if res[0] != 'ok' else ['ok', _to_int_rows(res[1])], 'ncalls': len(rule.log)})
    obs.append({'reference': _sortrank_reference(c['row'], c['r'], c['T'] - 1)})
    return obs


def run_impl(c):
    import cellpylib as cpl
    if c.get('oracle_only') == 'signed_zero':
        return _run_signed_zero(cpl, c)
    if c.get('oracle_only') == 'sortrank':
        return _run_sortrank(cpl, c)
    obs = []
    objs = {}          # 'obj' key -> the one rule object passed to every call that carries the key
    for call in c['calls']:
        rule = None
        if 'obj' in call:
            rule = objs.get(call['obj'])
            if rule is None:
                rule = objs[call['obj']] = Logged1(_make_rule(call['rule']))
        o, ncalls, _ = run_call(cpl, call, MEMO_FORMS[call['memo']][0](), rule)
        obs.append({'res': o, 'ncalls': ncalls})
    # the implementation's own unmemoised answers, for the oracle (after the sequence, so that the
    # sequence itself is not disturbed; fresh rule objects)
    for call, ob in zip(c['calls'], obs):
        if call['memo'] in VALID and call['memo'] not in PLAIN_FORMS:
            o, _, _ = run_call(cpl, call, False)
            ob['plain'] = o
    return obs


def coq_call(call):
    kind, T = call['ts']
    ts = '(TLt %s)' % cnat(T) if kind == 'lt' else '(TFixed %s)' % cnat(T)
    return '(mkCall %s %s %s %s %s)' % (coq_rule_spec(call['rule']), MEMO_FORMS[call['memo']][1], cnat(call['r']),
                                        cgrid(call['hist']), ts)


def _cobs(o):
    if o[0] == 'ok' and o[1] is None:
        return '(Ok [[]; [0]])'      # not a 2-D integer-valued array: a ragged term no model array equals
    return cres(o, cgrid)


def to_coq(c, obs):
    if c.get('finding') or c.get('oracle_only'):
        return 'CNotCompared'        # outside what the Z-valued model expresses: decided by oracle() only
    if len(c['calls']) == 1 and not c['kind'].startswith('history'):
        return '(CEvolve %s %s)' % (coq_call(c['calls'][0]), _cobs(obs[0]['res']))
    return '(CHistory %s %s)' % (clist(c['calls'], coq_call), clist([o['res'] for o in obs], _cobs))


def _cells(call):
    return len(call['hist'][-1]) * max(call['ts'][1] - 1, 0)


def nontrivial(c, obs):
    if c.get('finding'):
        return False
    if c.get('oracle_only') == 'sortrank':
        return all(o['res'][0] == 'ok' for o in obs[:3]) and min(obs[1]['ncalls'], obs[2]['ncalls']) < obs[0]['ncalls']
    if c.get('oracle_only'):
        # all modes returned, -0.0 survives into the result, and memoize=True answered some cell from its cache
        return (all(o['res'][0] == 'ok' for o in obs) and obs[0]['res'][1]['negzeros'] > 1
                and obs[1]['ncalls'] < obs[0]['ncalls'])
    hit = False
    for call, ob in zip(c['calls'], obs):
        if ob['res'][0] != 'ok':
            return False
        mode = VALID.get(call['memo'])
        if mode in _STATS and _cells(call) > 0:
            _STATS[mode][0] += ob['ncalls']
            _STATS[mode][1] += _cells(call)
            if ob['ncalls'] < _cells(call):
                hit = True
    NOTES[1] = 'cache hit rate (1 - rule calls / cells computed), measured on this run: ' + ', '.join(
        'memoize=%s: %.3f over %d cells' % (m, 1 - (a / b if b else 1), b) for m, (a, b) in sorted(_STATS.items()))
    return hit


# ---------------------------------------------------------------- the property's own oracle
def oracle(c, obs):
    """C03 on the implementation alone: every supported option value gives the array memoize=False gives;
    a string equal to 'recursive' is accepted however it was built; an unsupported value is rejected
    (when a step is attempted)."""
    if c.get('oracle_only') == 'sortrank':
        ref = obs[3]['reference']   # the pure function of the ORIGINAL contents, iterated in the harness
        for mode, ob in zip(('False', 'True', 'recursive'), obs[:3]):
            if ob['res'][0] != 'ok':
                return 'memoize=%s raised %s with a rule that sorts its neighbourhood in place' % (mode, ob['res'][1])
            if ob['res'][1] != ref:
                return ('memoize=%s: a rule that sorts its neighbourhood argument in place (its value depends only on the '
                        'contents it was given) does not produce the synchronous ring update' % mode)
        return None
    if c.get('oracle_only') == 'signed_zero':
        ref = obs[0]['res']         # memoize=False, then True, then 'recursive'
        if ref[0] != 'ok':
            return 'memoize=False raised %s on a float automaton' % ref[1]
        for mode, ob in zip(('True', 'recursive'), obs[1:]):
            if ob['res'][0] != 'ok':
                return 'memoize=%s raised %s' % (mode, ob['res'][1])
            if {k: ob['res'][1][k] for k in ('bytes', 'dtype', 'shape')} != {k: ref[1][k] for k in ('bytes', 'dtype', 'shape')}:
                return ('memoize=%s is not bit-identical to memoize=False on a float automaton with signed zeros '
                        '(rule %s observes the sign of zero)' % (mode, c['rule']))
        return None
    if c.get('finding') == 'cast-path':
        ref = obs[0]['res']         # calls[0] is memoize=False
        for call, ob in zip(c['calls'][1:], obs[1:]):
            if ob['res'] != ref:
                return ('modes differ on out-of-range results: memoize=False -> %s, memoize=%s -> %s' % (
                    ref[1] if ref[0] == 'exc' else 'array', VALID[call['memo']],
                    ob['res'][1] if ob['res'][0] == 'exc' else 'another array'))
        return None
    for i, (call, ob) in enumerate(zip(c['calls'], obs)):
        steps = call['ts'][1] - 1
        if call['memo'] in VALID:
            if ob['res'][0] != 'ok':
                return 'call %d: memoize=%r (form %s) raised %s' % (i, MEMO_FORMS[call['memo']][0](), call['memo'], ob['res'][1])
            if 'plain' in ob and ob['plain'] != ob['res']:
                return 'call %d: memoize=%r returns an array different from memoize=False' % (i, MEMO_FORMS[call['memo']][0]())
        elif steps >= 1 and ob['res'][0] == 'ok':
            return 'call %d: unsupported memoize=%r was accepted' % (i, MEMO_FORMS[call['memo']][0]())
    return None


def shrink(c):
    if c.get('oracle_only'):
        return
    calls = c['calls']
    if len(calls) > 1:
        for i in range(len(calls)):
            yield dict(c, calls=calls[:i] + calls[i + 1:])
    for i, call in enumerate(calls):
        kind, T = call['ts']
        if T > 2:
            yield dict(c, calls=calls[:i] + [dict(call, ts=[kind, T - 1])] + calls[i + 1:])
        if kind == 'lt':
            yield dict(c, calls=calls[:i] + [dict(call, ts=['fixed', T])] + calls[i + 1:])
        if len(call['hist']) > 1:
            yield dict(c, calls=calls[:i] + [dict(call, hist=call['hist'][-1:])] + calls[i + 1:])
        if call['dtype'] != 'int64':
            yield dict(c, calls=calls[:i] + [dict(call, dtype='int64')] + calls[i + 1:])
        if call.get('dress'):
            yield dict(c, calls=calls[:i] + [dict(call, dress=None)] + calls[i + 1:])


# ------------------------------------------------------------------ source tie (appended; harness/translate.py)
# pre(): regenerate coq/gen/GenFuns_C03.v from the Python source of the tree under test and, if it changed, re-prove
# GenProps/GenFunsEquivC03.v, GenProps/C03Src.v and Properties/C03.v (theorem C03_source_tie) by hand.
# extra_checks(): report a failed translation / equivalence proof (theorem names, translator or coqc error).
from harness import translate as _translate
_prev_pre = globals().get('pre')
_prev_extra_checks = globals().get('extra_checks')
TRUSTED = list(globals().get('TRUSTED', [])) + [_translate.TRUSTED_NOTE]
NOTES = list(globals().get('NOTES', [])) + [
    'coq/gen/GenFuns_C03.v is regenerated from the Python source at the start of every run; theorem C03_source_tie '
    'proves the regenerated definitions equal to the hand-written model for all inputs']


def pre(ctx):
    if _prev_pre is not None:
        _prev_pre(ctx)
    _translate.pre_hook(ctx, 'C03')


def extra_checks(ctx):
    out = list(_prev_extra_checks(ctx)) if _prev_extra_checks is not None else []
    return out + _translate.extra_hook(ctx, 'C03')
