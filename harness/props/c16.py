"""C16 — Shannon / joint / mutual information measures: correspondence generators and runners.

Doubles are transported exactly: float.hex() -> (mantissa, exponent) integers with x == m * 2**e.
Coq decides, through the verified 80-bit interval enclosure of the model's real value, that the double
lies within 2^-30 of it.  The exact layer (symbol multiplicities in the order of the code, the verdict of
the temporal-distance guard) is compared exactly against a plain-Python reference count.
"""
import math
from fractions import Fraction
from harness.driver import call_impl, cz, cnat, clist, cgrid, cres

ID = 'C16'
COQ_IMPORTS = ('From CPL Require Import Model.Base Model.EntropyExact Model.EntropyI Corr.C16.\n'
               'Open Scope Z_scope.')
NONTRIVIAL_RULE = ('strings and lists over alphabets of 1..12 symbols (single characters incl. NUL, multi-character and unicode '
                   'symbols, symbols differing only by trailing NULs / spaces / width, mixed int / float / bool / str symbols; Y alphabets '
                   'wider than X), lengths 1..200 (thorough: ..256), for shannon_entropy / joint_shannon_entropy / '
                   'mutual_information (independent, equal, functionally dependent and noisy pairs); automata T x N with '
                   'T < N, T = N, T > N and states in {0,1}, {0..20}, {-1,1}, {-3..12}, magnitudes up to 2^62, for '
                   'average_cell_entropy and for average_mutual_information with every temporal distance in '
                   '-1 .. max(T,N)+1; sequences of 2-4 calls of both on ONE ndarray object modified in place between the calls '
                   '(and with a second array passed in between), each call compared with the model on the contents at that time; non-trivial = the call returned a finite double whose model value is not 0 '
                   '(at least two distinct symbols somewhere), or was rejected by the guard; distinct = distinct case dicts')
EXHAUSTIVE = {'quick': False, 'thorough': False}
NOTES = ['float(\'nan\') OBJECTS in lists: shannon_entropy works by identity (dict.fromkeys / list.count), so each nan object is one symbol '
         '(mirrored: shannon/list/nan_objects); joint_shannon_entropy compares with == (never true for nan) and drops those pairs, so '
         'mutual_information([n, n], [1, 2]) = 1.0: joint / MI with nan objects have no symbol model and are outside',
         'temporal distance objects: Python int, np.int8/int16/int64/uint8 scalars and 0-d arrays; T > 32767 (int16 overflow) is not '
         'generated (the enclosure of an entropy over n = 32768 costs n logarithms)',
         'every temporal distance from -1 to max(T,N)+1 is swept for every generated automaton',
         'a float temporal_distance (d = 1.0) passes the guard and then raises TypeError in the slicing: temporal distances are '
         'integers in the property; not a case',
         'list symbols follow Python ==/hash (what dict.fromkeys, set, list.count and object-array == use): 1, 1.0 and True are one '
         'symbol, \'1\' another; symbols differing only by trailing NULs / spaces / width are distinct (fix 602ebe5); NaN symbols '
         '(not equal to themselves) are outside the model',
         'the exact layer is taken FROM /repo: the arguments of math.log / np.log2 are spied during the call and turned back into '
         'multiplicities (compared up to order inside Coq); if a refactoring stops using these calls the double alone is compared',
         'tolerance of the float comparison: 2^-30 around the real value enclosed at 80 bits (within_sound)']
ASSUMPTIONS = ['lists holding float(\'nan\') OBJECTS: only shannon_entropy is modelled (identity: each object one symbol); joint_shannon_entropy / '
               'mutual_information on nan objects are outside (the library functions disagree with each other there)',
               'float- and bool-typed automata are carried to the model as the symbols str(x) of their states, renamed injectively to integers '
               '(entropy is invariant under injective renaming: H_map_inj); nan is ONE symbol (\'nan\'), -0.0 and 0.0 are two (\'-0.0\', \'0.0\'), '
               'as str(x) says',
               'the laws of mutual information (symmetric, >= 0, MI(X,X) = H(X)) and H >= 0 are theorems about the REAL-VALUED definitions; the '
               'returned doubles can break each of them by an ulp (mutual_information(\'1000101011\',\'0122111022\') = -4.4e-16) and are '
               'shown only to lie within 2^-30 of the reals (C16_mi_double_lower / C16_mi_double_symm state what follows for the doubles)',
               'the theorems about automata are stated for integer states (str(x) is the decimal rendering, proved injective)',
               'joint_shannon_entropy / mutual_information are given sequences of equal length (the docstring requires it)',
               'sequences are non-empty, automata have at least one row and one column',
               'IEEE arithmetic error of a few ulp per operation is far below the tolerance 2^-30 for sequences of length <= 256']
TRUSTED = ['Interval library (FloatIntervalFull over StdZRadix2) evaluated by vm_compute; containment lemmas proved in Model/EntropyI.v',
           'float.hex() parsing in harness/props/c16.py (self-checked: ldexp(m, e) == x)']


# ---------------------------------------------------------------- exact transport of doubles
def dbl(x):
    """x == m * 2**e exactly; None for nan / infinities."""
    x = float(x)
    if x != x or x in (float('inf'), float('-inf')):
        return None
    s = x.hex()
    neg = s.startswith('-')
    s = s.lstrip('+-')
    assert s.startswith('0x')
    mant, exp = s[2:].split('p')
    ip, fp = mant.split('.') if '.' in mant else (mant, '')
    m = int(ip + fp, 16)
    e = int(exp) - 4 * len(fp)
    while m and m % 2 == 0:
        m //= 2
        e += 1
    if m == 0:
        e = 0
    if neg:
        m = -m
    assert math.ldexp(m, e) == x
    return [m, e]


def cdbl(v):
    return 'None' if v is None else '(Some (%s, %s))' % (cz(v[0]), cz(v[1]))


def _enc(x):
    """A symbol as integers, injective on Python's ==/hash classes (what dict.fromkeys, set, list.count and the
    elementwise == of object arrays all use): a str is its code points; bool / int / float are ONE symbol when
    they are equal as numbers (1 == 1.0 == True), and never equal to a str."""
    if isinstance(x, str):
        return [0] + [ord(ch) for ch in x]
    if isinstance(x, dict):      # {'nan': k}: the k-th float('nan') OBJECT of the case (shannon_entropy works by identity)
        return [2, x['nan']]
    q = Fraction(x)          # exact for bool, int and finite float
    return [1, q.numerator, q.denominator]


def csym(s):
    return clist(_enc(s), cz)


def csyms(seq):
    return clist(list(seq), csym)


def cnats(xs):
    return clist(xs, cnat)


def ccell(c):
    return '(%s, %s, %s, %s)' % (cnats(c[0]), cnats(c[1]), cnats(c[2]), cnat(c[3]))


# ---------------------------------------------------------------- plain reference counts (exact layer)
def ref_counts(seq):
    d = {}
    for x in seq:
        x = ('nan object', x['nan']) if isinstance(x, dict) else x
        d[x] = d.get(x, 0) + 1
    return list(d.values())          # first-occurrence order


def ref_joint(X, Y):
    kx, ky = list(dict.fromkeys(X)), list(dict.fromkeys(Y))
    pairs = list(zip(X, Y))
    out = []
    for x in kx:
        for y in ky:
            c = pairs.count((x, y))
            if c:
                out.append(c)
    return out


def ref_cell(X, Y):
    return [ref_counts(X), ref_counts(Y), ref_joint(X, Y), len(X)]


def ref_H(cs, n):
    return -sum((c / n) * math.log2(c / n) for c in cs) + 0.0


# ---------------------------------------------------------------- generators
POOLS = ['a\x00 b\x01', '01', 'abcdefghijkl', '0123456789ab', 'aB1 -_.,;:!?', 'xyzéλ中\U0001f600qrstu', '-10 9']
LIST_POOLS = [['0', '1'], ['10', '1', '0', '-1', '11', '101', '2', '20', '-10', '100', '3', '12'],
              ['ab', 'a', 'b', 'ba', 'aa', '', ' ', 'abc', 'A', 'Ab', 'aB', 'bb'],
              # symbols that differ only by trailing NULs / trailing spaces / width (a fixed-width NumPy string array
              # strips trailing NULs: fix 602ebe5 made joint_shannon_entropy compare Python objects)
              ['', '\x00', 'a', 'a\x00', 'a ', 'ab', 'a\x00\x00', ' ', '\x00 ', 'ab\x00', 'b', '\x00a'],
              # str(x) of float / bool cells, and float symbols themselves
              ['0.0', '0.25', '0.5', '0.75', '1.0', '0.1', '0.3333333333333333', '1', '0', 'True', 'False', '-0.5'],
              [0.0, 0.25, 0.5, 0.75, 1.0, 0.1, 1.0 / 3, 2.0 / 3, -0.5, -1.0, 0.3, 0.9],
              # mixed types: by ==/hash 1, 1.0 and True are ONE symbol, '1' another; 0, 0.0, False one, '0' another
              [1, '1', 1.0, True, 0, False, '0', 2, 2.5, '1.0', 'True', 0.0]]


def _alphabet(rng, as_list):
    k = rng.randint(1, 12)
    pool = rng.choice(LIST_POOLS if as_list else POOLS)
    if as_list and rng.random() < 0.35:          # the two delicate pools get more than their share
        pool = LIST_POOLS[rng.choice([3, 4, 5, 6])]
    pool = list(pool)
    rng.shuffle(pool)
    return pool[:max(1, min(k, len(pool)))]


def _length(rng, tier, i):
    top = 200 if tier == 'quick' else 256
    corner = [1, 2, 3, 4, 5, 7, 8, 16, 199, 200, top]
    if i < len(corner):
        return corner[i]
    return rng.choice([rng.randint(1, 12), rng.randint(1, 60), rng.randint(1, top)])


def _seq(rng, alpha, L, skew):
    if skew:
        w = [1.0 / (j + 1) ** 2 for j in range(len(alpha))]
        return rng.choices(alpha, weights=w, k=L)
    return [rng.choice(alpha) for _ in range(L)]


def _pair(rng, as_list, L, mode):
    a1 = _alphabet(rng, as_list)
    if mode == 'ywide':      # Y has (many) more distinct symbols than X, and enough pairs for pair codes to collide
        L = L if L >= 24 else L + 24
        for _ in range(50):
            a1, a2 = _alphabet(rng, as_list), _alphabet(rng, as_list)
            if len(set(a2)) >= len(set(a1)) + 2:
                break
        a1 = a1[:rng.randint(1, 3)]
        return _seq(rng, a1, L, False), _seq(rng, a2, L, False)
    X = _seq(rng, a1, L, rng.random() < 0.3)
    if mode == 'self':
        Y = list(X)
    elif mode == 'function':
        a2 = _alphabet(rng, as_list)
        f = {s: rng.choice(a2) for s in a1}
        Y = [f[s] for s in X]
    elif mode == 'noisy':
        Y = [s if rng.random() < 0.7 else rng.choice(a1) for s in X]
    elif mode == 'constant':
        Y = [rng.choice(_alphabet(rng, as_list))] * L
    else:
        Y = _seq(rng, _alphabet(rng, as_list), L, False)
    return X, Y


STATE_FAMILIES = ['bin', 'k21', 'pm1', 'm3_12', 'big', 'near', 'const']


def _state(rng, fam):
    if fam == 'bin':
        return rng.randint(0, 1)
    if fam == 'k21':
        return rng.randint(0, 20)
    if fam == 'pm1':
        return rng.choice([-1, 1])
    if fam == 'm3_12':
        return rng.randint(-3, 12)
    if fam == 'big':
        return rng.choice([10 ** 18, -10 ** 18, 2 ** 62, -2 ** 62, 1, 10, 100, 1000000007, -1000000007, 11, 101, 0])
    if fam == 'near':        # large magnitudes that differ only beyond the 6th significant digit
        return rng.choice([1000000, 123456789, -10 ** 12, 2 ** 53, 99999990]) + rng.randint(0, 3)
    if fam in DTYPE_FAMILIES:
        return rng.choice(DTYPE_FAMILIES[fam][1])
    return 7


# states that are not int64: the symbols are still str(x) of each state ('0.25', '1.0', 'True'); and integer alphabets
# {0,1} / {0,1,2} / {5,6}: a path that depends on the alphabet or the value range of the automaton must not matter
DTYPE_FAMILIES = {
    'f_quarters': ('float64', [0.0, 0.25, 0.5, 0.75, 1.0]),
    'f_tenths': ('float64', [0.0, 0.1, 0.2, 0.3, 0.4, 0.5, 0.6, 0.7, 0.8, 0.9, 1.0]),
    'f_thirds': ('float64', [0.0, 1.0 / 3, 2.0 / 3, 1.0]),
    'f_pm1': ('float64', [-1.0, -0.5, 0.0, 0.5, 1.0, 0.25]),
    'f_01': ('float64', [0.0, 1.0]),
    'bool': ('bool', [False, True]),
    'i_01': ('int64', [0, 1]),
    'i_012': ('int64', [0, 1, 2]),
    'i_56': ('int64', [5, 6]),
}


def _symrows(c):
    """the automaton as the symbols the property speaks of: str(x) of each state, as the array's dtype prints it"""
    if c.get('dtype', 'int64') == 'int64':
        return [[str(x) for x in row] for row in c['rows']]
    import numpy as np
    with np.errstate(all='ignore'):
        return [[str(x) for x in row] for row in np.array(c['rows'], dtype=c['dtype'])]


SPECIALS = [float('nan'), float('inf'), float('-inf'), -0.0, 0.0, 1e-320, 1e300, 1.0, 0.1, 0.5, -1.0, 65504.0, 6e-8]


def _special_automaton(rng, T, N, dtype):
    cols = []
    for j in range(N):
        pat = rng.choice(['const_nan', 'nan_zero', 'negzero_zero', 'nan_negzero_zero', 'mix', 'mix', 'inf'])
        if pat == 'const_nan':
            col = [float('nan')] * T
        elif pat == 'nan_zero':
            col = [float('nan') if t % 2 == 0 else 0.0 for t in range(T)]
        elif pat == 'negzero_zero':
            col = [-0.0 if t % 2 == 0 else 0.0 for t in range(T)]
        elif pat == 'nan_negzero_zero':
            col = [[float('nan'), -0.0, 0.0][t % 3] for t in range(T)]
        elif pat == 'inf':
            col = [rng.choice([float('inf'), float('-inf'), 1e300, -1e300]) for _ in range(T)]
        else:
            col = [rng.choice(SPECIALS) for _ in range(T)]
        cols.append(col)
    return [[cols[j][t] for j in range(N)] for t in range(T)]


def _zrows(c):
    """the automaton as integer symbols for the model: int64 states as they are; float / bool states are replaced by
    the index of their str() rendering (first occurrence), an injective renaming of the symbols str(x)"""
    if c.get('dtype', 'int64') == 'int64':
        return c['rows']
    ids = {}
    return [[ids.setdefault(x, len(ids)) for x in row] for row in _symrows(c)]


def _automaton(rng, T, N, fam):
    rows = [[_state(rng, fam) for _ in range(N)] for _ in range(T)]
    if fam != 'const' and rng.random() < 0.3:      # periodic columns: structured time series
        per = rng.randint(1, 3)
        rows = [rows[t % per] for t in range(T)]
    return rows


def _shapes(rng, tier):
    base = [(1, 1), (1, 3), (2, 1), (2, 2), (2, 3), (3, 2), (3, 6), (6, 3), (4, 4), (5, 9), (9, 5), (7, 7), (12, 4), (4, 12)]
    n_rand = 30 if tier == 'quick' else 220
    top = 14 if tier == 'quick' else 30
    for _ in range(n_rand):
        T, N = rng.randint(1, top), rng.randint(1, top)
        base.append((T, N))
    return base


def _nul(*seqs):
    return any(isinstance(x, str) and x.endswith('\x00') for q in seqs for x in q)


def generate(rng, tier):
    for c in _generate(rng, tier):
        if c['op'] in ('shannon', 'joint', 'mi') and _nul(c['X'], c.get('Y', [])):
            c['nul_symbols'] = True        # handle for known_findings.json
        yield c


def _generate(rng, tier):
    mult = 1 if tier == 'quick' else 8
    for as_list in (False, True):
        form = 'list' if as_list else 'str'
        for i in range(130 * mult):
            L = _length(rng, tier, i)
            s = _seq(rng, _alphabet(rng, as_list), L, rng.random() < 0.3)
            yield {'kind': 'shannon/' + form, 'op': 'shannon', 'form': form, 'X': s}
        modes = ['indep', 'self', 'function', 'noisy', 'constant', 'ywide']
        for i in range(100 * mult):
            X, Y = _pair(rng, as_list, _length(rng, tier, i), modes[i % len(modes)])
            yield {'kind': 'joint/' + form, 'op': 'joint', 'form': form, 'X': X, 'Y': Y}
        for i in range(130 * mult):
            mode = modes[i % len(modes)]
            X, Y = _pair(rng, as_list, _length(rng, tier, i), mode)
            yield {'kind': 'mi/%s/%s' % (form, mode), 'op': 'mi', 'form': form, 'X': X, 'Y': Y}
    for j, (T, N) in enumerate(_shapes(rng, tier)):
        fam = STATE_FAMILIES[j % len(STATE_FAMILIES)] if j >= 14 else rng.choice(STATE_FAMILIES[:6])
        shape = 'T<N' if T < N else ('T=N' if T == N else 'T>N')
        for rep in range(2 if tier == 'quick' else 3):
            rows = _automaton(rng, T, N, fam)
            yield {'kind': 'ace/%s' % shape, 'op': 'ace', 'rows': rows, 'fam': fam}
        rows = _automaton(rng, T, N, fam)
        for d in range(-1, max(T, N) + 2):
            verdict = 'accepted' if 0 < d < T else 'rejected'
            yield {'kind': 'ami/%s/%s' % (shape, verdict), 'op': 'ami', 'rows': rows, 'd': d, 'fam': fam}
    shapes5 = [(4, 3), (3, 5), (5, 5), (6, 2), (1, 4)] + ([] if tier == 'quick' else [(8, 8), (12, 3), (3, 12), (2, 2), (16, 5)])
    for fam, (dtype, _vals) in DTYPE_FAMILIES.items():
        for (T, N) in shapes5:
            for rep in range(2):
                rows = _automaton(rng, T, N, fam)
                yield {'kind': 'ace/dtype/%s' % fam, 'op': 'ace', 'rows': rows, 'fam': fam, 'dtype': dtype}
            rows = _automaton(rng, T, N, fam)
            for d in range(0, T + 1):
                verdict = 'accepted' if 0 < d < T else 'rejected'
                yield {'kind': 'ami/dtype/%s/%s' % (fam, verdict), 'op': 'ami', 'rows': rows, 'd': d, 'fam': fam, 'dtype': dtype}
    # special float states: nan (ONE symbol 'nan'), inf, -inf, -0.0 next to 0.0 (two symbols), subnormal, huge; float32 / float16
    for k in range(36 if tier == 'quick' else 200):
        dtype = ['float64', 'float64', 'float32', 'float16'][k % 4]
        T, N = rng.choice([(4, 3), (5, 4), (3, 6), (6, 6), (8, 2), (2, 5)])
        rows = _special_automaton(rng, T, N, dtype)
        yield {'kind': 'ace/special/%s' % dtype, 'op': 'ace', 'rows': rows, 'fam': 'special', 'dtype': dtype}
        for d in range(0, T + 1):
            verdict = 'accepted' if 0 < d < T else 'rejected'
            yield {'kind': 'ami/special/%s/%s' % (dtype, verdict), 'op': 'ami', 'rows': rows, 'd': d, 'fam': 'special', 'dtype': dtype}
    # shannon_entropy on lists holding float('nan') OBJECTS: identity decides (one object = one symbol)
    for k in range(24 if tier == 'quick' else 100):
        alpha = [{'nan': 0}, {'nan': 1}, 0.0, 1.0, 'nan', 2][:rng.randint(1, 6)]
        yield {'kind': 'shannon/list/nan_objects', 'op': 'shannon', 'form': 'list', 'X': _seq(rng, alpha, rng.randint(1, 20), False)}
    # the temporal distance handed over as different integer objects, on short and long automata
    d_rows = {T: _automaton(rng, T, 2, 'i_012') for T in
              ([6, 127, 128, 129, 200] if tier == 'quick' else [6, 127, 128, 129, 200, 255, 256, 257])}
    for d_type, T in [(dt, T) for uns in (False, True) for T in d_rows for dt in D_TYPES if ('uint' in dt) == uns]:
        rows = d_rows[T]
        for _once in (0,):
            bits = {'int8': (-128, 127), 'int16': (-2 ** 15, 2 ** 15 - 1), 'uint8': (0, 255)}.get(d_type.replace('arr0_', ''), (-2 ** 63, 2 ** 63 - 1))
            for d in sorted({1, 2, T - 2, T - 1, min(T - 1, 127), 0, T, T + 1, -1}):
                if not (bits[0] <= d <= bits[1]):
                    continue
                verdict = 'accepted' if 0 < d < T else 'rejected'
                c = {'kind': 'ami/dtype_of_d/%s/%s' % (d_type, verdict), 'op': 'ami', 'rows': rows, 'd': d, 'd_type': d_type, 'fam': 'i_012'}
                yield c      # unsigned d: regression cases of fix 139a98b (-np.uint8(1) wrapped to 255)
    n_seq = 100 if tier == 'quick' else 800
    for i in range(n_seq):
        yield _sequence_case(rng, ['edit', 'edit', 'edit', 'other', 'other', 'noedit'][i % 6])


# ---- sequences of calls on ONE ndarray object that is modified in place between the calls
def _apply_edits(rows, edits):
    """pure-Python twin of the in-place edits (rows: list of lists, modified in place)"""
    T, N = len(rows), len(rows[0])
    for e in edits:
        if e[0] == 'set':
            rows[e[1]][e[2]] = e[3]
        elif e[0] == 'col':
            for t in range(T):
                rows[t][e[1]] = e[2][t]
        elif e[0] == 'row':
            rows[e[1]] = list(e[2])
        elif e[0] == 'neg':
            for t in range(T):
                rows[t] = [-x for x in rows[t]]
        elif e[0] == 'fill':
            for t in range(T):
                rows[t] = [e[1]] * N


def _apply_edits_np(ca, edits):
    for e in edits:
        if e[0] == 'set':
            ca[e[1], e[2]] = e[3]
        elif e[0] == 'col':
            ca[:, e[1]] = e[2]
        elif e[0] == 'row':
            ca[e[1], :] = e[2]
        elif e[0] == 'neg':
            ca *= -1
        elif e[0] == 'fill':
            ca[:, :] = e[1]


def _rand_edit(rng, T, N, fam):
    k = rng.random()
    if k < 0.35:
        return ['set', rng.randrange(T), rng.randrange(N), _state(rng, fam)]
    if k < 0.65:
        return ['col', rng.randrange(N), [_state(rng, fam) for _ in range(T)]]
    if k < 0.8:
        return ['row', rng.randrange(T), [_state(rng, fam) for _ in range(N)]]
    if k < 0.93:
        return ['neg']
    return ['fill', _state(rng, fam)]


def _sequence_case(rng, variant):
    T, N = rng.randint(3, 7), rng.randint(1, 5)
    fam = rng.choice(['bin', 'k21', 'pm1', 'm3_12', 'big', 'near'])
    rows = _automaton(rng, T, N, fam)
    other = None
    if variant == 'other':
        T2, N2 = (T, N) if rng.random() < 0.5 else (rng.randint(3, 7), rng.randint(1, 5))
        other = [list(r) for r in rows] if rng.random() < 0.3 and (T2, N2) == (T, N) else _automaton(rng, T2, N2, fam)
    steps = []
    for k in range(rng.randint(2, 4)):
        edits = []
        if k > 0 and (variant != 'noedit') and rng.random() < 0.9:
            edits = [_rand_edit(rng, T, N, fam) for _ in range(rng.randint(1, 2))]
        target = 'main'
        if variant == 'other' and 0 < k and rng.random() < 0.5:
            target = 'other'
        Tt = T if target == 'main' else len(other)
        if rng.random() < 0.45:
            steps.append({'edits': edits, 'target': target, 'call': 'ace', 'd': 0})
        else:
            d = rng.choice([1, 1, 2, rng.randint(1, Tt - 1)]) if rng.random() < 0.85 else rng.choice([0, Tt, -1, Tt + 1])
            steps.append({'edits': edits, 'target': target, 'call': 'ami', 'd': d})
    if variant == 'other' and not any(st['target'] == 'other' for st in steps):
        steps[1]['target'] = 'other'
        if steps[1]['call'] == 'ami':
            steps[1]['d'] = 1
    return {'kind': 'sequence/inplace/' + variant, 'op': 'seq', 'rows': rows, 'other': other, 'steps': steps, 'fam': fam}


def _step_cases(c):
    """the ordinary ace / ami case each call of a sequence amounts to: the contents AT THE TIME of the call"""
    cur = [list(r) for r in c['rows']]
    oth = [list(r) for r in c['other']] if c.get('other') else None
    out = []
    for st in c['steps']:
        _apply_edits(cur, st['edits'])           # edits always go to the main array
        rows = cur if st['target'] == 'main' else oth
        sub = {'op': st['call'], 'rows': [list(r) for r in rows], 'fam': c.get('fam')}
        if st['call'] == 'ami':
            sub['d'] = st['d']
        out.append(sub)
    return out


# ---------------------------------------------------------------- implementation runner
def _arg(seq, form):
    if form == 'str':
        return ''.join(seq)
    nans = {}
    return [nans.setdefault(x['nan'], float('nan')) if isinstance(x, dict) else x for x in seq]


SPY_STATS = {'spied': 0, 'fallback': 0}


class _Spy:
    """Records the probabilities the code really feeds to math.log (shannon_entropy) and np.log2
    (joint_shannon_entropy) during one call; both functions are restored on exit."""

    def __enter__(self):
        import numpy as np
        self.np, self.log_ps, self.log2_ps = np, [], []
        self.orig_log, self.orig_log2 = math.log, np.log2

        def log(x, *a):
            self.log_ps.append(x)
            return self.orig_log(x, *a)

        def log2(x, *a, **k):
            self.log2_ps.append(x)
            return self.orig_log2(x, *a, **k)
        math.log, np.log2 = log, log2
        return self

    def __exit__(self, *exc):
        math.log, self.np.log2 = self.orig_log, self.orig_log2
        return False


def _groups(ps, n):
    """probabilities -> multiplicities out of n (exactly: c / n must reproduce p), cut into runs that sum to n"""
    out, cur, tot = [], [], 0
    for pr in ps:
        try:
            pr = float(pr)
            k = int(round(pr * n))
        except (TypeError, ValueError, OverflowError):
            return None
        if k < 0 or k > n or float(k) / n != pr:
            return None
        cur.append(k)
        tot += k
        if tot == n:
            out.append(cur)
            cur, tot = [], 0
        elif tot > n:
            return None
    return out if not cur else None


def _spied_cells(op, spy, n, ncols):
    """the exact layer as the code computed it: cells (cX, cY, cXY, n), or None when the calls do not have the
    expected shape (a refactoring that no longer goes through math.log / np.log2: only the double is compared)"""
    if n <= 0:
        return None
    g1, g2 = _groups(spy.log_ps, n), _groups(spy.log2_ps, n)
    if g1 is None or g2 is None:
        return None
    if op == 'shannon' and len(g1) == 1 and not g2:
        return [[g1[0], [], [], n]]
    if op == 'joint' and not g1 and len(g2) == 1:
        return [[[], [], g2[0], n]]
    if op == 'mi' and len(g1) == 2 and len(g2) == 1:
        return [[g1[0], g1[1], g2[0], n]]
    if op == 'ace' and len(g1) == ncols and not g2:
        return [[g, [], [], n] for g in g1]
    if op == 'ami' and len(g1) == 2 * ncols and len(g2) == ncols:
        return [[g1[2 * i], g1[2 * i + 1], g2[i], n] for i in range(ncols)]
    return None


def _call(op, n, ncols, fn):
    """run one call of /repo under the spy: [status, double-or-exception, spied cells or None]"""
    with _Spy() as spy:
        r = call_impl(lambda: dbl(fn()))
    cells = _spied_cells(op, spy, n, ncols) if r[0] == 'ok' else None
    if r[0] == 'ok':
        SPY_STATS['spied' if cells is not None else 'fallback'] += 1
    return [r[0], r[1], cells]


D_TYPES = ['int', 'int8', 'int16', 'uint8', 'int64', 'arr0_int8', 'arr0_int64', 'arr0_uint8']


def _mk_d(c):
    """the temporal distance as the kind of integer object the case names"""
    import numpy as np
    t = c.get('d_type', 'int')
    if t == 'int':
        return c['d']
    if t.startswith('arr0_'):
        return np.array(c['d'], dtype=t[5:])
    return getattr(np, t)(c['d'])


def run_impl(c):
    import warnings
    import numpy as np
    import cellpylib as cpl
    op = c['op']
    with warnings.catch_warnings():
        warnings.simplefilter('ignore')
        if op == 'shannon':
            return _call(op, len(c['X']), 0, lambda: cpl.shannon_entropy(_arg(c['X'], c['form'])))
        if op == 'joint':
            return _call(op, len(c['X']), 0,
                         lambda: cpl.joint_shannon_entropy(_arg(c['X'], c['form']), _arg(c['Y'], c['form'])))
        if op == 'mi':
            return _call(op, len(c['X']), 0,
                         lambda: cpl.mutual_information(_arg(c['X'], c['form']), _arg(c['Y'], c['form'])))
        if op == 'seq':
            ca = np.array(c['rows'], dtype=np.int64)          # ONE object for the whole sequence
            cb = np.array(c['other'], dtype=np.int64) if c.get('other') else None
            out = []
            for st in c['steps']:
                _apply_edits_np(ca, st['edits'])              # in place: same object, new contents
                arr = ca if st['target'] == 'main' else cb
                T, N = arr.shape
                if st['call'] == 'ace':
                    out.append(_call('ace', T, N, lambda: cpl.average_cell_entropy(arr)))
                else:
                    out.append(_call('ami', T - st['d'], N, lambda: cpl.average_mutual_information(arr, st['d'])))
            return out
        rows = c['rows']
        T, N = len(rows), len(rows[0])
        if op == 'ace':
            return _call(op, T, N, lambda: cpl.average_cell_entropy(np.array(rows, dtype=c.get('dtype', 'int64'))))
        return _call(op, T - c['d'], N, lambda: cpl.average_mutual_information(np.array(rows, dtype=c.get('dtype', 'int64')), _mk_d(c)))


def _series(rows, i):
    return [str(r[i]) for r in rows]


def crefs(obs):
    """the multiplicities recovered from /repo's own calls (None: not recoverable, only the double is compared)"""
    cells = obs[2] if len(obs) > 2 else None
    return 'None' if cells is None else '(Some %s)' % clist(cells, ccell)


def _auto_term(ctor_ace, ctor_ami, c, obs):
    o = cres(obs, cdbl)
    if c['op'] == 'ace':
        return '(%s %s %s %s)' % (ctor_ace, cgrid(_zrows(c)), crefs(obs), o)
    return '(%s %s %s %s %s)' % (ctor_ami, cgrid(_zrows(c)), cz(c['d']), crefs(obs), o)


def to_coq(c, obs):
    op = c['op']
    if op == 'seq':
        return '(CSeq %s)' % clist(list(zip(_step_cases(c), obs)), lambda so: _auto_term('SAce', 'SAmi', so[0], so[1]))
    o = cres(obs, cdbl)
    if op == 'shannon':
        return '(CShannon %s %s %s)' % (csyms(c['X']), crefs(obs), o)
    if op == 'joint':
        return '(CJoint %s %s %s %s)' % (csyms(c['X']), csyms(c['Y']), crefs(obs), o)
    if op == 'mi':
        return '(CMI %s %s %s %s)' % (csyms(c['X']), csyms(c['Y']), crefs(obs), o)
    return _auto_term('CACE', 'CAMI', c, obs)


def extra_checks(ctx):
    tot = SPY_STATS['spied'] + SPY_STATS['fallback']
    return [{'info': True, 'what': 'exact layer recovered from /repo (math.log / np.log2 arguments) in %d of %d accepted calls; '
                                   'the remaining ones were compared on the double alone' % (SPY_STATS['spied'], tot)}]


def _ref_cells(c):
    """plain-Python symbol counts (==/hash semantics) in the shape of the spied cells"""
    op = c['op']
    if op == 'shannon':
        return [[ref_counts(c['X']), [], [], len(c['X'])]]
    if op == 'joint':
        return [[[], [], ref_joint(c['X'], c['Y']), len(c['X'])]]
    if op == 'mi':
        return [ref_cell(c['X'], c['Y'])]
    rows = _symrows(c)
    T, N = len(rows), len(rows[0])
    if op == 'ace':
        return [[ref_counts(_series(rows, i)), [], [], T] for i in range(N)]
    d = c['d']
    return [ref_cell(_series(rows, i)[:-d], _series(rows, i)[d:]) for i in range(N)]


def _ref_value(c):
    """independent closed-form value (plain floats) of what the property says the function returns"""
    op = c['op']
    if op == 'shannon':
        return ref_H(ref_counts(c['X']), len(c['X']))
    if op == 'joint':
        return ref_H(ref_joint(c['X'], c['Y']), len(c['X']))
    if op == 'mi':
        cx, cy, cxy, n = ref_cell(c['X'], c['Y'])
        return ref_H(cx, n) + ref_H(cy, n) - ref_H(cxy, n)
    rows = _symrows(c)
    T, N = len(rows), len(rows[0])
    if op == 'ace':
        return sum(ref_H(ref_counts(_series(rows, i)), T) for i in range(N)) / N
    d = c['d']
    tot = 0.0
    for i in range(N):
        s = _series(rows, i)
        cx, cy, cxy, n = ref_cell(s[:-d], s[d:])
        tot += ref_H(cx, n) + ref_H(cy, n) - ref_H(cxy, n)
    return tot / N


def nontrivial(c, obs):
    if c['op'] == 'seq':
        return any(st['edits'] for st in c['steps'][1:]) and all(nontrivial(sc, o) or o[0] == 'ok' for sc, o in zip(_step_cases(c), obs))
    if obs[0] != 'ok':
        return c['op'] == 'ami'
    if obs[1] is None:
        return False
    return abs(_ref_value(c)) > 1e-12 or c['op'] in ('mi', 'ami')


def oracle(c, obs):
    """The property evaluated on the implementation's own answer, in plain Python floats."""
    if c['op'] == 'seq':
        for k, (sc, o) in enumerate(zip(_step_cases(c), obs)):
            msg = oracle(sc, o)
            if msg:
                return 'call %d of the sequence (contents at that time %r): %s' % (k + 1, sc['rows'], msg)
        return None
    if c['op'] == 'ami':
        T = len(c['rows'])
        accepted = 0 < c['d'] < T
        if accepted and obs[0] != 'ok':
            return 'temporal distance %d rejected although 0 < d < %d timesteps' % (c['d'], T)
        if not accepted and not (obs[0] == 'exc' and obs[1] == 'ValueError'):
            return 'temporal distance %d not rejected with ValueError (timesteps = %d)' % (c['d'], T)
        if not accepted:
            return None
    if obs[0] != 'ok':
        return 'raised %s' % obs[1]
    if obs[1] is None:
        return 'returned nan or infinity'
    spied = obs[2] if len(obs) > 2 else None
    if spied is not None:
        want_cells = _ref_cells(c)
        canon = lambda cells: sorted([sorted(a), sorted(b), sorted(x), n] for a, b, x, n in cells)
        if canon(spied) != canon(want_cells):
            return 'multiplicities used by the code %r differ from the symbol counts %r' % (spied, want_cells)
    v = math.ldexp(obs[1][0], obs[1][1])
    want = _ref_value(c)
    if abs(v - want) > 1e-9:
        return 'value %r differs from the definition %r' % (v, want)
    if c['op'] in ('shannon', 'joint', 'ace') and v < 0:
        return 'negative entropy %r' % v
    if c['op'] in ('mi', 'ami') and v < -1e-9:
        return 'negative mutual information %r' % v
    return None


def shrink(c):
    if c['op'] == 'seq':
        st = c['steps']
        if len(st) > 1:
            yield dict(c, steps=st[:-1])
            merged = dict(st[1], edits=st[0]['edits'] + st[1]['edits'])
            yield dict(c, steps=[merged] + st[2:])
            for k in range(1, len(st) - 1):          # drop a middle call, keep its edits
                nxt = dict(st[k + 1], edits=st[k]['edits'] + st[k + 1]['edits'])
                yield dict(c, steps=st[:k] + [nxt] + st[k + 2:])
        for k, x in enumerate(st):
            if len(x['edits']) > 1:
                yield dict(c, steps=st[:k] + [dict(x, edits=x['edits'][:1])] + st[k + 1:])
        return
    if c['op'] in ('shannon',):
        X = c['X']
        if len(X) > 1:
            yield dict(c, X=X[:len(X) // 2])
            yield dict(c, X=X[1:])
            yield dict(c, X=X[:-1])
    elif c['op'] in ('joint', 'mi'):
        X, Y = c['X'], c['Y']
        if len(X) > 1:
            h = len(X) // 2
            yield dict(c, X=X[:h], Y=Y[:h])
            yield dict(c, X=X[1:], Y=Y[1:])
            yield dict(c, X=X[:-1], Y=Y[:-1])
    else:
        rows = c['rows']
        T, N = len(rows), len(rows[0])
        if N > 1:
            yield dict(c, rows=[r[:N // 2] for r in rows])
            yield dict(c, rows=[r[1:] for r in rows])
        if T > 1 and c['op'] == 'ace':
            yield dict(c, rows=rows[:T // 2])
            yield dict(c, rows=rows[1:])
        if T > 2 and c['op'] == 'ami':
            yield dict(c, rows=rows[:-1])


# ------------------------------------------------------------------ source tie (appended; harness/translate.py)
# pre(): regenerate coq/gen/GenFuns_C16.v from the Python source of the tree under test and, if it changed, re-prove
# GenProps/GenFunsEquivC16.v, GenProps/C16Src.v and Properties/C16.v (theorem C16_source_tie) by hand.
# extra_checks(): report a failed translation / equivalence proof (theorem names, translator or coqc error).
from harness import translate as _translate
_prev_pre = globals().get('pre')
_prev_extra_checks = globals().get('extra_checks')
TRUSTED = list(globals().get('TRUSTED', [])) + [_translate.TRUSTED_NOTE]
NOTES = list(globals().get('NOTES', [])) + [
    'coq/gen/GenFuns_C16.v is regenerated from the Python source at the start of every run; theorem C16_source_tie '
    'proves the regenerated definitions equal to the hand-written model for all inputs']


def pre(ctx):
    if _prev_pre is not None:
        _prev_pre(ctx)
    _translate.pre_hook(ctx, 'C16')


def extra_checks(ctx):
    out = list(_prev_extra_checks(ctx)) if _prev_extra_checks is not None else []
    return out + _translate.extra_hook(ctx, 'C16')
