"""C02 — 2D evolution is the synchronous update of a torus (Moore / von Neumann), memoize=False:
correspondence generators and runners.  The real cpl.evolve2d is run with a logging rule; the returned
array and the complete (n, (row, col), t) log are compared in Coq with the proved model."""
import numpy as np
from harness.driver import call_impl, cz, cnat, cbool, czlist, cgrid, chist, clist, cres
from harness.twins import (Logged2, PredLt, make_rule, coq_rule_spec, exact_int, dress, dress_pred, RULE_DRESSINGS,
                           PRED_DRESSINGS, invoke, Reentrant, ProjView2, Lin2)

ID = 'C02'
COQ_IMPORTS = ('From CPL Require Import Model.Base Model.Rules Model.Engine Model.Evolve2D Model.Evolve2DChecked '
               'Corr.C02.\nOpen Scope Z_scope.')
NONTRIVIAL_RULE = ('non-trivial = the call returned an array and the rule was called at least once (T >= 2 or k >= 2); '
                   'distinct = distinct case dicts')
EXHAUSTIVE = {'quick': False, 'thorough': False}
NOTES = ['every shape R x C <= 5x5 (quick) / 7x7 (thorough), every radius 0..min(R,C) and both neighbourhood types are '
         'swept; grids, histories and rules are sampled',
         'compared in Coq: the returned array (values, shape, dtype name) and the whole call log '
         '(block values, np.ma.getmaskarray pattern, (row, col), t)',
         'float stream: the rule returns value/4.0 into integer automata (scalar assignment truncates towards zero), '
         'T >= 3 so that the next step reads the stored grid',
         'bigint stream: int64 / uint64 states and results above 2**53, one generation mixing Python floats / NumPy '
         'scalars of other kinds with big ints']
ASSUMPTIONS = ['rule results (after truncation of value/scale towards zero for float results into integer automata) and '
               'initial states are representable in the dtype of the automaton',
               'radii outside 0..min(R,C) are outside the property: only T = 1 (no step made) is run there',
               'memoize=False only (memoize=True / "recursive" are C04)']
TRUSTED = ['Python twins Lin2 / LinCT2 / Script / Logged2 / PredLt and the dressings dress / dress_pred in harness/twins.py']

DTYPES = ['int64', 'int32', 'uint8', 'float64']
_CDTYPE = {'bool': 'DBool', 'int32': 'DInt32', 'int64': 'DInt64', 'uint8': 'DUInt8', 'uint64': 'DUInt64',
           'float64': 'DFloat64', 'object': 'DObject'}
NONE_Z = -999983        # stands for the Python value None in object-dtype cases (cells, rule results) on the Coq side


class Scaled:
    """returns f(n, c, t) / scale as a Python float (scale is a power of two: exact)"""
    def __init__(self, f, scale):
        self.f, self.scale = f, scale

    def __call__(self, nbhd_arg, cell_arg, step_arg):

        n, c, t = nbhd_arg, cell_arg, step_arg   # not named (n, c, t): the library must call rules positionally
        return self.f(n, c, t) / float(self.scale)


_KINDS = {'float': float, 'np.float64': np.float64, 'np.int64': np.int64, 'np.uint64': np.uint64, 'np.int32': np.int32,
          'np.uint8': np.uint8}


class KindAt:
    """the same VALUES as f, but the result of call number i is wrapped as kinds[i] (a Python float or a NumPy scalar
    type that represents the value exactly); the model is unchanged"""
    def __init__(self, f, kinds):
        self.f, self.kinds, self.i = f, dict((int(k), v) for k, v in kinds), 0

    def __call__(self, nbhd_arg, cell_arg, step_arg):

        n, c, t = nbhd_arg, cell_arg, step_arg   # not named (n, c, t): the library must call rules positionally
        v = self.f(n, c, t)
        k = self.kinds.get(self.i)
        self.i += 1
        return _KINDS[k](v) if k else v

# Defect found with this bucket and FIXED in /repo (commit 30203e6): _get_neighbourhood built
# np.ma.masked_array(n, von_neumann_mask) around the ONE shared mask array, so a rule that assigns into its masked
# block (n[...] = v) cleared the mask of every later cell.  The 'scribble/assign/vn' bucket and the corpus case
# harness/corpus/C02/shared_vn_mask.json keep watching it.  (env C02_SCRIBBLE_ASSIGN_VN=0 switches the bucket off.)
ASSIGN_VN_DEFAULT = True


class Scribble:
    """A rule that writes to its neighbourhood argument in place AFTER computing its value (the property quantifies
    over all rule callables).  mode 'data': plain arrays get n[...] = 77, masked arrays get n.data[...] = 77 (the mask
    object is left alone).  mode 'assign': masked arrays additionally get n[...] = 77 (which also unmasks in place)."""
    def __init__(self, f, mode='data'):
        self.f, self.mode = f, mode

    def __call__(self, nbhd_arg, cell_arg, step_arg):

        n, c, t = nbhd_arg, cell_arg, step_arg   # not named (n, c, t): the library must call rules positionally
        v = self.f(n, c, t)
        try:
            if isinstance(n, np.ma.MaskedArray):
                n.data[...] = 77
                if self.mode == 'assign':
                    n[...] = 77
            else:
                n[...] = 77
        except (ValueError, TypeError):     # read-only buffers
            pass
        return v


def _grid(rng, R, C, dtype, style):
    lo, hi = (0, 9) if dtype == 'uint8' else (-4, 9)
    if style == 'index':       # all entries distinct: any mis-indexing shows
        return [[i * C + j + 1 for j in range(C)] for i in range(R)]
    if style == 'binary':
        return [[rng.randint(0, 1) for _ in range(C)] for _ in range(R)]
    return [[rng.randint(lo, hi) for _ in range(C)] for _ in range(R)]


def _rule(rng, fam, R, C, r, T, dtype):
    calls = R * C * max(T - 1, 0)
    if fam == 'script':
        lo, hi = (0, 200) if dtype == 'uint8' else (-50, 200)
        n = calls if rng.random() < 0.8 else max(0, calls - rng.randint(1, 3))   # sometimes exhausted -> 0
        return {'fam': 'script', 'vs': [rng.randint(lo, hi) for _ in range(n)]}
    w = (2 * r + 1) ** 2
    return {'fam': fam, 'ws': [rng.randint(-3, 3) for _ in range(w)], 'm': rng.choice([2, 3, 5, 7, 11])}


def _case(rng, kind, R, C, r, ty, T, H, fam, dtype=None, style=None, mode='fixed'):
    dtype = dtype or rng.choice(DTYPES)
    style = style or rng.choice(['index', 'random', 'random', 'binary'])
    hist = [_grid(rng, R, C, dtype, 'random') for _ in range(H - 1)] + [_grid(rng, R, C, dtype, style)]
    c = {'kind': kind, 'mode': mode, 'R': R, 'C': C, 'r': r, 'ty': ty, 'T': T, 'hist': hist, 'dtype': dtype,
         'rule': _rule(rng, fam, R, C, r, T, dtype)}
    return c


def generate(rng, tier):
    D = 5 if tier == 'quick' else 7
    # -- exhaustive shapes x radii x neighbourhood types
    for R in range(1, D + 1):
        for C in range(1, D + 1):
            for r in range(0, min(R, C) + 1):
                for ty in ('moore', 'vn'):
                    shape = 'square' if R == C else ('1xN' if min(R, C) == 1 else 'rect')
                    edge = 'r=0' if r == 0 else ('r=min' if r == min(R, C) else ('r>=2' if r >= 2 else 'r=1'))
                    kind = 'sweep/%s/%s/%s' % (ty, shape, edge)
                    if tier == 'quick':
                        variants = [('script', 2, 1), ('linct', 3, 2), ('lin', rng.randint(2, 3), rng.randint(1, 2)),
                                    ('script', 3, rng.randint(1, 2))]
                        if (R + C + r) % 4 == 0:
                            variants.append((rng.choice(['script', 'lin']), 1, rng.randint(1, 2)))
                    elif max(R, C) <= 5:
                        variants = [(f, T, H) for f in ('script', 'linct', 'lin') for T in (1, 2, 3) for H in (1, 2)]
                    else:
                        variants = [('script', 2, 1), ('linct', 3, 2), ('lin', 2, 2), ('script', 3, 1),
                                    ('linct', 2, 1), ('lin', 3, 1)]
                    for fam, T, H in variants:
                        yield _case(rng, kind, R, C, r, ty, T, H, fam)
    # -- radii just outside the domain with T = 1: no step is made, so the history comes back unchanged.
    #    (With T >= 2 the present code raises IndexError at the first gather -- Model/Evolve2DChecked.v and the
    #    C02_checked_* theorems -- but the property does not constrain radii > min(R, C): an implementation that
    #    wraps with % would accept them, so that behaviour is deliberately NOT part of the check.)
    for R, C in [(1, 1), (1, 3), (3, 1), (2, 3), (3, 2), (2, 2), (4, 2), (3, 5)]:
        for dr in (1, 2):
            ty = rng.choice(['moore', 'vn'])
            yield _case(rng, 'outside/r>min/T=1', R, C, min(R, C) + dr, ty, 1, 1, 'script')
    # -- callable timesteps (same double loop in _evolve2d_dynamic)
    n_dyn = 40 if tier == 'quick' else 400
    for _ in range(n_dyn):
        R, C = rng.randint(1, 5), rng.randint(1, 5)
        r = rng.randint(0, min(R, C))
        k = rng.randint(1, 3)
        c = _case(rng, 'dynamic/t<k', R, C, r, rng.choice(['moore', 'vn']), k, rng.randint(1, 2),
                  rng.choice(['script', 'linct', 'lin']), mode='dyn')
        yield c
    # -- random larger shapes
    n_rand = 150 if tier == 'quick' else 1500
    for _ in range(n_rand):
        R, C = rng.randint(1, 9), rng.randint(1, 9)
        m = min(R, C)
        p = rng.random()
        r = rng.randint(0, min(m, 2)) if p < 0.6 else (m if p < 0.7 else rng.randint(0, m))
        T = rng.choice([2, 2, 3]) if (2 * r + 1) ** 2 * R * C < 6000 else 2
        yield _case(rng, 'random/<=9x9', R, C, r, rng.choice(['moore', 'vn']), T, rng.randint(1, 2),
                    rng.choice(['script', 'linct', 'lin']))
    # -- rules that write to their argument in place (kept last: the cases above do not depend on it)
    for c in _scribble_cases(rng, tier, _assign_vn()):
        yield c
    for c in _float_cases(rng, tier):
        yield c
    for c in _bigint_cases(rng, tier):
        yield c
    for c in _bool_cases(rng, tier):
        yield c
    for c in _dress_cases(rng, tier):
        yield c
    for c in _layout_cases(rng, tier):
        yield c
    for c in _callform_cases(rng, tier):
        yield c
    for c in _objnone_cases(rng, tier):
        yield c
    for c in _reentrant_cases(rng, tier):
        yield c
    for c in _retview_cases(rng, tier):
        yield c


def _scribble_cases(rng, tier, assign_vn):
    """rules that overwrite their block in place, on grids that have interior cells (rows, cols > 2r)"""
    shapes = [(R, C) for R in range(3, 8) for C in range(3, 8)]
    reps = 1 if tier == 'quick' else 6
    for _ in range(reps):
        for R, C in shapes:
            for r in range(0, 3):
                if not (R > 2 * r and C > 2 * r):
                    continue
                for ty in ('moore', 'vn'):
                    modes = ['data'] if ty == 'vn' else ['assign']
                    if ty == 'vn' and assign_vn:
                        modes.append('assign')
                    for mode in modes:
                        dyn = rng.random() < 0.15
                        c = _case(rng, 'scribble/%s/%s%s' % (mode, ty, '/dynamic' if dyn else ''), R, C, r, ty,
                                  rng.choice([2, 3, 3]), rng.randint(1, 2), rng.choice(['script', 'linct', 'lin']),
                                  mode='dyn' if dyn else 'fixed')
                        c['scribble'] = True
                        c['scribble_mode'] = mode
                        yield c


def _float_cases(rng, tier):
    """float results value/4.0 into integer automata: array[t][row][col] = v truncates towards zero; T >= 3 so that
    the following step reads the STORED grid (not the raw results)"""
    n = 90 if tier == 'quick' else 900
    for k in range(n):
        fam = ('script', 'linct', 'lin')[k % 3]
        dyn = k % 5 == 4
        dtype = ('int64', 'int32', 'uint8')[(k // 3) % 3]
        R, C = rng.randint(1, 5), rng.randint(1, 5)
        r = rng.randint(0, min(R, C, 2))
        T = rng.randint(3, 4)
        ty = rng.choice(['moore', 'vn'])
        c = _case(rng, 'float/%s/%s%s' % (dtype, fam, '/dynamic' if dyn else ''), R, C, r, ty, T, rng.randint(1, 2), fam,
                  dtype=dtype, mode='dyn' if dyn else 'fixed')
        calls = R * C * (T - 1)
        if fam == 'script':
            lo, hi = (0, 800) if dtype == 'uint8' else (-400, 800)
            c['rule'] = {'fam': 'script', 'vs': [rng.randint(lo, hi) for _ in range(calls)]}
        else:
            c['rule']['m'] = rng.choice([7, 11, 13, 29, 4 * 7, 4 * 11])
        c['scale'] = 4
        yield c


def _bigcell(rng, dtype):
    if dtype == 'uint64':
        return rng.choice([2 ** 53 + 1, 2 ** 63 + 5, 2 ** 64 - 1, 2 ** 62 + 3, rng.randrange(2 ** 53, 2 ** 64), rng.randint(0, 9)])
    return rng.choice([2 ** 53 + 1, -(2 ** 53) - 1, 2 ** 62 + 3, 2 ** 63 - 1, -(2 ** 63), rng.randrange(-2 ** 63, 2 ** 63),
                       rng.randint(-9, 9)])


def _bigint_cases(rng, tier):
    """int64 / uint64 automata whose states and rule results exceed 2**53: what is stored is exact (no detour through
    float64 between the rule's return value and the array), also when other cells of the same generation return a
    Python float or a NumPy scalar of another kind (legal: the value is representable in the automaton's dtype)"""
    n = 80 if tier == 'quick' else 800
    for k in range(n):
        fam = ('script', 'linct')[k % 2]
        dtype = ('int64', 'uint64')[(k // 2) % 2]
        dyn = k % 7 == 6
        mix = ('none', 'float', 'np')[(k // 4) % 3]
        R, C = rng.randint(1, 4), rng.randint(1, 4)
        if mix != 'none' and R * C == 1:
            C = 2
        r = rng.randint(0, min(R, C, 1))
        T = rng.randint(2, 3)
        ty = rng.choice(['moore', 'vn'])
        hist = [[[_bigcell(rng, dtype) for _ in range(C)] for _ in range(R)] for _ in range(rng.randint(1, 2))]
        calls = R * C * (T - 1)
        c = {'kind': 'bigint/%s/%s/mix=%s%s' % (dtype, fam, mix, '/dynamic' if dyn else ''),
             'mode': 'dyn' if dyn else 'fixed', 'R': R, 'C': C, 'r': r, 'ty': ty, 'T': T, 'hist': hist, 'dtype': dtype}
        small_at = set()
        if mix != 'none':      # in every generation at least one small value (wrapped) next to big ones
            for g in range(T - 1):
                small_at.add(g * R * C + rng.randrange(R * C))
        if fam == 'script':
            vs = [_bigcell(rng, dtype) for _ in range(calls)]
            for i in small_at:
                vs[i] = rng.randint(0, 9)
            for g in range(T - 1):          # ... and at least one odd value above 2**53 in every generation
                others = [i for i in range(g * R * C, (g + 1) * R * C) if i not in small_at]
                if others:
                    vs[rng.choice(others)] = rng.choice([2 ** 53 + 1, 2 ** 62 + 3, 2 ** 63 - 1])
            c['rule'] = {'fam': 'script', 'vs': vs}
            kinds = [[i, 'float' if mix == 'float' else ('np.uint64' if dtype == 'int64' else 'np.int64')] for i in sorted(small_at)]
        else:
            w = (2 * r + 1) ** 2
            m = rng.choice([2 ** 61 - 1, 2 ** 62 + 1, 2 ** 63 - 25]) if dtype == 'int64' else rng.choice([2 ** 63 + 3, 2 ** 64 - 59])
            c['rule'] = {'fam': 'linct', 'ws': [rng.randint(1, 3) for _ in range(w)], 'm': m}
            kinds = []          # values are not known in advance: leave them Python ints
            c['kind'] = 'bigint/%s/%s/mix=none%s' % (dtype, fam, '/dynamic' if dyn else '')
        if kinds:
            c['kinds'] = kinds
        yield c


def _bool_cases(rng, tier):
    n = 24 if tier == 'quick' else 240
    for k in range(n):
        fam = ('script', 'lin')[k % 2]
        R, C = rng.randint(1, 5), rng.randint(1, 5)
        r = rng.randint(0, min(R, C, 2))
        T = rng.randint(2, 3)
        c = _case(rng, 'dtype/bool/%s' % fam, R, C, r, rng.choice(['moore', 'vn']), T, rng.randint(1, 2), fam,
                  dtype='bool', style='binary')
        c['hist'] = [[[rng.randint(0, 1) for _ in range(C)] for _ in range(R)] for _ in c['hist']]
        if fam == 'script':
            c['rule'] = {'fam': 'script', 'vs': [rng.randint(0, 1) for _ in range(R * C * (T - 1))]}
        else:
            c['rule']['m'] = 2
        yield c


_SHAPES_NS = [(2, 3), (3, 2), (3, 4), (4, 3), (2, 5), (5, 2), (3, 3), (1, 4), (4, 1), (2, 2)]


def _dress_cases(rng, tier):
    """the same rule behaviour behind a different Python spelling of the callable (twins.dress: *args, (n, *rest),
    **opts, defaults, partial, bound method, lambda, subclasses of the library's rule classes, NumPy / 0-d / Python
    return types); for callable timesteps the predicate is dressed too.  The model ignores the dressing."""
    per = 5 if tier == 'quick' else 30
    k = 0
    for how in RULE_DRESSINGS:
        for j in range(per):
            R, C = _SHAPES_NS[(k + j) % len(_SHAPES_NS)]
            r = rng.randint(0, min(R, C, 2))
            ty = ('moore', 'vn')[(k + j) % 2]
            dyn = j % 2 == 1
            fam = ('script', 'linct', 'lin')[(k // 2 + j) % 3]
            c = _case(rng, 'dress/%s/%s' % (how, 'dynamic' if dyn else 'fixed'), R, C, r, ty, rng.randint(2, 3),
                      rng.randint(1, 2), fam, dtype=rng.choice(['int64', 'int32', 'float64']),
                      mode='dyn' if dyn else 'fixed')
            c['dress'] = how
            if dyn:
                c['pdress'] = PRED_DRESSINGS[(k // 2) % len(PRED_DRESSINGS)]
            k += 1
            yield c


LAYOUTS = ['fortran', 'transposed', 'reversed_rows', 'reversed_cols', 'strided']


def _lay_out(h, layout):
    """the same logical (H, R, C) array, held in memory in a non-C-contiguous way"""
    if layout == 'fortran':
        a = np.asfortranarray(h)
    elif layout == 'transposed':
        a = np.array(h.transpose(0, 2, 1), order='C').transpose(0, 2, 1)
    elif layout == 'reversed_rows':
        a = np.array(h[:, ::-1, :], order='C')[:, ::-1, :]
    elif layout == 'reversed_cols':
        a = np.array(h[:, :, ::-1], order='C')[:, :, ::-1]
    elif layout == 'strided':
        big = np.full((h.shape[0], 2 * h.shape[1] + 1, 2 * h.shape[2] + 1), 55, dtype=h.dtype)
        big[:, 1::2, 1::2] = h
        a = big[:, 1::2, 1::2]
    else:
        raise ValueError(layout)
    assert a.shape == h.shape and a.dtype == h.dtype and np.array_equal(a, h)
    return a


def _layout_cases(rng, tier):
    """the SAME logical history presented as a non-C-contiguous array; the property is about the grid, not about the
    memory layout of the array that holds it.  Stateful Script rules and logged rules, so the visiting order shows;
    fixed and callable timesteps (the callable path steps from a VIEW of the caller's array); H = 1 and H > 1."""
    per = 16 if tier == 'quick' else 120
    k = 0
    for layout in LAYOUTS:
        for j in range(per):
            R, C = _SHAPES_NS[(k + j) % len(_SHAPES_NS)] if j % 8 != 7 else (rng.randint(2, 6), rng.randint(2, 6))
            r = rng.randint(0, min(R, C, 2))
            ty = ('moore', 'vn')[j % 2]
            dyn = j % 4 != 3
            fam = ('script', 'script', 'linct')[(j // 2) % 3]
            H = 1 + (j // 4) % 2
            c = _case(rng, 'layout/%s/%s/H=%d' % (layout, 'dynamic' if dyn else 'fixed', H), R, C, r, ty,
                      rng.randint(2, 3), H, fam, dtype=rng.choice(['int64', 'int32', 'float64', 'uint8']),
                      style=rng.choice(['index', 'random']), mode='dyn' if dyn else 'fixed')
            c['layout'] = layout
            k += 1
            yield c


_EV2_NAMES = ['cellular_automaton', 'timesteps', 'apply_rule', 'r', 'neighbourhood', 'memoize']


def _callform_cases(rng, tier):
    """the same evolve2d call written all-positional, all-keyword and with every mixed split (the first npos arguments
    positional, the rest by keyword), memoize=False given explicitly or left to its default"""
    per = 6 if tier == 'quick' else 36
    for npos in range(0, 7):
        for j in range(per):
            memo_given = True if npos == 6 else (j % 3 != 2)
            r = 2 if j % 2 == 0 else 1
            ty = ('vn', 'moore', 'vn', 'vn', 'moore', 'vn')[j % 6]      # j = 0, 2: von Neumann with r = 2
            R, C = [(s0, s1) for (s0, s1) in _SHAPES_NS if min(s0, s1) >= r][(npos + j) % 6]
            dyn = j % 3 == 1
            c = _case(rng, 'callform/npos=%d/%s/%s' % (npos, 'memoize=False' if memo_given else 'memoize-defaulted',
                                                       'dynamic' if dyn else 'fixed'),
                      R, C, r, ty, rng.randint(2, 3), rng.randint(1, 2), ('script', 'linct', 'lin')[j % 3],
                      mode='dyn' if dyn else 'fixed')
            c['npos'] = npos
            c['memo_given'] = memo_given
            yield c


def _objnone_cases(rng, tier):
    """dtype=object automata whose cells are Python ints or None (a legitimate state: 'empty'); Script rules that
    return None for some cells ("its return value becomes the cell's new state").  None travels as NONE_Z."""
    n = 40 if tier == 'quick' else 400
    for k in range(n):
        R, C = _SHAPES_NS[k % len(_SHAPES_NS)]
        r = rng.randint(0, min(R, C, 2))
        T = rng.randint(2, 3)
        dyn = k % 4 == 3
        H = rng.randint(1, 2)
        cell = lambda: NONE_Z if rng.random() < 0.3 else rng.randint(-5, 50)
        hist = [[[cell() for _ in range(C)] for _ in range(R)] for _ in range(H)]
        vs = [NONE_Z if rng.random() < 0.4 else rng.randint(-50, 200) for _ in range(R * C * (T - 1))]
        # make sure some cell with a non-None state is set to None in the first step
        flat = [x for row in hist[-1] for x in row]
        live = [i for i, x in enumerate(flat) if x != NONE_Z]
        if live:
            vs[rng.choice(live)] = NONE_Z
        else:
            hist[-1][0][0] = 4
            vs[0] = NONE_Z
        yield {'kind': 'objnone/%s/%s' % ('vn' if k % 2 else 'moore', 'dynamic' if dyn else 'fixed'),
               'mode': 'dyn' if dyn else 'fixed', 'R': R, 'C': C, 'r': r, 'ty': 'vn' if k % 2 else 'moore', 'T': T,
               'hist': hist, 'dtype': 'object', 'rule': {'fam': 'script', 'vs': vs}}


def _reentrant_cases(rng, tier):
    """the rule runs a complete evolve2d of its own (same shape, r, neighbourhood, dtype; another Lin rule; memoize
    False / True / 'recursive') before and after computing its value: calls must not share state"""
    n = 24 if tier == 'quick' else 120
    for k in range(n):
        R, C = _SHAPES_NS[k % len(_SHAPES_NS)]
        r = rng.randint(0, min(R, C, 2)) if k % 3 else min(R, C, 1)
        ty = ('moore', 'vn')[k % 2]
        dyn = k % 4 == 2
        c = _case(rng, 'reentrant/nested-memoize=%s/%s' % (('False', 'True', 'recursive')[k % 3], 'dynamic' if dyn else 'fixed'),
                  R, C, r, ty, 2 if R * C > 9 else rng.randint(2, 3), rng.randint(1, 2), ('script', 'linct', 'lin')[(k // 3) % 3],
                  dtype=rng.choice(['int64', 'int32', 'float64']), mode='dyn' if dyn else 'fixed')
        c['reentrant'] = {'memoize': ('False', 'True', 'recursive')[k % 3],
                          'ws': [rng.randint(0, 3) for _ in range((2 * r + 1) ** 2)], 'm': rng.choice([3, 5, 7]),
                          'grid': _grid(rng, R, C, c['dtype'], 'random')}
        yield c


def _retview_cases(rng, tier):
    """the rule returns one entry of its block as a ZERO-DIMENSIONAL VIEW of the argument (twins.ProjView2); the model
    is Lin with one-hot weights over the unmasked entries and a modulus above every state (states >= 0)"""
    n = 24 if tier == 'quick' else 240
    for k in range(n):
        R, C = _SHAPES_NS[k % len(_SHAPES_NS)]
        r = rng.randint(0, min(R, C, 2))
        ty = ('moore', 'vn')[k % 2]
        w = 2 * r + 1
        free = [(i, j) for i in range(w) for j in range(w) if ty == 'moore' or abs(i - r) + abs(j - r) <= r]
        idx = rng.randrange(len(free))
        dyn = k % 4 == 1
        dtype = rng.choice(['int64', 'int32', 'uint8', 'float64'])
        c = _case(rng, 'retview/%s/%s' % (ty, 'dynamic' if dyn else 'fixed'), R, C, r, ty, rng.randint(2, 3),
                  rng.randint(1, 2), 'lin', dtype=dtype, style='index', mode='dyn' if dyn else 'fixed')
        c['hist'] = [[[abs(x) for x in row] for row in g] for g in c['hist']]
        c['rule'] = {'fam': 'lin', 'ws': [0] * idx + [1], 'm': 1000003}
        c['retview'] = list(free[idx])
        yield c


class LoggedObj:
    """Logged2 for object-dtype neighbourhoods: None is recorded as NONE_Z"""
    def __init__(self, f):
        self.f, self.log = f, []

    def __call__(self, n, c, t):
        masked = isinstance(n, np.ma.MaskedArray)
        d = n.data if masked else np.asarray(n)
        vals = [[_obj_z(x) for x in row] for row in d.tolist()]
        mask = ([[bool(x) for x in row] for row in np.ma.getmaskarray(n).tolist()] if masked
                else [[False] * d.shape[1] for _ in range(d.shape[0])])
        self.log.append(((vals, mask), (int(c[0]), int(c[1])), int(t)))
        return self.f(n, c, t)


def _obj_z(x):
    return NONE_Z if x is None else exact_int(x)


class NoneScript:
    """Script whose NONE_Z entries are returned as the Python value None"""
    def __init__(self, vs):
        self.vs, self.i = vs, 0

    def __call__(self, n, c, t):
        v = self.vs[self.i] if self.i < len(self.vs) else 0
        self.i += 1
        return None if v == NONE_Z else v


def _assign_vn():
    import os
    return ASSIGN_VN_DEFAULT and os.environ.get('C02_SCRIBBLE_ASSIGN_VN') != '0'


def run_impl(c):
    import cellpylib as cpl
    obj = c['dtype'] == 'object'
    if obj:
        ca = np.empty((len(c['hist']), c['R'], c['C']), dtype=object)
        for a, g in enumerate(c['hist']):
            for b, row in enumerate(g):
                for d, x in enumerate(row):
                    ca[a, b, d] = None if x == NONE_Z else x
    else:
        ca = np.array(c['hist'], dtype=np.dtype(c['dtype']))
    if c.get('layout'):
        ca = _lay_out(ca, c['layout'])
    nb = 'Moore' if c['ty'] == 'moore' else 'von Neumann'
    if obj:
        inner = NoneScript(list(c['rule']['vs']))
    elif c.get('retview'):
        inner = ProjView2(*c['retview'])
    else:
        inner = make_rule(c['rule'], dim=2)
    if c.get('scribble'):
        inner = Scribble(inner, c.get('scribble_mode', 'data'))
    if c.get('scale', 1) != 1:
        inner = Scaled(inner, c['scale'])
    if c.get('kinds'):
        inner = KindAt(inner, c['kinds'])
    if c.get('reentrant'):
        ne = c['reentrant']
        ngrid = np.array([ne['grid']], dtype=np.dtype(c['dtype']))
        nmemo = {'False': False, 'True': True, 'recursive': 'recursive'}[ne['memoize']]
        nrule = Lin2(list(ne['ws']), ne['m'])
        inner = Reentrant(inner, lambda: cpl.evolve2d(ngrid, timesteps=2, apply_rule=nrule, r=c['r'], neighbourhood=nb,
                                                       memoize=nmemo))
    rule = (LoggedObj if obj else Logged2)(inner)   # the log is taken (as copies) before the inner rule runs
    handed = dress(rule, c.get('dress'))        # the dressing is the OUTERMOST wrapper of what evolve2d receives
    ts = c['T'] if c['mode'] == 'fixed' else dress_pred(PredLt(c['T']), c.get('pdress'))
    if 'npos' in c:
        values = [ca, ts, handed, c['r'], nb] + ([False] if c.get('memo_given') else [])
        res = call_impl(lambda: invoke(cpl.evolve2d, _EV2_NAMES[:len(values)], values, c['npos']))
    else:
        res = call_impl(lambda: cpl.evolve2d(ca, timesteps=ts, apply_rule=handed, r=c['r'], neighbourhood=nb, memoize=False))
    if res[0] != 'ok':
        return list(res)
    out = np.asarray(res[1])
    conv = _obj_z if obj else exact_int
    grids = [[[conv(x) for x in row] for row in g] for g in out.tolist()] if out.ndim == 3 else []
    log = [[vals, mask, [rc[0], rc[1]], t] for ((vals, mask), rc, t) in rule.log]
    ca_after = [[[conv(x) for x in row] for row in g] for g in ca.tolist()]      # the caller's array after the call
    return ['ok', {'shape': [int(x) for x in out.shape], 'grids': grids, 'log': log, 'ca_after': ca_after,
                   'dtype': str(out.dtype)}]


def _cblist(xs):
    return clist(xs, cbool)


def _ccall(e):
    vals, mask, rc, t = e
    return '(%s, %s, (%s, %s), %s)' % (cgrid(vals), clist(mask, _cblist), cnat(rc[0]), cnat(rc[1]), cnat(t))


def _cout(v):
    return '(%s, %s, %s)' % (chist(v['grids']), clist(v['log'], _ccall), _CDTYPE.get(v.get('dtype'), 'DOther'))


def to_coq(c, obs):
    return '(%s %s %s %s %s %s %s %s %s)' % (
        'CEvolve2D' if c['mode'] == 'fixed' else 'CEvolve2DDyn',
        'Moore' if c['ty'] == 'moore' else 'VonNeumann', cnat(c['r']), cz(c.get('scale', 1)),
        _CDTYPE.get(c['dtype'], 'DOther'), chist(c['hist']), cnat(c['T']),
        coq_rule_spec(c['rule']), cres(obs, _cout))


def nontrivial(c, obs):
    return obs[0] == 'ok' and len(obs[1]['log']) > 0


def oracle(c, obs):
    """The property itself, evaluated independently on the implementation's observation: torus indexing by
    Python's %, the Manhattan diamond, row-major visiting, 1-based t, and the stored results."""
    R, C, r, T = c['R'], c['C'], c['r'], c['T']
    H = len(c['hist'])
    if r > min(R, C) and T >= 2:
        return None     # outside the property's domain
    if obs[0] != 'ok':
        return 'a radius within 0..min(R,C) was rejected with %s' % obs[1]
    v = obs[1]
    steps = max(T - 1, 0)
    if v['shape'] != [H + steps, R, C]:
        return 'shape %s, expected %s' % (v['shape'], [H + steps, R, C])
    if v.get('dtype') != c['dtype']:
        return 'the result has dtype %s, the automaton passed in has %s' % (v.get('dtype'), c['dtype'])
    scale = c.get('scale', 1)
    if v['grids'][:H] != c['hist']:
        return 'the given history is not a prefix of the result (compared with the pre-call copy)'
    if v.get('ca_after', c['hist']) != c['hist']:
        return 'the caller\'s array was modified by the call'
    if len(v['log']) != steps * R * C:
        return 'the rule was called %d times, expected %d' % (len(v['log']), steps * R * C)
    fresh = make_rule(c['rule'], dim=2)
    w = 2 * r + 1
    k = 0
    for s in range(steps):
        prev = v['grids'][H - 1 + s]
        nxt = v['grids'][H + s]
        for row in range(R):
            for col in range(C):
                vals, mask, rc, t = v['log'][k]
                k += 1
                if rc != [row, col]:
                    return 'call %d has cell identity %s, expected %s' % (k - 1, rc, [row, col])
                if t != s + 1:
                    return 'call %d has t = %d, expected %d' % (k - 1, t, s + 1)
                want = [[prev[(row - r + a) % R][(col - r + b) % C] for b in range(w)] for a in range(w)]
                if vals != want:
                    return 'block of cell %s at t=%d is %s, expected %s' % (rc, t, vals, want)
                wmask = [[(c['ty'] == 'vn') and (abs(a - r) + abs(b - r) > r) for b in range(w)] for a in range(w)]
                if mask != wmask:
                    return 'mask of cell %s at t=%d is %s, expected %s' % (rc, t, mask, wmask)
                wn = np.array(want, dtype=np.dtype(c['dtype']))     # (without dtype, big uint64 lists become float64)
                n = np.ma.masked_array(wn, np.array(wmask)) if c['ty'] == 'vn' else wn
                val = fresh(n, (row, col), t)
                if scale != 1:      # a float result into an integer automaton: truncated towards zero
                    val = abs(val) // scale * (1 if val >= 0 else -1)
                if nxt[row][col] != val:
                    return 'cell %s at t=%d holds %s, not the value the rule returned (%s)' % (rc, t, nxt[row][col], val)
    return None


def shrink(c):
    R, C, r, T = c['R'], c['C'], c['r'], c['T']
    if c['dtype'] in ('bool', 'uint64', 'object') or c['kind'].startswith(('bigint', 'retview', 'callform')):
        # values are tied to the dtype: only drop history / steps
        if len(c['hist']) > 1:
            yield dict(c, hist=c['hist'][-1:])
        return
    if len(c['hist']) > 1:
        yield dict(c, hist=c['hist'][-1:])
    if T > 2:
        yield dict(c, T=2)
    if c['dtype'] != 'int64':
        yield dict(c, dtype='int64')
    if c['rule']['fam'] != 'script':
        yield dict(c, rule={'fam': 'script', 'vs': list(range(1, R * C * max(T - 1, 0) + 1))})
    idx = [[[i * C + j + 1 for j in range(C)] for i in range(R)]]
    if c['hist'] != idx:
        yield dict(c, hist=idx)
    if r > 1 and r <= min(R, C):
        r2 = r - 1
        rule = c['rule'] if c['rule']['fam'] == 'script' else dict(c['rule'], ws=c['rule']['ws'][:(2 * r2 + 1) ** 2])
        yield dict(c, r=r2, rule=rule)
    if R > max(r, 1):
        yield dict(c, R=R - 1, hist=[g[:-1] for g in c['hist']])
    if C > max(r, 1):
        yield dict(c, C=C - 1, hist=[[row[:-1] for row in g] for g in c['hist']])


# ------------------------------------------------------------------ source tie (appended; harness/translate.py)
# pre(): regenerate coq/gen/GenFuns_C02.v from the Python source of the tree under test and, if it changed, re-prove
# GenProps/GenFunsEquivC02.v, GenProps/C02Src.v and Properties/C02.v (theorem C02_source_tie) by hand.
# extra_checks(): report a failed translation / equivalence proof (theorem names, translator or coqc error).
from harness import translate as _translate
_prev_pre = globals().get('pre')
_prev_extra_checks = globals().get('extra_checks')
TRUSTED = list(globals().get('TRUSTED', [])) + [_translate.TRUSTED_NOTE]
NOTES = list(globals().get('NOTES', [])) + [
    'coq/gen/GenFuns_C02.v is regenerated from the Python source at the start of every run; theorem C02_source_tie '
    'proves the regenerated definitions equal to the hand-written model for all inputs']


def pre(ctx):
    if _prev_pre is not None:
        _prev_pre(ctx)
    _translate.pre_hook(ctx, 'C02')


def extra_checks(ctx):
    out = list(_prev_extra_checks(ctx)) if _prev_extra_checks is not None else []
    return out + _translate.extra_hook(ctx, 'C02')
