"""C11 — Game of Life rule is Conway's B3/S23, and evolve2d with it is Life on the torus:
correspondence generators and runners."""
import numpy as np
from harness.driver import call_impl, cz, cnat, cgrid, chist, cres, copt

ID = 'C11'
COQ_IMPORTS = ('From CPL Require Import Model.Base Model.Rules Model.Engine Model.Evolve2D Model.Life Model.LifePatterns Corr.C11.\n'
               'Open Scope Z_scope.')
NONTRIVIAL_RULE = ('rule cases: the call returned (all 512 binary blocks, plain ndarray and MaskedArray with an '
                   'all-False mask); evolve/pattern cases: the call returned, the start grid has a live cell and at '
                   'least one step is taken; roll cases: a non-zero shift; distinct = distinct case dicts')
EXHAUSTIVE = {'quick': True, 'thorough': True}
NOTES = ['the 512 binary neighbourhoods are enumerated completely, in both forms, in both tiers',
         'every placement (a, b) in [0,R) x [0,C) of the glider on 6x6, 7x7, 8x8 (quick) / all R x C in 5..8 (thorough)',
         'EVERY binary grid of every shape up to 3x3 (682 grids) in all three memoize modes, in both tiers',
         'all 16 gliders (4 directions x 4 phases) at every placement of the 5x5 torus; beehive, loaf, boat, tub at every '
         'placement of the torus with exactly the one-cell halo',
         'the model side is the memoize=False engine for all three memoize modes: the result must not depend on the mode',
         'sequence cases come first in the process; half of them pass a fresh wrapper of the rule created for that '
         'sequence, so that what they detect does not depend on earlier cases',
         'sequence cases: 2-4 evolve2d calls in one process with the same cpl.game_of_life_rule object, mixing '
         "neighbourhood='von Neumann' / 'Moore' and the memoize modes; every Moore call is compared (model and np.roll "
         'oracle), the von Neumann calls are modelled (masked sum) but not compared: the property does not speak about them',
         'sequence/other_radius cases come first in the process: evolve2d with r = 2 or r = 0 and an affine rule on a shape, '
         'then Life (r = 1) on the same shape; only the Life calls are compared']
ASSUMPTIONS = ['grids hold the states 0 and 1 (the property is stated for binary neighbourhoods), in int64 and, in the '
               'evolve/dtype buckets, bool / uint8 / int8 / float32 / float64 arrays',
               'r = 1, Moore neighbourhood (the default evolve2d arguments used with game_of_life_rule)',
               'a MaskedArray neighbourhood is exercised with an all-False mask only']

MEMO = {0: False, 1: True, 2: 'recursive'}
PATS = {
    'glider': [(0, 1), (1, 2), (2, 0), (2, 1), (2, 2)],
    'block': [(0, 0), (0, 1), (1, 0), (1, 1)],
    'blinker': [(0, 0), (0, 1), (0, 2)],
}
STILLS = {   # name: (cells, rows, cols of the bounding box)
    'beehive': ([(0, 1), (0, 2), (1, 0), (1, 3), (2, 1), (2, 2)], 3, 4),
    'loaf': ([(0, 1), (0, 2), (1, 0), (1, 3), (2, 1), (2, 3), (3, 2)], 4, 4),
    'boat': ([(0, 0), (0, 1), (1, 0), (1, 2), (2, 1)], 3, 3),
    'tub': ([(0, 1), (1, 0), (1, 2), (2, 1)], 3, 3),
}
PATS['blinker_v'] = [(0, 0), (1, 0), (2, 0)]
_GPH = [[(0, 1), (1, 2), (2, 0), (2, 1), (2, 2)], [(0, 0), (0, 2), (1, 1), (1, 2), (2, 1)],
        [(0, 2), (1, 0), (1, 2), (2, 1), (2, 2)], [(0, 0), (1, 1), (1, 2), (2, 0), (2, 1)]]
GDIR = [(1, 1), (1, -1), (-1, -1), (-1, 1)]
DTYPES = ['bool', 'uint8', 'int8', 'float32', 'float64']


def gl(d, k):
    """the glider of direction d in phase k: d quarter turns (u, v) -> (v, 2 - u) of phase k"""
    cells = _GPH[k]
    for _ in range(d):
        cells = [(v, 2 - u) for (u, v) in cells]
    return cells


def _cells(c):
    if c['pat'] == 'still':
        return STILLS[c['name']][0]
    if c['pat'] == 'glider_dir':
        return gl(c['d'], c['k'])
    return PATS[c['pat']]


EXTRA_PATS = {   # only placed into random-evolution cases
    'toad': [(0, 1), (0, 2), (0, 3), (1, 0), (1, 1), (1, 2)],
    'beacon': [(0, 0), (0, 1), (1, 0), (2, 3), (3, 2), (3, 3)],
    'rpent': [(0, 1), (0, 2), (1, 0), (1, 1), (2, 1)],
    'lwss': [(0, 1), (0, 4), (1, 0), (2, 0), (2, 4), (3, 0), (3, 1), (3, 2), (3, 3)],
}


def place(R, C, a, b, cells):
    g = [[0] * C for _ in range(R)]
    for (u, v) in cells:
        g[(a + u) % R][(b + v) % C] = 1
    return g


def _rand_grid(rng, R, C):
    p = rng.choice([0.0, 0.15, 0.3, 0.5, 0.5, 0.7, 1.0])
    return [[1 if rng.random() < p else 0 for _ in range(C)] for _ in range(R)]


def generate(rng, tier):
    thorough = tier == 'thorough'
    # 0. FIRST in the process (before any other evolve2d call has seen these shapes): a call with r = 2 or r = 0
    #    on a shape, then Life on the same shape
    for c in _other_radius(rng, 300 if thorough else 100):
        yield c
    # 0b. call sequences in one process (state kept between calls must not leak), BEFORE any other case calls evolve2d
    #     with the Life rule: what a sequence can detect must not depend on what ran earlier in the process.  Half of
    #     them pass a FRESH wrapper of the rule (a new callable per sequence: a per-callable cache starts empty), the
    #     other half cpl.game_of_life_rule itself (whose only earlier use is by the other half of these sequences).
    for i, c in enumerate(_sequences(rng, 600 if thorough else 150)):
        c['fresh'] = (i // 5) % 2 == 0
        c['kind'] += '/fresh-callable' if c['fresh'] else '/library-function'
        yield c
    # 1. the complete finite domain, both forms
    for v in range(512):
        bits = [(v >> (8 - k)) & 1 for k in range(9)]
        blk = [bits[0:3], bits[3:6], bits[6:9]]
        yield {'kind': 'rule/plain', 'op': 'rule', 'vals': blk, 'masked': False}
        yield {'kind': 'rule/masked', 'op': 'rule', 'vals': blk, 'masked': True}
    # 2. every small shape (1xN, Nx1, 2x2, ... the wrap reads the same cell more than once), every mode
    top = 5 if thorough else 4
    for R in range(1, top + 1):
        for C in range(1, top + 1):
            for memo in (0, 1, 2):
                yield {'kind': 'evolve/small', 'op': 'evolve', 'hist': [_rand_grid(rng, R, C)],
                       'T': rng.randint(2, 4), 'memo': memo}
    # 3. random grids up to 12 x 12, T <= 5, histories of length 1-2, patterns dropped in
    n_rand = 3000 if thorough else 330
    for i in range(n_rand):
        R, C = rng.randint(1, 12), rng.randint(1, 12)
        kind = 'evolve/random'
        g = _rand_grid(rng, R, C)
        if i % 3 == 0 and R >= 5 and C >= 6:
            name = rng.choice(sorted(list(PATS) + list(EXTRA_PATS)))
            cells = PATS.get(name) or EXTRA_PATS[name]
            g = place(R, C, rng.randrange(R), rng.randrange(C), cells)
            kind = 'evolve/pattern-grid'
        hist = [g] if i % 4 else [_rand_grid(rng, R, C), g]
        yield {'kind': kind, 'op': 'evolve', 'hist': hist, 'T': rng.randint(1, 5), 'memo': i % 3}
    # 4. the glider: every placement, four steps
    shapes = [(R, C) for R in range(5, 9) for C in range(5, 9)] if thorough else [(6, 6), (7, 7), (8, 8), (5, 5), (5, 8)]
    for (R, C) in shapes:
        for a in range(R):
            for b in range(C):
                memos = (0, 1, 2) if thorough else ((a + b + R) % 3,)
                for memo in memos:
                    yield {'kind': 'pattern/glider', 'op': 'pattern', 'pat': 'glider', 'R': R, 'C': C, 'a': a, 'b': b,
                           'T': 5, 'memo': memo}
    # placements given by out-of-range / negative origins
    for i in range(60 if thorough else 12):
        R, C = rng.randint(5, 12), rng.randint(5, 12)
        yield {'kind': 'pattern/glider-far', 'op': 'pattern', 'pat': 'glider', 'R': R, 'C': C,
               'a': rng.randint(-2 * R, 3 * R), 'b': rng.randint(-2 * C, 3 * C), 'T': 5, 'memo': i % 3}
    # 5. block (R, C >= 4) and blinker (R, C >= 5): every placement
    for (R, C) in ([(4, 4), (4, 6), (5, 5)] if not thorough else [(R, C) for R in range(4, 8) for C in range(4, 8)]):
        for a in range(R):
            for b in range(C):
                yield {'kind': 'pattern/block', 'op': 'pattern', 'pat': 'block', 'R': R, 'C': C, 'a': a, 'b': b,
                       'T': rng.randint(2, 5), 'memo': (a + b) % 3}
    for (R, C) in ([(5, 5), (5, 7), (6, 5)] if not thorough else [(R, C) for R in range(5, 9) for C in range(5, 9)]):
        for a in range(R):
            for b in range(C):
                yield {'kind': 'pattern/blinker', 'op': 'pattern', 'pat': 'blinker', 'R': R, 'C': C, 'a': a, 'b': b,
                       'T': rng.choice([3, 3, 4, 5]), 'memo': (a + 2 * b) % 3}
    # 5b. still lifes (every placement on a torus with exactly the halo, and on a larger one)
    for name, (cells, p, q) in sorted(STILLS.items()):
        for (R, C) in [(p + 2, q + 2), (p + 3, q + 4)] + ([(p + 2, q + 5), (9, 9)] if thorough else []):
            for a in range(R):
                for b in range(C):
                    yield {'kind': 'pattern/still/' + name, 'op': 'pattern', 'pat': 'still', 'name': name, 'R': R, 'C': C,
                           'a': a, 'b': b, 'T': rng.randint(2, 4), 'memo': (a + b) % 3}
    # 5c. the blinker started vertically
    for (R, C) in [(5, 5), (6, 5)]:
        for a in range(R):
            for b in range(C):
                yield {'kind': 'pattern/blinker-vertical', 'op': 'pattern', 'pat': 'blinker_v', 'R': R, 'C': C, 'a': a,
                       'b': b, 'T': rng.choice([3, 3, 4, 5]), 'memo': (2 * a + b) % 3}
    # 5d. the glider in all four directions and all four phases: every placement on 5x5, random ones on larger tori
    for d in range(4):
        for k in range(4):
            for a in range(5):
                for b in range(5):
                    for memo in ((0, 1, 2) if thorough else ((a + b + d + k) % 3,)):
                        yield {'kind': 'pattern/glider-dir%d' % d, 'op': 'pattern', 'pat': 'glider_dir', 'd': d, 'k': k,
                               'R': 5, 'C': 5, 'a': a, 'b': b, 'T': 5, 'memo': memo}
            for i in range(12 if thorough else 3):
                R, C = rng.randint(5, 10), rng.randint(5, 10)
                yield {'kind': 'pattern/glider-dir%d' % d, 'op': 'pattern', 'pat': 'glider_dir', 'd': d, 'k': k,
                       'R': R, 'C': C, 'a': rng.randint(-R, 2 * R), 'b': rng.randint(-C, 2 * C), 'T': 5, 'memo': i % 3}
    # 5e. other dtypes of the automaton (the states are still 0 and 1)
    for dt in DTYPES:
        for i in range(200 if thorough else 40):
            R, C = rng.randint(1, 8), rng.randint(1, 8)
            yield {'kind': 'evolve/dtype/' + dt, 'op': 'evolve', 'hist': [_rand_grid(rng, R, C)], 'T': rng.randint(2, 4),
                   'memo': i % 3, 'dtype': dt}
    # 5f. EVERY binary grid of every shape up to 3 x 3, in every memoize mode
    for R in range(1, 4):
        for C in range(1, 4):
            for v in range(2 ** (R * C)):
                g = [[(v >> (i * C + j)) & 1 for j in range(C)] for i in range(R)]
                for memo in (0, 1, 2):
                    yield {'kind': 'evolve/all-grids-%dx%d' % (R, C), 'op': 'evolve', 'hist': [g],
                           'T': 2 + (v + memo) % 2, 'memo': memo}
    # 7. the model's translation is np.roll
    for i in range(400 if thorough else 60):
        R, C = rng.randint(1, 9), rng.randint(1, 9)
        yield {'kind': 'roll', 'op': 'roll', 'g': _rand_grid(rng, R, C),
               'da': rng.randint(-2 * R, 2 * R), 'db': rng.randint(-2 * C, 2 * C)}


def _grid04(rng, R, C):
    return [[1 if rng.random() < 0.4 else 0 for _ in range(C)] for _ in range(R)]


def _other_radius(rng, n):
    """The first call is evolve2d on the SAME shape with r != 1 and a pure affine rule (any memoize mode, either
    neighbourhood type); then 1-3 Life calls (r = 1, Moore, all modes).  State kept between calls per lattice
    shape must not leak into Life."""
    shapes = [(R, C) for R in range(5, 10) for C in range(5, 10)]
    rng.shuffle(shapes)
    for i in range(n):
        R, C = shapes[i % len(shapes)]
        r0 = 2 if (i // len(shapes)) % 2 == 0 or i % 3 else 0
        w = (2 * r0 + 1) ** 2
        first = {'nb': rng.choice('MV'), 'r': r0, 'hist': [_grid04(rng, R, C)], 'T': rng.randint(2, 3),
                 'memo': rng.randrange(3), 'rule': {'fam': 'aff', 'ws': [1] * w, 'b': 1, 'm': 2}}
        g = _grid04(rng, R, C)
        calls = [first]
        for k in range(rng.randint(1, 3)):
            calls.append({'nb': 'M', 'hist': [g if k == 0 else _grid04(rng, R, C)], 'T': rng.randint(2, 4),
                          'memo': (i + k) % 3})
        yield {'kind': 'sequence/other_radius/r%d-%s' % (r0, 'square' if R == C else 'rect'), 'op': 'sequence',
               'calls': calls, 'fresh': True}


def _sequences(rng, n):
    """2-4 evolve2d calls back to back with the same rule object; mixed neighbourhood types / memoize modes"""
    for i in range(n):
        R, C = rng.randint(6, 9), rng.randint(6, 9)
        g = _grid04(rng, R, C)
        bucket = i % 5
        if bucket == 0:      # the same grid, von Neumann first, then Moore, same memoize mode (each mode in turn)
            m = (i // 5) % 3
            calls = [{'nb': 'V', 'hist': [g], 'T': rng.randint(2, 4), 'memo': m},
                     {'nb': 'M', 'hist': [g], 'T': rng.randint(2, 4), 'memo': m}]
            kind = 'sequence/vn-then-moore-same-grid'
        elif bucket == 1:    # Moore, von Neumann, Moore on one grid; modes drawn independently
            calls = [{'nb': nb, 'hist': [g], 'T': rng.randint(2, 4), 'memo': rng.randrange(3)} for nb in 'MVM']
            kind = 'sequence/moore-vn-moore-same-grid'
        elif bucket == 2:    # different grids of one shape
            calls = [{'nb': rng.choice('MV'), 'hist': [_grid04(rng, R, C)], 'T': rng.randint(2, 4),
                      'memo': rng.randrange(3)} for _ in range(rng.randint(2, 4))]
            calls[-1]['nb'] = 'M'
            kind = 'sequence/same-shape'
        elif bucket == 3:    # different shapes
            calls = []
            for _ in range(rng.randint(2, 4)):
                R2, C2 = rng.randint(6, 9), rng.randint(6, 9)
                calls.append({'nb': rng.choice('MV'), 'hist': [_grid04(rng, R2, C2)], 'T': rng.randint(2, 4),
                              'memo': rng.randrange(3)})
            calls[-1]['nb'] = 'M'
            kind = 'sequence/different-shapes'
        else:                # all recursive, the later call continues from a grid the earlier one produced or saw
            calls = [{'nb': 'V', 'hist': [g], 'T': rng.randint(2, 4), 'memo': 2},
                     {'nb': 'M', 'hist': [_grid04(rng, R, C), g], 'T': rng.randint(2, 4), 'memo': 2},
                     {'nb': 'M', 'hist': [g], 'T': 4, 'memo': rng.randrange(3)}]
            kind = 'sequence/recursive-chain'
        yield {'kind': kind, 'op': 'sequence', 'calls': calls}


def _start(c):
    if c['op'] == 'pattern':
        return place(c['R'], c['C'], c['a'], c['b'], _cells(c))
    return None


def _ints(out):
    """the returned array as nested lists of Python ints (bool / float dtypes hold exactly 0 and 1)"""
    a = np.asarray(out)
    b = a.astype(np.int64)
    if not (a == b).all():
        raise ValueError('non-integral state')
    return b.tolist()


def run_impl(c):
    import cellpylib as cpl
    op = c['op']
    if op == 'rule':
        blk = np.array(c['vals'])
        if c['masked']:
            blk = np.ma.masked_array(blk, mask=np.zeros((3, 3), dtype=bool))

        def f():
            v = cpl.game_of_life_rule(blk, (1, 1), 1)
            return None if v is None else int(v)
        return list(call_impl(f))
    if op == 'roll':
        return np.roll(np.array(c['g']), (c['da'], c['db']), axis=(0, 1)).tolist()
    if op == 'sequence':
        rule = cpl.game_of_life_rule          # the same function object for every call of the sequence
        if c.get('fresh'):
            def life(n, cell, t):             # a callable nobody has seen before: per-callable state starts empty
                return cpl.game_of_life_rule(n, cell, t)
            rule = life
        out = []
        for call in c['calls']:
            h = np.array(call['hist'])
            nb = 'Moore' if call['nb'] == 'M' else 'von Neumann'
            if 'rule' in call:               # a call with another rule / radius: only there to have happened before
                from harness import twins
                f = twins.make_rule(call['rule'], dim=2)
                out.append(list(call_impl(lambda: cpl.evolve2d(h, timesteps=call['T'], apply_rule=f, r=call['r'],
                                                               neighbourhood=nb, memoize=MEMO[call['memo']]).tolist())))
                continue
            out.append(list(call_impl(lambda: cpl.evolve2d(h, timesteps=call['T'], apply_rule=rule, neighbourhood=nb,
                                                           memoize=MEMO[call['memo']]).tolist())))
        return out
    hist = np.array(c['hist'] if op == 'evolve' else [_start(c)], dtype=c.get('dtype'))
    r = call_impl(lambda: _ints(cpl.evolve2d(hist, timesteps=c['T'], apply_rule=cpl.game_of_life_rule,
                                             memoize=MEMO[c['memo']])))
    return list(r)


def to_coq(c, obs):
    op = c['op']
    if op == 'rule':
        return '(CRule %s %s %s)' % (cgrid(c['vals']), 'true' if c['masked'] else 'false',
                                     cres(obs, lambda v: copt(v, cz)))
    if op == 'roll':
        return '(CRoll %s %s %s %s)' % (cgrid(c['g']), cz(c['da']), cz(c['db']), cgrid(obs))
    if op == 'sequence':
        return '(CSequence [%s])' % '; '.join(
            'SeqCall %s %s %s %s %s' % ('Moore' if call['nb'] == 'M' else 'VonNeumann', chist(call['hist']),
                                        cnat(call['T']), cnat(call['memo']), cres(o, chist))
            for call, o in zip(c['calls'], obs) if 'rule' not in call)
    if op == 'evolve':
        return '(CEvolve %s %s %s %s)' % (chist(c['hist']), cnat(c['T']), cnat(c['memo']), cres(obs, chist))
    if c['pat'] == 'still':
        pat = '(PStill [%s])' % '; '.join('(%d, %d)' % uv for uv in STILLS[c['name']][0])
    elif c['pat'] == 'glider_dir':
        pat = '(PGliderDir %s %s)' % (cnat(c['d']), cnat(c['k']))
    else:
        pat = {'glider': 'PGlider', 'block': 'PBlock', 'blinker': 'PBlinker', 'blinker_v': 'PBlinkerV'}[c['pat']]
    return '(CPattern %s %s %s %s %s %s %s %s %s)' % (pat, cnat(c['R']), cnat(c['C']), cz(c['a']), cz(c['b']),
                                                      cgrid(_start(c)), cnat(c['T']), cnat(c['memo']),
                                                      cres(obs, chist))


def nontrivial(c, obs):
    op = c['op']
    if op == 'roll':
        return c['da'] != 0 or c['db'] != 0
    if op == 'sequence':
        return all(o[0] == 'ok' for o in obs) and any(call['nb'] == 'V' or 'rule' in call for call in c['calls'])
    if obs[0] != 'ok':
        return False
    if op == 'rule':
        return True
    g = c['hist'][-1] if op == 'evolve' else _start(c)
    return c['T'] >= 2 and any(any(row) for row in g)


def _life(g):
    """Conway's Life on the torus, written with np.roll (independent of cellpylib and of the Coq model)"""
    g = np.array(g)
    n = sum(np.roll(np.roll(g, di, 0), dj, 1) for di in (-1, 0, 1) for dj in (-1, 0, 1) if (di, dj) != (0, 0))
    return ((n == 3) | ((g == 1) & (n == 2))).astype(int)


def oracle(c, obs):
    """The property itself, evaluated on the implementation's answer."""
    op = c['op']
    if op == 'roll':
        return None
    if op == 'sequence':
        for k, (call, o) in enumerate(zip(c['calls'], obs)):
            if call['nb'] != 'M' or 'rule' in call:
                continue
            if o[0] != 'ok':
                return 'call %d of the sequence (Moore) raised %s' % (k, o[1])
            want = [np.array(h) for h in call['hist']]
            for _ in range(call['T'] - 1):
                want.append(_life(want[-1]))
            if o[1] != [w.tolist() for w in want]:
                return ('call %d of the sequence (Moore, memoize=%r) differs from the np.roll-based Life update after '
                        'the earlier calls with the same rule object' % (k, MEMO[call['memo']]))
        return None
    if obs[0] != 'ok':
        return 'the call raised %s' % obs[1]
    if op == 'rule':
        ctr = c['vals'][1][1]
        nb = sum(sum(r) for r in c['vals']) - ctr
        want = 1 if (ctr == 0 and nb == 3) or (ctr == 1 and nb in (2, 3)) else 0
        if obs[1] != want:
            return 'B3/S23 requires %d for centre %d with %d live neighbours, got %r' % (want, ctr, nb, obs[1])
        return None
    hist = c['hist'] if op == 'evolve' else [_start(c)]
    want = [np.array(h) for h in hist]
    for _ in range(c['T'] - 1):
        want.append(_life(want[-1]))
    want = [w.tolist() for w in want]
    if obs[1] != want:
        return 'evolve2d with game_of_life_rule differs from the np.roll-based Life update on the torus'
    if op == 'pattern':
        g0 = np.array(hist[0])
        last = np.array(obs[1][-1])
        k = c['T'] - 1
        if c['pat'] == 'glider' and k == 4 and not (last == np.roll(g0, (1, 1), axis=(0, 1))).all():
            return 'after four steps the glider is not the start grid shifted by (1, 1)'
        if c['pat'] in ('block', 'still') and not (last == g0).all():
            return 'the still life changed'
        if c['pat'] in ('blinker', 'blinker_v') and k % 2 == 0 and not (last == g0).all():
            return 'the blinker did not return after an even number of steps'
        if c['pat'] in ('blinker', 'blinker_v') and k % 2 == 1 and (last == g0).all():
            return 'the blinker did not move after an odd number of steps'
        if c['pat'] == 'glider_dir' and k == 4:
            if not (last == np.roll(g0, GDIR[c['d']], axis=(0, 1))).all():
                return 'after four steps the glider of direction %d is not the start grid shifted by %r' % (
                    c['d'], GDIR[c['d']])
            if (last == g0).all():
                return 'the glider did not move'
    return None


def shrink(c):
    op = c['op']
    if op == 'sequence':
        # not shrunk: whether a shorter sequence still fails is decided in THIS process, whose library state
        # already went through all earlier cases; a replay must reproduce in a fresh process, so keep the case
        return
    if op in ('evolve', 'pattern'):
        if c['memo'] != 0:
            yield dict(c, memo=0)
        if c['T'] > 2:
            yield dict(c, T=c['T'] - 1)
    if op == 'evolve':
        if len(c['hist']) > 1:
            yield dict(c, hist=c['hist'][-1:])
        g = c['hist'][-1]
        if len(g) > 1:
            yield dict(c, hist=[g[:-1]])
        if len(g[0]) > 1:
            yield dict(c, hist=[[row[:-1] for row in g]])
        live = [(i, j) for i, row in enumerate(g) for j, x in enumerate(row) if x]
        for (i, j) in live[:6]:
            g2 = [list(row) for row in g]
            g2[i][j] = 0
            yield dict(c, hist=[g2])


# ------------------------------------------------------------------ source tie (appended; harness/translate.py)
# pre(): regenerate coq/gen/GenFuns.v from the Python source of the tree under test and, if it changed, re-prove
# GenProps/GenFunsEquivC11.v, GenProps/C11Src.v and Properties/C11.v (theorem C11_source_tie) by hand.
# extra_checks(): report a failed translation / equivalence proof (theorem names, translator or coqc error).
from harness import translate as _translate
_prev_pre = globals().get('pre')
_prev_extra_checks = globals().get('extra_checks')
TRUSTED = list(globals().get('TRUSTED', [])) + [_translate.TRUSTED_NOTE]
NOTES = list(globals().get('NOTES', [])) + [
    'coq/gen/GenFuns.v is regenerated from the Python source at the start of every run; theorem C11_source_tie proves '
    'the regenerated definitions equal to the hand-written model for all inputs']


def pre(ctx):
    if _prev_pre is not None:
        _prev_pre(ctx)
    _translate.pre_hook(ctx, 'C11')


def extra_checks(ctx):
    out = list(_prev_extra_checks(ctx)) if _prev_extra_checks is not None else []
    return out + _translate.extra_hook(ctx, 'C11')
