"""C07 — Wolfram (NKS) binary rule numbering: correspondence generators and runners."""
import numpy as np
from harness.driver import call_impl, cz, cnat, cN, cbool, czlist, copt, cres, clist

ID = 'C07'
COQ_IMPORTS = 'From CPL Require Import Model.Base Model.Numbering Corr.C07.\nOpen Scope Z_scope.'
NONTRIVIAL_RULE = ('complete sweep of 256 rules x 8 neighbourhoods x both schemes (all call forms in the thorough tier, '
                   'one random form per point in the quick tier), random radius-2/3 neighbourhoods with rule numbers up '
                   'to 2^128-1, conversion round trips up to 300 digits; non-trivial = the call returned a value '
                   '(not an exception); distinct = distinct case dicts')
EXHAUSTIVE = {'quick': True, 'thorough': True}
NOTES = ['elementary domain (256 x 8 x schemes) enumerated completely in both tiers']
ASSUMPTIONS = ['neighbourhood entries are 0/1 ints (bits_to_int reads truthiness; the dot-product path reads values)',
               'error classes are not compared for C07 (any exception on both sides agrees)']


def _forms():
    return [(rf, pw, cl) for rf in ('int', 'array') for pw in (False, True) for cl in (False, True)]


def generate(rng, tier):
    # complete elementary domain
    for R in range(256):
        for v in range(8):
            nb = [(v >> 2) & 1, (v >> 1) & 1, v & 1]
            for sch in ('nks', 'default'):
                forms = _forms() if tier == 'thorough' else [('int', False, False), rng.choice(_forms()[1:])]
                for rf, pw, cl in forms:
                    yield {'kind': 'binary_rule/elementary', 'op': 'binary_rule', 'nb': nb, 'rule': R, 'rule_form': rf,
                           'scheme': sch, 'pows': pw, 'cls': cl}
            for cl in (False, True):
                yield {'kind': 'nks_rule/elementary', 'op': 'nks', 'nb': nb, 'rule': R, 'cls': cl}
    # radius 2 and 3, big rule numbers
    n_big = 600 if tier == 'quick' else 6000
    for i in range(n_big):
        L = rng.choice([5, 7])
        nb = [rng.randint(0, 1) for _ in range(L)]
        bits = 2 ** L
        pick = rng.random()
        if pick < 0.1:
            R = rng.choice([0, 1, 2 ** bits - 1, 2 ** (bits - 1), 2 ** rng.randrange(bits)])
        else:
            R = rng.getrandbits(bits)
        rf, pw, cl = rng.choice(_forms())
        yield {'kind': 'binary_rule/r%d' % (L // 2), 'op': 'binary_rule', 'nb': nb, 'rule': R, 'rule_form': rf,
               'scheme': rng.choice(['nks', 'default']), 'pows': pw, 'cls': cl}
    # conversions
    n_conv = 300 if tier == 'quick' else 3000
    for i in range(n_conv):
        d = rng.choice([1, 2, 3, 8, 16, 64, 65, 128, 300, rng.randint(1, 300)])
        num = rng.choice([0, 1, 2 ** d - 1, 2 ** (d - 1), rng.getrandbits(d)])
        yield {'kind': 'int_to_bits', 'op': 'int_to_bits', 'num': num, 'd': d}
        # too few digits -> rejected
        if i % 10 == 0:
            yield {'kind': 'int_to_bits/too_few', 'op': 'int_to_bits', 'num': 2 ** d + rng.getrandbits(d), 'd': d}
            yield {'kind': 'int_to_bits/too_few', 'op': 'int_to_bits', 'num': 0, 'd': 0}
        L = rng.randint(0, 300)
        bits = [rng.randint(0, 1) for _ in range(L)]
        if i % 7 == 0:   # truthy non-binary entries
            bits = [b * rng.choice([1, 2, -3]) for b in bits]
        yield {'kind': 'bits_to_int', 'op': 'bits_to_int', 'bits': bits}


def _sequence_cases(rng, tier):
    """Call sequences inside one process (cases run in order): the same integer rule number at
    descending and ascending radii (a cache keyed by the rule number alone would serve a table of the
    wrong width), each preceded by int_to_bits(R, 2^L) whose returned array the harness then overwrites
    in place (a cached, shared result array would corrupt the later rule evaluations)."""
    rules = [30, 90, 110, 254, 1, 0, 255, 128, 2] + [rng.randrange(256) for _ in range(8 if tier == 'quick' else 60)]
    for R in rules:
        for L in (7, 5, 3, 5, 7, 3):
            yield {'kind': 'sequence/int_to_bits_then_scribble', 'op': 'int_to_bits', 'num': R, 'd': 2 ** L, 'scribble': True}
            for sch in ('default', 'nks'):
                nb = [rng.randint(0, 1) for _ in range(L)]
                rf, pw, cl = rng.choice([('int', False, False), ('int', True, False), ('int', False, True)])
                yield {'kind': 'sequence/radius_%d' % (L // 2), 'op': 'binary_rule', 'nb': nb, 'rule': R, 'rule_form': rf,
                       'scheme': sch, 'pows': pw, 'cls': cl}
            yield {'kind': 'sequence/nks_radius_%d' % (L // 2), 'op': 'nks', 'nb': [rng.randint(0, 1) for _ in range(L)],
                   'rule': R, 'cls': bool(rng.randint(0, 1))}


_generate_base = generate


def generate(rng, tier):
    for c in _generate_base(rng, tier):
        yield c
    for c in _sequence_cases(rng, tier):
        yield c


def _review_cases(rng, tier):
    """Buckets added after the independent review: the rule given as a Python LIST (not only ndarray);
    float-dtype neighbourhoods (a float automaton) in every form incl. the powers-of-two vector; class
    objects called with varying (c, t) and REUSED across calls on different neighbourhoods."""
    n = 150 if tier == 'quick' else 1500
    for i in range(n):
        L = rng.choice([3, 3, 5, 7])
        nb = [rng.randint(0, 1) for _ in range(L)]
        R = rng.getrandbits(2 ** L) if rng.random() < 0.8 else rng.randrange(256)
        rf, pw, cl = rng.choice(_forms())
        yield {'kind': 'review/list_or_float', 'op': 'binary_rule', 'nb': nb, 'rule': R, 'rule_form': rf,
               'scheme': rng.choice(['nks', 'default']), 'pows': pw, 'cls': cl,
               'rule_list': rf == 'array' and rng.random() < 0.5, 'nb_dtype': rng.choice(['int64', 'float64', 'int32', 'uint8', 'bool']),
               'c': rng.randrange(50), 't': rng.randrange(1, 50)}
    for i in range(n // 5):
        L = rng.choice([3, 5, 7])
        R = rng.getrandbits(2 ** L)
        yield {'kind': 'review/class_reuse', 'op': 'class_reuse', 'rule': R, 'scheme': rng.choice(['nks', 'default']),
               'binary': bool(rng.randint(0, 1)), 'pows': bool(rng.randint(0, 1)),
               'calls': [{'nb': [rng.randint(0, 1) for _ in range(L)], 'c': rng.randrange(50), 't': rng.randrange(1, 50)}
                         for _ in range(rng.randint(2, 6))]}


_generate_seq = generate


def generate(rng, tier):
    for c in _generate_seq(rng, tier):
        yield c
    for c in _review_cases(rng, tier):
        yield c


def _scribble(arr):
    try:
        arr[...] = 1 - arr
    except Exception:
        pass


def run_impl(c):
    import cellpylib as cpl
    op = c['op']
    if op == 'bits_to_int':
        r = call_impl(lambda: int(cpl.bits_to_int(c['bits'])))
    elif op == 'int_to_bits':
        def _itb():
            arr = cpl.int_to_bits(c['num'], c['d'])
            out = [int(x) for x in arr]
            if c.get('scribble'):
                _scribble(arr)      # a caller may do what it likes with the array it was given
            return out
        r = call_impl(_itb)
    elif op == 'nks':
        nb = np.array(c['nb'])
        rule_arg = _np_rule(c)
        if c.get('rule_bits'):
            bits = [int(x) for x in bin(c['rule'])[2:].zfill(2 ** len(c['nb']))]
            rule_arg = {'list': lambda: bits, 'ndarray': lambda: np.array(bits), 'ndarray_uint8': lambda: np.array(bits, dtype=np.uint8),
                        'ndarray_bool': lambda: np.array(bits, dtype=bool)}[c['rule_bits']]()
        if c['cls']:
            r = call_impl(lambda: int(cpl.NKSRule(rule_arg)(nb, 0, 1)))
        else:
            r = call_impl(lambda: int(cpl.nks_rule(nb, rule_arg)))
    elif op == 'class_reuse':
        L = len(c['calls'][0]['nb'])
        scheme = 'nks' if c['scheme'] == 'nks' else None
        pows = (2 ** np.arange(L)[::-1]) if c['pows'] else None

        def _reuse():
            obj = cpl.BinaryRule(_np_rule(c), scheme, pows) if (c['binary'] or scheme is None) else cpl.NKSRule(_np_rule(c))
            return [int(obj(np.array(k['nb']), k['c'], k['t'])) for k in c['calls']]
        r = call_impl(_reuse)
    else:
        nb = np.array(c['nb'], dtype=c.get('nb_dtype', 'int64'))
        L = len(c['nb'])
        rule = _np_rule(c)
        if c['rule_form'] == 'array':
            rule = c['rule']
            bits = [int(x) for x in bin(rule)[2:].zfill(2 ** L)]
            rule = bits if c.get('rule_list') else np.array(bits)   # both accepted forms: list and ndarray
        scheme = 'nks' if c['scheme'] == 'nks' else None
        pows = (2 ** np.arange(L)[::-1]) if c['pows'] else None
        if c['cls']:
            r = call_impl(lambda: int(cpl.BinaryRule(rule, scheme, pows)(nb, c.get('c', 0), c.get('t', 1))))
        else:
            r = call_impl(lambda: int(cpl.binary_rule(nb, rule, scheme, pows)))
    return list(r)


def to_coq(c, obs):
    op = c['op']
    if op == 'bits_to_int':
        return '(CBitsToInt %s %s)' % (czlist(c['bits']), cres(obs, cz))
    if op == 'int_to_bits':
        return '(CIntToBits %s %s %s)' % (cN(c['num']), cnat(c['d']), cres(obs, czlist))
    if op == 'nks' and c.get('rule_bits'):
        L = len(c['nb'])
        return '(CBinaryRule false %s (RBits %s) SNks None %s)' % (
            czlist(c['nb']), czlist([int(x) for x in bin(c['rule'])[2:].zfill(2 ** L)]), cres(obs, cz))
    if op == 'nks':
        return '(CNks %s %s %s %s)' % (cbool(c['cls']), czlist(c['nb']), cN(c['rule']), cres(obs, cz))
    if op == 'class_reuse':
        L = len(c['calls'][0]['nb'])
        pows = copt([2 ** (L - 1 - i) for i in range(L)] if c['pows'] else None, czlist)
        use_nks_class = (not c['binary']) and c['scheme'] == 'nks'
        return '(CClassReuse %s %s %s %s %s %s)' % (
            cbool(use_nks_class), cN(c['rule']), 'SNks' if c['scheme'] == 'nks' else 'SDefault', pows,
            clist([k['nb'] for k in c['calls']], czlist), cres(obs, czlist))
    L = len(c['nb'])
    if c['rule_form'] == 'array':
        rule = '(RBits %s)' % czlist([int(x) for x in bin(c['rule'])[2:].zfill(2 ** L)])
    else:
        rule = '(RInt %s)' % cN(c['rule'])
    pows = copt([2 ** (L - 1 - i) for i in range(L)] if c['pows'] else None, czlist)
    return '(CBinaryRule %s %s %s %s %s %s)' % (cbool(c['cls']), czlist(c['nb']), rule,
                                              'SNks' if c['scheme'] == 'nks' else 'SDefault', pows, cres(obs, cz))


def nontrivial(c, obs):
    return obs[0] == 'ok'


def oracle(c, obs):
    """The property itself, evaluated on the implementation's answer."""
    if obs[0] != 'ok':
        return None
    if c['op'] == 'nks' or (c['op'] == 'binary_rule' and c['scheme'] == 'nks'):
        v = int(''.join(str(b) for b in c['nb']), 2)
        if obs[1] != (c['rule'] >> v) & 1:
            return 'nks scheme: expected bit %d of the rule number' % v
    elif c['op'] == 'binary_rule':
        L = len(c['nb'])
        v = int(''.join(str(b) for b in c['nb']), 2)
        if obs[1] != (c['rule'] >> (2 ** L - 1 - v)) & 1:
            return 'default scheme: expected the bit %d places from the most significant end' % v
    return None


def shrink(c):
    if c['op'] == 'binary_rule':
        if c['cls']:
            yield dict(c, cls=False)
        if c['pows']:
            yield dict(c, pows=False)
        if c['rule_form'] == 'array':
            yield dict(c, rule_form='int')
    if c['op'] == 'bits_to_int' and len(c['bits']) > 1:
        yield dict(c, bits=c['bits'][1:])
        yield dict(c, bits=c['bits'][:-1])
    if c['op'] == 'int_to_bits' and c['d'] > 1:
        yield dict(c, d=c['d'] // 2, num=c['num'] % (2 ** (c['d'] // 2)))



def _round5_cases(rng, tier):
    """Round 5: (a) the rule NUMBER held in a NumPy integer scalar (what iterating np.arange(256) or drawing
    rng.integers gives) in every call form, classes included; (b) radius 0: a one-cell neighbourhood, rules 0..3,
    complete."""
    np_types = ['uint8', 'int16', 'int32', 'int64', 'uint64', 'intp']
    for R in range(256):
        if tier == 'quick' and R % 3:
            continue
        for ty in (np_types if tier == 'thorough' else [rng.choice(np_types), 'int64']):
            if ty == 'uint8' or R < 2 ** 15:
                v = rng.randrange(8)
                nb = [(v >> 2) & 1, (v >> 1) & 1, v & 1]
                yield {'kind': 'nprule/nks', 'op': 'nks', 'nb': nb, 'rule': R, 'cls': bool(rng.randint(0, 1)), 'rule_np': ty}
                yield {'kind': 'nprule/binary_rule', 'op': 'binary_rule', 'nb': nb, 'rule': R, 'rule_form': 'int',
                       'scheme': rng.choice(['nks', 'default']), 'pows': bool(rng.randint(0, 1)), 'cls': bool(rng.randint(0, 1)),
                       'rule_np': ty}
    for i in range(40 if tier == 'quick' else 400):
        nb = [rng.randint(0, 1) for _ in range(5)]
        R = rng.getrandbits(32)
        ty = rng.choice(['int64', 'uint64', 'uint32'])
        yield {'kind': 'nprule/radius_2', 'op': 'binary_rule', 'nb': nb, 'rule': R, 'rule_form': 'int',
               'scheme': rng.choice(['nks', 'default']), 'pows': bool(rng.randint(0, 1)), 'cls': bool(rng.randint(0, 1)),
               'rule_np': ty}
        yield {'kind': 'nprule/class_reuse', 'op': 'class_reuse', 'rule': R, 'scheme': rng.choice(['nks', 'default']),
               'binary': bool(rng.randint(0, 1)), 'pows': bool(rng.randint(0, 1)), 'rule_np': ty,
               'calls': [{'nb': [rng.randint(0, 1) for _ in range(5)], 'c': rng.randrange(50), 't': rng.randrange(1, 50)}
                         for _ in range(rng.randint(2, 4))]}
    for R in range(4):
        for b in (0, 1):
            for rf, pw, cl in _forms():
                for sch in ('nks', 'default'):
                    yield {'kind': 'radius0/binary_rule', 'op': 'binary_rule', 'nb': [b], 'rule': R, 'rule_form': rf,
                           'scheme': sch, 'pows': pw, 'cls': cl}
            for cl in (False, True):
                yield {'kind': 'radius0/nks', 'op': 'nks', 'nb': [b], 'rule': R, 'cls': cl}


def _round6_cases(rng, tier):
    """Round 6: nks_rule / NKSRule handed the rule as a BIT ARRAY (list or ndarray): nks_rule forwards to
    binary_rule(scheme='nks'), so every rule form binary_rule accepts is accepted here too."""
    for i in range(120 if tier == 'quick' else 1200):
        L = rng.choice([1, 3, 3, 5, 7])
        nb = [rng.randint(0, 1) for _ in range(L)]
        R = rng.getrandbits(2 ** L)
        yield {'kind': 'nks_bits/%s' % ('class' if i % 2 else 'function'), 'op': 'nks', 'nb': nb, 'rule': R, 'cls': bool(i % 2),
               'rule_bits': rng.choice(['list', 'ndarray', 'ndarray_uint8', 'ndarray_bool'])}


_generate_r4 = generate


def generate(rng, tier):
    for c in _generate_r4(rng, tier):
        yield c
    for c in _round5_cases(rng, tier):
        yield c
    for c in _round6_cases(rng, tier):
        yield c


def _np_rule(c):
    """the rule number as the case wants it handed over (Python int, or a NumPy integer scalar)"""
    return getattr(np, c['rule_np'])(c['rule']) if c.get('rule_np') else c['rule']


# ------------------------------------------------------------------ source tie (appended; harness/translate.py)
# pre(): regenerate coq/gen/GenFuns.v from the Python source of the tree under test and, if it changed, re-prove
# GenProps/GenFunsEquivC07.v, GenProps/C07Src.v and Properties/C07.v (theorem C07_source_tie) by hand.
# extra_checks(): report a failed translation / equivalence proof (theorem names, translator or coqc error).
from harness import translate as _translate
_prev_pre = globals().get('pre')
_prev_extra_checks = globals().get('extra_checks')
TRUSTED = list(globals().get('TRUSTED', [])) + [_translate.TRUSTED_NOTE]
NOTES = list(globals().get('NOTES', [])) + [
    'coq/gen/GenFuns.v is regenerated from the Python source at the start of every run; theorem C07_source_tie proves '
    'the regenerated definitions equal to the hand-written model for all inputs']


def pre(ctx):
    if _prev_pre is not None:
        _prev_pre(ctx)
    _translate.pre_hook(ctx, 'C07')


def extra_checks(ctx):
    out = list(_prev_extra_checks(ctx)) if _prev_extra_checks is not None else []
    return out + _translate.extra_hook(ctx, 'C07')
