"""C10 — block automata (evolve_block / evolve2d_block): correspondence generators, Python twins of the
block-rule families of coq/Model/Block.v (brule_spec / brule2_spec), runner, Coq emitter, and the
property's own oracle (partition, block shape, write-back, multiset conservation)."""
import numpy as np
from harness.driver import call_impl, cz, cnat, czlist, cgrid, chist, clist, cres, cpair

ID = 'C10'
COQ_IMPORTS = 'From CPL Require Import Model.Base Model.Block Corr.C10.\nOpen Scope Z_scope.'
NONTRIVIAL_RULE = ('exhaustive sweep b in 1..5 x m in 1..4 (1D) and (b1,b2) in 1..3^2 x (m1,m2) in 1..3^2 (2D) over the rule '
                   'families script / reversal / rotation / rotation by t / swap table, T in 1..5, history 1..2, automaton '
                   'dtypes int64 / int8 / uint8 / int32 / uint64 / float64 / bool (states above 2**53, NaN states), rules '
                   'that rearrange their argument in place or scribble on it, 1-D / scalar 2D results, plus '
                   'non-divisible sizes and wrongly shaped results; non-trivial = the call returned and the rule was '
                   'called at least once (T >= 2); distinct = distinct case dicts')
EXHAUSTIVE = {'quick': False, 'thorough': False}
NOTES = ['every (b, m) with b<=5, m<=4 and every ((b1,b2),(m1,m2)) with entries <=3 appears with every rule family',
         'evolve2d_block silently BROADCASTS a block-rule result that NumPy can broadcast into the block: a (1,w) / (h,1) / '
         '(1,1) array, a 1-D list of length w or 1, a scalar. The model has NumPy\'s rule for nested lists (Model/Block.v '
         'bcast); 1-D and scalar results are generated too and are compared through their 2-D equivalents ([l] and [[z]]), '
         'which is NumPy\'s own broadcasting rule. The property text does not speak about such results: they are checked '
         'model-against-code only, the property oracle skips the write-back clause for them.',
         'evolve_block silently truncates / zero-fills a result of the wrong length (zip); modelled and compared.',
         'a negative block size is accepted by evolve_block (4 % -2 == 0) and yields all-zero rows: outside the quantifier '
         '(b >= 1), not generated.',
         'NaN states (float64 automata, value-agnostic rules only) are transported as a sentinel integer.']
ASSUMPTIONS = ['cell states and rule results are representable in the automaton\'s dtype (store = identity); float automata '
               'carry integer-valued states (and NaN)',
               '2D block rules return a nested list / 2D array / 1-D list / scalar; NumPy broadcasting is modelled',
               'any exception counts as rejection (the code raises a bare Exception); classes are not compared']
TRUSTED = ['Python twins of the block-rule families (BlockRule1 / BlockRule2 in harness/props/c10.py)',
           'the 1-D -> [l] and scalar -> [[z]] normalisation of 2D rule results in to_coq']

SENT = -(2 ** 40) - 12345        # transports NaN
NOTINT = SENT + 1                # transports a non-integer float (never produced by the unchanged code)
DTYPES = {'int64': (-2 ** 63, 2 ** 63 - 1), 'int8': (-128, 127), 'uint8': (0, 255), 'int32': (-2 ** 31, 2 ** 31 - 1),
          'uint64': (0, 2 ** 64 - 1), 'float64': (-2 ** 52, 2 ** 52), 'bool': (0, 1)}
DT_POOL = ['int64', 'int64', 'int64', 'int8', 'uint8', 'int32', 'uint64', 'float64', 'bool']


def enc(x):
    """a cell state as the integer the Coq side sees"""
    if isinstance(x, (bool, np.bool_)):
        return int(x)
    if isinstance(x, (float, np.floating)):
        if x != x:
            return SENT
        return int(x) if float(x).is_integer() else NOTINT
    return int(x)


def dec(z, dtype):
    return float('nan') if (z == SENT and dtype == 'float64') else z


def _raw(x):
    return x.item() if hasattr(x, 'item') else x


# ------------------------------------------------------------------ twins of spec_brule / spec_brule2
def _rotl(k, l):
    n = len(l)
    if n == 0:
        return list(l)
    k %= n
    return list(l[k:]) + list(l[:k])


class BlockRule1:
    """spec_brule: logs (block contents, t); the call counter is the only state.
    spec['ret'] chooses the container the result is returned in (tuple / list / ndarray / generator)."""
    def __init__(self, spec):
        self.spec, self.i, self.log, self.rets = spec, 0, [], []

    def __call__(self, blk, t):
        raw = list(blk)            # numpy scalars of the automaton's dtype
        b = [enc(x) for x in raw]
        t = int(t)
        self.log.append([b, t])
        i, self.i = self.i, self.i + 1
        sp = self.spec
        fam = sp['fam']
        if fam == 'script':
            r = list(sp['vs'][i]) if i < len(sp['vs']) else []
        elif fam == 'rev':
            r = raw[::-1]
        elif fam == 'rot':
            r = _rotl(sp['k'], raw)
        elif fam == 'rott':
            r = _rotl(t, raw)
        elif fam == 'swap':
            r = raw
            for k, v in sp['tbl']:
                if list(k) == b:
                    r = list(v)
                    break
        else:
            raise KeyError(fam)
        self.rets.append([enc(x) for x in r])
        ret = sp.get('ret', 'tuple')
        if ret == 'list':
            return list(r)
        if ret == 'ndarray' and len(r) > 0:
            return np.array(r)
        if ret == 'gen':
            return (x for x in r)
        return tuple(r)


def norm2(r):
    """the 2-D equivalent (NumPy broadcasting) of a block-rule result: scalar -> [[z]], 1-D -> [l]"""
    if not isinstance(r, list):
        return [[r]]
    if len(r) > 0 and not isinstance(r[0], list):
        return [list(r)]
    return [list(row) for row in r]


class BlockRule2:
    """spec_brule2.  spec['mode']: 'new' (a fresh list / array), 'inplace' (the argument array is rearranged in place
    and returned), 'scribble' (a fresh array is returned and the argument is overwritten afterwards)."""
    def __init__(self, spec):
        self.spec, self.i, self.log, self.rets = spec, 0, [], []

    def __call__(self, blk, t):
        raw = [list(row) for row in np.asarray(blk)]     # numpy scalars of the automaton's dtype
        b = [[enc(x) for x in row] for row in raw]
        t = int(t)
        self.log.append([b, t])
        i, self.i = self.i, self.i + 1
        sp = self.spec
        fam = sp['fam']
        if fam == 'script':
            r = sp['vs'][i] if i < len(sp['vs']) else []
            self.rets.append(norm2(r))
            return r if not isinstance(r, list) else [x if not isinstance(x, list) else list(x) for x in r]
        if fam == 'rev':
            r = [row[::-1] for row in raw[::-1]]
        elif fam == 'roll':
            r = _rotl(sp['k1'], [_rotl(sp['k2'], row) for row in raw])
        elif fam == 'rollt':
            r = _rotl(t, [_rotl(t, row) for row in raw])
        elif fam == 'swap':
            r = raw
            for k, v in sp['tbl']:
                if [list(x) for x in k] == b:
                    r = [list(x) for x in v]
                    break
        else:
            raise KeyError(fam)
        self.rets.append([[enc(x) for x in row] for row in r])
        mode = sp.get('mode', 'new')
        if mode == 'inplace':
            blk[...] = np.array(r)
            return blk
        if mode == 'scribble':
            out = np.array(r)
            blk[...] = sp.get('fill', 1)
            return out
        # alternate between a nested list and an ndarray
        return np.array(r) if i % 2 == 0 else r


# ------------------------------------------------------------------ dressings of the user's callable, input layouts
SIG_DRESS = ['starargs', 'nrest', 'kwopts', 'defaults', 'partial', 'method', 'lambda', 'sub:BaseRule']
# return forms the unchanged library accepts: 1D iterates the result (zip) -> any iterable, also a generator;
# 2D assigns it into the np.ix_ selection -> nested list / tuple / ndarray (any dtype that casts), not a generator.
# 'retshared' returns the same preallocated buffer on every call (a common NumPy callback idiom; fine because the library
# writes each block back before the next call); 'retview' (2D) returns a view of the argument block.
RET_DRESS_1D = ['rettuple', 'retlist', 'retnp', 'retnpdtype', 'retgen', 'retshared']
RET_DRESS_2D = ['rettuple', 'retlist', 'retnp', 'retnpdtype', 'retshared', 'retview']
LAYOUTS = ['fortran', 'transposed', 'negstride', 'strided']


def _other_dtype(a):
    a = np.asarray(a)
    return np.int64 if a.dtype.kind == 'f' else np.float64


def dress_block(f, how):
    """f: a block rule taking (block, timestep) positionally.  Returns a callable with the same behaviour and the
    shape / return form named by `how` (None = f itself).  Applied OUTERMOST (around the logging twin)."""
    if not how:
        return f
    if how.startswith('ret'):
        shared = {}

        def converted(block_arg, step_arg):
            v = f(block_arg, step_arg)
            if isinstance(v, np.ndarray) and v is block_arg:
                v = v.copy()
            if how == 'rettuple':
                a = np.asarray(v)
                return tuple(a.tolist()) if a.ndim == 1 else tuple(tuple(r) for r in a.tolist())
            if how == 'retlist':
                return np.asarray(v).tolist()
            if how == 'retnp':
                return np.asarray(v)
            if how == 'retnpdtype':
                return np.asarray(v).astype(_other_dtype(v))
            if how == 'retgen':
                return (x for x in list(v))
            if how == 'retshared':
                a = np.asarray(v)
                buf = shared.get(a.shape)
                if buf is None or buf.dtype != a.dtype:
                    buf = shared[a.shape] = np.empty_like(a)
                buf[...] = a
                return buf
            if how == 'retview':
                a = np.asarray(v)
                return a[::-1, ::-1][::-1, ::-1]          # a doubly reversed (non-contiguous) view
            raise ValueError(how)
        return converted
    if how == 'starargs':
        def g(*args):
            return f(*args)
        return g
    if how == 'nrest':
        def g(first_arg, *rest):
            return f(first_arg, *rest)
        return g
    if how == 'kwopts':
        def g(block_arg, step_arg, **opts):
            return f(block_arg, step_arg)
        return g
    if how == 'defaults':
        def g(block_arg, step_arg=None, scale=1):
            return f(block_arg, step_arg)
        return g
    if how == 'partial':
        import functools
        return functools.partial(f)
    if how == 'lambda':
        return lambda *a: f(*a)
    if how == 'method':
        class Holder:
            def apply(self, block_arg, step_arg):
                return f(block_arg, step_arg)
        return Holder().apply
    if how == 'sub:BaseRule':
        import cellpylib as cpl            # the tree under test
        class UserBlockRule(cpl.BaseRule):
            def __call__(self, block_arg, step_arg):
                return f(block_arg, step_arg)
        return UserBlockRule()
    raise ValueError('unknown dressing %r' % (how,))


def lay_out(a, how):
    """an array equal to `a` with the memory layout named by `how` (None = C-contiguous as built)"""
    if not how:
        return a
    if how == 'fortran':
        return np.asfortranarray(a)
    if how == 'transposed':                      # a transposed view of storage built the other way round
        perm = list(range(a.ndim))
        perm[-1], perm[-2] = perm[-2], perm[-1]
        return np.ascontiguousarray(a.transpose(perm)).transpose(perm)
    if how == 'negstride':                       # negative strides on the cell axes
        if a.ndim == 2:
            return np.ascontiguousarray(a[:, ::-1])[:, ::-1]
        return np.ascontiguousarray(a[:, ::-1, ::-1])[:, ::-1, ::-1]
    if how == 'strided':                         # every second cell of a longer / larger array
        if a.ndim == 2:
            big = np.zeros((a.shape[0], 2 * a.shape[1] + 1), dtype=a.dtype)
            big[:, 1::2] = a
            return big[:, 1::2]
        big = np.zeros((a.shape[0], 2 * a.shape[1] + 1, 2 * a.shape[2] + 1), dtype=a.dtype)
        big[:, 1::2, 1::2] = a
        return big[:, 1::2, 1::2]
    raise ValueError('unknown layout %r' % (how,))


# ------------------------------------------------------------------ generators
def _pick(rng, dtype):
    """one state of the dtype: mostly small, sometimes extreme / not representable as a double"""
    lo, hi = DTYPES[dtype]
    if dtype == 'bool':
        return rng.randint(0, 1)
    r = rng.random()
    if r < 0.6 or dtype in ('int8', 'uint8'):
        return rng.randint(max(lo, -100), min(hi, 250))
    if r < 0.75:
        return rng.choice([lo, hi, lo + 1, hi - 1])
    if dtype in ('int64', 'uint64'):
        v = 2 ** 53 + 1 + 2 * rng.randrange(2 ** 20)          # odd, above 2**53: not a double
        return v if (dtype == 'uint64' or rng.random() < 0.5) else -v
    return rng.randint(lo, hi)


def _distinct(rng, n, dtype='int64'):
    lo, hi = DTYPES[dtype]
    if dtype == 'bool' or hi - lo + 1 < n:
        return [_pick(rng, dtype) for _ in range(n)]
    if hi - lo + 1 <= 4 * n:
        return rng.sample(range(lo, hi + 1), n)
    out = []
    while len(out) < n:
        v = _pick(rng, dtype)
        if v not in out:
            out.append(v)
    return out


def _perm(rng, l):
    l = list(l)
    rng.shuffle(l)
    return l


def _old(rng, dtype):
    return rng.randint(0, 1 if dtype == 'bool' else 9)


def _hist1(rng, H, N, alphabet=None, dtype='int64'):
    rows = [[_old(rng, dtype) for _ in range(N)] for _ in range(H - 1)]
    last = [rng.randrange(alphabet) for _ in range(N)] if alphabet else _distinct(rng, N, dtype)
    return rows + [last]


def _hist2(rng, H, R, C, alphabet=None, dtype='int64'):
    gs = [[[_old(rng, dtype) for _ in range(C)] for _ in range(R)] for _ in range(H - 1)]
    if alphabet:
        last = [[rng.randrange(alphabet) for _ in range(C)] for _ in range(R)]
    else:
        vals = _distinct(rng, R * C, dtype)
        last = [vals[i * C:(i + 1) * C] for i in range(R)]
    return gs + [last]


def _sval(dtype, k):
    """the k-th scripted result value, inside the dtype"""
    lo, hi = DTYPES[dtype]
    if hi - lo < 5000:
        return lo + k % (hi - lo + 1)
    return 1000 + k


def _alphabet(dtype, cells):
    return 2 if (dtype == 'bool' or cells >= 3) else 3


def _rules1(rng, b, m, T, hist, dtype='int64'):
    """(kind, spec, replacement history or None) for every 1D family"""
    ncalls = m * max(T - 1, 0)
    ret = lambda: rng.choice(['tuple', 'tuple', 'list', 'ndarray', 'gen'])
    yield 'rev', {'fam': 'rev', 'perm': True, 'ret': ret()}, None
    yield 'rot', {'fam': 'rot', 'k': rng.randint(0, b + 1), 'perm': True, 'ret': ret()}, None
    yield 'rott', {'fam': 'rott', 'perm': True, 'ret': ret()}, None
    # script, exact lengths
    vs = [[_sval(dtype, i * 10 + j) for j in range(b)] for i in range(ncalls)]
    yield 'script', {'fam': 'script', 'vs': vs, 'perm': False, 'ret': ret()}, None
    # script with too short / too long / empty / missing results (zip truncation; zeros stay)
    vs2 = []
    for i in range(ncalls):
        L = rng.choice([b, b, max(b - 1, 0), b + 1, 0, rng.randint(0, b + 2)])
        vs2.append([_sval(dtype, i * 10 + j) for j in range(L)])
    if ncalls and rng.random() < 0.4:
        vs2 = vs2[:rng.randint(0, ncalls - 1)]
    yield 'script_ragged', {'fam': 'script', 'vs': vs2, 'perm': False, 'ret': rng.choice(['tuple', 'list', 'gen'])}, None
    # swap table over a small alphabet
    A = _alphabet(dtype, b)
    h = _hist1(rng, len(hist), m * b, alphabet=A, dtype=dtype)
    keys = []
    for _ in range(rng.randint(1, 6)):
        k = [rng.randrange(A) for _ in range(b)]
        if rng.random() < 0.6:   # a key that occurs in the initial condition
            j = rng.randrange(m)
            k = h[-1][j * b:(j + 1) * b]
        if k not in keys:
            keys.append(k)
    permuting = rng.random() < 0.7
    tbl = [[k, _perm(rng, k) if permuting else [rng.randrange(A) for _ in range(b)]] for k in keys]
    yield 'swap', {'fam': 'swap', 'tbl': tbl, 'perm': permuting, 'ret': ret()}, h


def _shape(h, w, dtype, base):
    return [[_sval(dtype, base + a * w + c) for c in range(w)] for a in range(h)]


def _rules2(rng, b1, b2, m1, m2, T, hist, dtype='int64'):
    ncalls = m1 * m2 * max(T - 1, 0)
    mode = lambda: rng.choice(['new', 'new', 'inplace', 'scribble'])
    fill = _sval(dtype, 77)
    yield 'rev', {'fam': 'rev', 'perm': True, 'mode': mode(), 'fill': fill}, None
    yield 'roll', {'fam': 'roll', 'k1': rng.randint(0, b1 + 1), 'k2': rng.randint(0, b2 + 1), 'perm': True,
                   'mode': mode(), 'fill': fill}, None
    yield 'rollt', {'fam': 'rollt', 'perm': True, 'mode': mode(), 'fill': fill}, None
    vs = [_shape(b1, b2, dtype, 20 * i) for i in range(ncalls)]
    yield 'script', {'fam': 'script', 'vs': vs, 'perm': False}, None
    # shapes NumPy broadcasts: (1,w) (h,1) (1,1) nested, 1-D of length w or 1, scalar
    vs2 = []
    for i in range(ncalls):
        how = rng.choice(['full', 'row', 'col', 'one', 'flat', 'flat1', 'scalar'])
        if how == 'flat':
            vs2.append(_shape(1, b2, dtype, 20 * i)[0])
        elif how == 'flat1':
            vs2.append([_sval(dtype, 20 * i)])
        elif how == 'scalar':
            vs2.append(_sval(dtype, 20 * i))
        else:
            h, w = {'full': (b1, b2), 'row': (1, b2), 'col': (b1, 1), 'one': (1, 1)}[how]
            vs2.append(_shape(h, w, dtype, 20 * i))
    yield 'script_bcast', {'fam': 'script', 'vs': vs2, 'perm': False}, None
    # swap table
    A = _alphabet(dtype, b1 * b2)
    hs = _hist2(rng, len(hist), m1 * b1, m2 * b2, alphabet=A, dtype=dtype)
    keys = []
    for _ in range(rng.randint(1, 6)):
        k = [[rng.randrange(A) for _ in range(b2)] for _ in range(b1)]
        if rng.random() < 0.6:
            j1, j2 = rng.randrange(m1), rng.randrange(m2)
            k = [row[j2 * b2:(j2 + 1) * b2] for row in hs[-1][j1 * b1:(j1 + 1) * b1]]
        if k not in keys:
            keys.append(k)
    permuting = rng.random() < 0.7
    tbl = []
    for k in keys:
        flat = [x for row in k for x in row]
        flat = _perm(rng, flat) if permuting else [rng.randrange(A) for _ in flat]
        tbl.append([k, [flat[a * b2:(a + 1) * b2] for a in range(b1)]])
    yield 'swap', {'fam': 'swap', 'tbl': tbl, 'perm': permuting, 'mode': mode(), 'fill': rng.randrange(A)}, hs


def _nanify(rng, flat_len):
    return rng.sample(range(flat_len), min(flat_len, rng.choice([1, 1, 2])))


def generate(rng, tier):
    thorough = tier == 'thorough'
    # ---- 1D sweep
    for b in range(1, 6):
        for m in range(1, 5):
            Ts = (1, 2, 3, 4, 5) if thorough else (1, 2, 3, 5)
            for T in Ts:
                for H in ((1, 2) if thorough else (rng.choice([1, 1, 2]),)):
                    dt = rng.choice(DT_POOL)
                    hist = _hist1(rng, H, m * b, dtype=dt)
                    for kind, spec, h2 in _rules1(rng, b, m, T, hist, dt):
                        yield {'kind': '1d/' + kind, 'dim': 1, 'dtype': dt, 'hist': h2 or hist, 'b': b, 'T': T, 'rule': spec}
    # ---- 1D: 64-bit states that are not doubles; NaN states (value-agnostic rules)
    for _ in range(40 if not thorough else 200):
        b, m, T = rng.randint(1, 4), rng.randint(1, 4), rng.randint(2, 5)
        dt = rng.choice(['int64', 'uint64'])
        N = m * b
        row = []
        while len(row) < N:
            v = 2 ** 53 + 1 + 2 * rng.randrange(2 ** 30)
            v = v if (dt == 'uint64' or rng.random() < 0.5) else -v
            if dt == 'uint64' and rng.random() < 0.4:
                v = 2 ** 64 - 1 - rng.randrange(1000)
            if v not in row:
                row.append(v)
        spec = rng.choice([{'fam': 'rev', 'perm': True}, {'fam': 'rot', 'k': 1, 'perm': True}, {'fam': 'rott', 'perm': True}])
        yield {'kind': '1d/wide_ints', 'dim': 1, 'dtype': dt, 'hist': [row], 'b': b, 'T': T, 'rule': spec}
    for _ in range(20 if not thorough else 100):
        b, m, T = rng.randint(1, 4), rng.randint(1, 4), rng.randint(2, 5)
        row = _distinct(rng, m * b, 'float64')
        for i in _nanify(rng, m * b):
            row[i] = SENT
        spec = rng.choice([{'fam': 'rev', 'perm': True}, {'fam': 'rot', 'k': 1, 'perm': True}, {'fam': 'rott', 'perm': True}])
        yield {'kind': '1d/nan', 'dim': 1, 'dtype': 'float64', 'hist': [row], 'b': b, 'T': T, 'rule': spec}
    # ---- 1D non-divisible sizes, block wider than the ring, b = 0
    for N in range(1, 13):
        for b in range(2, 8):
            if N % b != 0:
                dt = rng.choice(DT_POOL)
                yield {'kind': '1d/nondivisible', 'dim': 1, 'dtype': dt, 'hist': _hist1(rng, rng.choice([1, 2]), N, dtype=dt),
                       'b': b, 'T': rng.randint(1, 4), 'rule': {'fam': 'rev', 'perm': True}}
    for N in (1, 4):
        yield {'kind': '1d/b0', 'dim': 1, 'dtype': 'int64', 'hist': _hist1(rng, 1, N), 'b': 0, 'T': 3,
               'rule': {'fam': 'rev', 'perm': True}}
    # ---- 2D sweep
    for b1 in range(1, 4):
        for b2 in range(1, 4):
            for m1 in range(1, 4):
                for m2 in range(1, 4):
                    Ts = (2, 3, 5) if thorough else (rng.choice([1, 2, 3, 3, 4, 5]),)
                    for T in Ts:
                        H = rng.choice([1, 1, 2])
                        dt = rng.choice(DT_POOL)
                        hist = _hist2(rng, H, m1 * b1, m2 * b2, dtype=dt)
                        for kind, spec, h2 in _rules2(rng, b1, b2, m1, m2, T, hist, dt):
                            yield {'kind': '2d/' + kind, 'dim': 2, 'dtype': dt, 'hist': h2 or hist, 'b1': b1, 'b2': b2,
                                   'T': T, 'rule': spec}
    # ---- 2D: rules that rearrange the array they are handed and return it / overwrite it afterwards; long enough
    #      for a step to be overwritten after it was recorded (T >= 4)
    for _ in range(90 if not thorough else 400):
        b1, b2, m1, m2 = rng.randint(1, 3), rng.randint(1, 3), rng.randint(1, 3), rng.randint(1, 3)
        if b1 * b2 == 1:
            b2 = 2
        T, H = rng.randint(4, 6), rng.choice([1, 1, 2])
        dt = rng.choice(DT_POOL)
        hist = _hist2(rng, H, m1 * b1, m2 * b2, dtype=dt)
        fam = rng.choice([{'fam': 'rev'}, {'fam': 'roll', 'k1': rng.randint(0, b1), 'k2': rng.randint(1, b2)}, {'fam': 'rollt'}])
        md = rng.choice(['inplace', 'inplace', 'scribble'])
        yield {'kind': '2d/' + md, 'dim': 2, 'dtype': dt, 'hist': hist, 'b1': b1, 'b2': b2, 'T': T,
               'rule': dict(fam, perm=True, mode=md, fill=_sval(dt, 77))}
    for _ in range(15 if not thorough else 60):
        b1, b2, m1, m2, T = rng.randint(1, 3), rng.randint(1, 3), rng.randint(1, 3), rng.randint(1, 3), rng.randint(2, 5)
        R, C = m1 * b1, m2 * b2
        vals = _distinct(rng, R * C, 'float64')
        for i in _nanify(rng, R * C):
            vals[i] = SENT
        yield {'kind': '2d/nan', 'dim': 2, 'dtype': 'float64', 'hist': [[vals[i * C:(i + 1) * C] for i in range(R)]],
               'b1': b1, 'b2': b2, 'T': T, 'rule': {'fam': rng.choice(['rev', 'rollt']), 'perm': True,
                                                     'mode': rng.choice(['new', 'inplace'])}}
    # ---- 2D wrongly shaped results (ValueError) somewhere in the run
    for _ in range(60 if not thorough else 300):
        b1, b2, m1, m2 = rng.randint(1, 3), rng.randint(1, 3), rng.randint(1, 3), rng.randint(1, 3)
        T = rng.randint(2, 4)
        dt = rng.choice(DT_POOL)
        ncalls = m1 * m2 * (T - 1)
        vs = [_shape(b1, b2, dt, 20 * i) for i in range(ncalls)]
        bad = rng.randrange(ncalls)
        how = rng.choice(['tall', 'wide', 'ragged', 'short', 'emptyrows', 'flatlong', 'flatempty'])
        if how == 'tall':
            vs[bad] = _shape(b1 + 1, b2, dt, 7)
        elif how == 'wide':
            vs[bad] = _shape(b1, b2 + 1, dt, 7)
        elif how == 'ragged':
            vs[bad] = _shape(b1, b2, dt, 7) + [[1] * (b2 + 1)]
        elif how == 'short':
            vs = vs[:bad]
        elif how == 'flatlong':
            vs[bad] = [_sval(dt, j) for j in range(b2 + 1)]
        elif how == 'flatempty':
            vs[bad] = []
        else:
            vs[bad] = [[] for _ in range(b1)]
        yield {'kind': '2d/badshape_' + how, 'dim': 2, 'dtype': dt, 'hist': _hist2(rng, 1, m1 * b1, m2 * b2, dtype=dt),
               'b1': b1, 'b2': b2, 'T': T, 'rule': {'fam': 'script', 'vs': vs, 'perm': False}}
    # ---- 2D non-divisible on the rows, on the columns, on both; block size 0
    for R in range(1, 7):
        for C in range(1, 7):
            for b1, b2 in ((2, 1), (1, 2), (2, 2), (3, 2), (2, 3), (4, 5)):
                if R % b1 != 0 or C % b2 != 0:
                    if rng.random() < (1.0 if thorough else 0.45):
                        dt = rng.choice(DT_POOL)
                        yield {'kind': '2d/nondivisible', 'dim': 2, 'dtype': dt, 'hist': _hist2(rng, 1, R, C, dtype=dt),
                               'b1': b1, 'b2': b2, 'T': rng.randint(1, 3), 'rule': {'fam': 'rev', 'perm': True}}
    yield {'kind': '2d/b0', 'dim': 2, 'dtype': 'int64', 'hist': _hist2(rng, 1, 2, 2), 'b1': 0, 'b2': 1, 'T': 2,
           'rule': {'fam': 'rev', 'perm': True}}
    yield {'kind': '2d/b0', 'dim': 2, 'dtype': 'int64', 'hist': _hist2(rng, 1, 2, 2), 'b1': 2, 'b2': 0, 'T': 2,
           'rule': {'fam': 'rev', 'perm': True}}
    # ---- dressed callables (signature shapes, wrapper objects, return forms), dressing outermost;
    #      odd and even steps (T >= 3), histories 1..2
    small = ['int64', 'int32', 'uint8', 'float64']
    reps = 4 if not thorough else 10
    for how in SIG_DRESS + RET_DRESS_1D:
        for _ in range(reps):
            b, m, T, H = rng.randint(1, 4), rng.randint(2, 4), rng.randint(3, 5), rng.choice([1, 2])
            dt = rng.choice(small)
            hist = [[rng.randint(0, 9) for _ in range(m * b)] for _ in range(H - 1)] + [rng.sample(range(1, 120), m * b)]
            spec = rng.choice([{'fam': 'rev', 'perm': True}, {'fam': 'rot', 'k': rng.randint(1, b), 'perm': True},
                               {'fam': 'rott', 'perm': True},
                               {'fam': 'script', 'perm': False,
                                'vs': [[(i * 10 + j) % 100 for j in range(b)] for i in range(m * (T - 1))]}])
            yield {'kind': 'dress/%s/1d' % how, 'dim': 1, 'dtype': dt, 'hist': hist, 'b': b, 'T': T, 'rule': spec,
                   'dress': how, 'layout': rng.choice([None, None] + LAYOUTS)}
    for how in SIG_DRESS + RET_DRESS_2D:
        for _ in range(reps):
            b1, b2, m1, m2 = rng.randint(1, 3), rng.randint(1, 3), rng.randint(1, 3), rng.randint(2, 3)
            T, H = rng.randint(3, 5), rng.choice([1, 2])
            dt = rng.choice(small)
            R, C = m1 * b1, m2 * b2
            vals = rng.sample(range(1, 120), R * C)
            hist = [[[rng.randint(0, 9) for _ in range(C)] for _ in range(R)] for _ in range(H - 1)] + \
                   [[vals[i * C:(i + 1) * C] for i in range(R)]]
            spec = rng.choice([{'fam': 'rev', 'perm': True},
                               {'fam': 'roll', 'k1': rng.randint(0, b1), 'k2': rng.randint(1, b2), 'perm': True},
                               {'fam': 'rollt', 'perm': True},
                               {'fam': 'script', 'perm': False,
                                'vs': [_shape(b1, b2, 'uint8', 20 * i) for i in range(m1 * m2 * (T - 1))]}])
            if spec['fam'] != 'script' and not how.startswith('ret'):
                spec['mode'] = rng.choice(['new', 'inplace'])
            yield {'kind': 'dress/%s/2d' % how, 'dim': 2, 'dtype': dt, 'hist': hist, 'b1': b1, 'b2': b2, 'T': T,
                   'rule': spec, 'dress': how, 'layout': rng.choice([None, None] + LAYOUTS)}
    # ---- non-contiguous input layouts: 1D (strided view of a longer array, negative strides, Fortran, transposed view)
    #      and 2D (the same, over the two cell axes)
    for lay in LAYOUTS:
        for _ in range(5 if not thorough else 20):
            dt = rng.choice(DT_POOL)
            b, m, T, H = rng.randint(1, 4), rng.randint(1, 4), rng.randint(2, 5), rng.choice([1, 2, 3])
            hist = _hist1(rng, H, m * b, dtype=dt)
            kind, spec, h2 = rng.choice(list(_rules1(rng, b, m, T, hist, dt)))
            yield {'kind': 'layout/%s/1d' % lay, 'dim': 1, 'dtype': dt, 'hist': h2 or hist, 'b': b, 'T': T, 'rule': spec,
                   'layout': lay}
            b1, b2, m1, m2 = rng.randint(1, 3), rng.randint(1, 3), rng.randint(1, 3), rng.randint(1, 3)
            T, H = rng.randint(2, 5), rng.choice([1, 1, 2])
            hist = _hist2(rng, H, m1 * b1, m2 * b2, dtype=dt)
            kind, spec, h2 = rng.choice(list(_rules2(rng, b1, b2, m1, m2, T, hist, dt)))
            yield {'kind': 'layout/%s/2d' % lay, 'dim': 2, 'dtype': dt, 'hist': h2 or hist, 'b1': b1, 'b2': b2, 'T': T,
                   'rule': spec, 'layout': lay}
    # ---- random larger ones
    n_rand = 150 if not thorough else 2500
    for _ in range(n_rand):
        dt = rng.choice(DT_POOL)
        if rng.random() < 0.5:
            b, m, T, H = rng.randint(1, 8), rng.randint(1, 8), rng.randint(1, 8), rng.randint(1, 3)
            hist = _hist1(rng, H, m * b, dtype=dt)
            kind, spec, h2 = rng.choice(list(_rules1(rng, b, m, T, hist, dt)))
            yield {'kind': '1d/random/' + kind, 'dim': 1, 'dtype': dt, 'hist': h2 or hist, 'b': b, 'T': T, 'rule': spec}
        else:
            b1, b2, m1, m2 = rng.randint(1, 4), rng.randint(1, 4), rng.randint(1, 4), rng.randint(1, 4)
            T, H = rng.randint(1, 6), rng.randint(1, 2)
            hist = _hist2(rng, H, m1 * b1, m2 * b2, dtype=dt)
            kind, spec, h2 = rng.choice(list(_rules2(rng, b1, b2, m1, m2, T, hist, dt)))
            yield {'kind': '2d/random/' + kind, 'dim': 2, 'dtype': dt, 'hist': h2 or hist, 'b1': b1, 'b2': b2, 'T': T,
                   'rule': spec}


# ------------------------------------------------------------------ runner
def _np_dtype(name):
    return {'bool': np.bool_}.get(name, getattr(np, name, None))


def _encode_array(a):
    if a.ndim == 1:
        return [enc(x) for x in a.tolist()]
    return [_encode_array(x) for x in a]


def run_impl(c):
    import cellpylib as cpl
    dt = c.get('dtype', 'int64')

    def build(x):
        return [build(y) for y in x] if isinstance(x, list) else dec(x, dt)
    ca = lay_out(np.array(build(c['hist']), dtype=_np_dtype(dt)), c.get('layout'))
    if c['dim'] == 1:
        rule = BlockRule1(c['rule'])
        fn = dress_block(rule, c.get('dress'))
        r = call_impl(lambda: cpl.evolve_block(ca, block_size=c['b'], timesteps=c['T'], apply_rule=fn))
    else:
        rule = BlockRule2(c['rule'])
        fn = dress_block(rule, c.get('dress'))
        r = call_impl(lambda: cpl.evolve2d_block(ca, block_size=(c['b1'], c['b2']), timesteps=c['T'], apply_rule=fn))
    if r[0] == 'ok':
        out = np.asarray(r[1])
        return ['ok', {'hist': _encode_array(out), 'log': rule.log, 'rets': rule.rets, 'dtype': str(out.dtype)}]
    return ['exc', r[1]]


# ------------------------------------------------------------------ Coq terms
def _rule1(sp):
    f = sp['fam']
    if f == 'script':
        return '(BScript %s)' % cgrid(sp['vs'])
    if f == 'rev':
        return 'BRev'
    if f == 'rot':
        return '(BRot %s)' % cnat(sp['k'])
    if f == 'rott':
        return 'BRotT'
    return '(BSwap %s)' % clist(sp['tbl'], lambda kv: cpair(czlist(kv[0]), czlist(kv[1])))


def _rule2(sp):
    f = sp['fam']
    if f == 'script':
        return '(B2Script %s)' % chist([norm2(v) for v in sp['vs']])
    if f == 'rev':
        return 'B2Rev'
    if f == 'roll':
        return '(B2Roll %s %s)' % (cnat(sp['k1']), cnat(sp['k2']))
    if f == 'rollt':
        return 'B2RollT'
    return '(B2Swap %s)' % clist(sp['tbl'], lambda kv: cpair(cgrid(kv[0]), cgrid(kv[1])))


def to_coq(c, obs):
    if c['dim'] == 1:
        o = cres(obs, lambda v: cpair(cgrid(v['hist']), clist(v['log'], lambda e: cpair(czlist(e[0]), cnat(e[1])))))
        return '(CBlock1 %s %s %s %s %s)' % (cgrid(c['hist']), cnat(c['b']), cnat(c['T']), _rule1(c['rule']), o)
    o = cres(obs, lambda v: cpair(chist(v['hist']), clist(v['log'], lambda e: cpair(cgrid(e[0]), cnat(e[1])))))
    return '(CBlock2 %s %s %s %s %s %s)' % (chist(c['hist']), cnat(c['b1']), cnat(c['b2']), cnat(c['T']),
                                          _rule2(c['rule']), o)


def nontrivial(c, obs):
    return obs[0] == 'ok' and c['T'] >= 2


# ------------------------------------------------------------------ the property's own oracle
def _cells1(N, b, t):
    """closed form of the property: block j at step t (odd: aligned with cell 0; even: offset by one cell)"""
    off = 0 if t % 2 == 1 else -1
    return [[(j * b + off + i) % N for i in range(b)] for j in range(N // b)]


def _cells2(R, C, b1, b2, t):
    off = 0 if t % 2 == 1 else 1
    return [([(j1 * b1 + off + i) % R for i in range(b1)], [(j2 * b2 + off + i) % C for i in range(b2)])
            for j1 in range(R // b1) for j2 in range(C // b2)]


def oracle(c, obs):
    divisible = (c['b'] >= 1 and len(c['hist'][-1]) % c['b'] == 0 and len(c['hist'][-1]) > 0) if c['dim'] == 1 else \
        (c['b1'] >= 1 and c['b2'] >= 1 and len(c['hist'][-1]) % c['b1'] == 0 and len(c['hist'][-1][0]) % c['b2'] == 0)
    if not divisible:
        return None if obs[0] == 'exc' else 'a size not divisible by the block size was accepted'
    if obs[0] != 'ok':
        if c['kind'].startswith('2d/badshape') or c['T'] == 0:
            return None
        return 'a divisible size was rejected (%s)' % obs[1]
    out, log, rets = obs[1]['hist'], obs[1]['log'], obs[1]['rets']
    H, T = len(c['hist']), c['T']
    if out[:H] != c['hist'] or len(out) != H + T - 1:
        return 'the history is not preserved / wrong number of rows'
    pos = 0
    for t in range(1, T):
        prev, new = out[H - 2 + t], out[H - 1 + t]
        if c['dim'] == 1:
            N, b = len(prev), c['b']
            blocks = _cells1(N, b, t)
            flatprev, flatnew = prev, new
            get = lambda row, cells: [row[i] for i in cells]
            members = blocks
            shape = lambda x: x
        else:
            R, C = len(prev), len(prev[0])
            blocks = _cells2(R, C, c['b1'], c['b2'], t)
            flatprev = [x for row in prev for x in row]
            flatnew = [x for row in new for x in row]
            get = lambda g, rc: [[g[i][j] for j in rc[1]] for i in rc[0]]
            members = [[(i, j) for i in rc[0] for j in rc[1]] for rc in blocks]
        calls = log[pos:pos + len(blocks)]
        if len(calls) != len(blocks):
            return 'step %d: %d rule calls for %d blocks' % (t, len(calls), len(blocks))
        # every cell in exactly one block
        allcells = [x for mcs in members for x in mcs]
        if len(set(allcells)) != len(allcells) or len(allcells) != len(flatprev):
            return 'step %d: blocks are not a partition' % t
        for j, blk in enumerate(blocks):
            if calls[j][1] != t:
                return 'step %d: rule called with t=%d' % (t, calls[j][1])
            if calls[j][0] != get(prev, blk):
                return 'step %d block %d: contents %r, the property requires %r' % (t, j, calls[j][0], get(prev, blk))
            ret = rets[pos + j]
            exact = (len(ret) == len(blk)) if c['dim'] == 1 else \
                (len(ret) == len(blk[0]) and all(len(r) == len(blk[1]) for r in ret))
            if exact and get(new, blk) != ret:
                return 'step %d block %d: result not written back to the same cells' % (t, j)
        # derived from the log alone when the states are distinct: each cell's state is passed exactly once
        if len(set(flatprev)) == len(flatprev):
            seen = [x for cl in calls for x in (cl[0] if c['dim'] == 1 else [y for r in cl[0] for y in r])]
            if sorted(seen) != sorted(flatprev):
                return 'step %d: the logged blocks do not cover every cell exactly once' % t
        if c['rule'].get('perm') and sorted(flatnew) != sorted(flatprev):
            return 'step %d: a permuting block rule did not conserve the multiset of states' % t
        pos += len(blocks)
    if pos != len(log):
        return 'more rule calls than blocks'
    return None


def shrink(c):
    if c.get('dress'):
        yield dict(c, dress=None)
    if c.get('layout'):
        yield dict(c, layout=None)
    if c['T'] > 1:
        yield dict(c, T=c['T'] - 1)
    if len(c['hist']) > 1:
        yield dict(c, hist=c['hist'][-1:])
    if c['dim'] == 1:
        b, N = c['b'], len(c['hist'][-1])
        if b >= 1 and N > b and N % b == 0:
            yield dict(c, hist=[row[:N - b] for row in c['hist']])
    else:
        b1, b2 = c['b1'], c['b2']
        R, C = len(c['hist'][-1]), len(c['hist'][-1][0])
        if b1 >= 1 and R > b1 and R % b1 == 0:
            yield dict(c, hist=[g[:R - b1] for g in c['hist']])
        if b2 >= 1 and C > b2 and C % b2 == 0:
            yield dict(c, hist=[[row[:C - b2] for row in g] for g in c['hist']])
    if c['rule']['fam'] not in ('rev',):
        yield dict(c, rule={'fam': 'rev', 'perm': True})


# ------------------------------------------------------------------ source tie (appended; harness/translate.py)
# pre(): regenerate coq/gen/GenFuns_C10.v from the Python source of the tree under test and, if it changed, re-prove
# GenProps/GenFunsEquivC10.v, GenProps/C10Src.v and Properties/C10.v (theorem C10_source_tie) by hand.
# extra_checks(): report a failed translation / equivalence proof (theorem names, translator or coqc error).
from harness import translate as _translate
_prev_pre = globals().get('pre')
_prev_extra_checks = globals().get('extra_checks')
TRUSTED = list(globals().get('TRUSTED', [])) + [_translate.TRUSTED_NOTE]
NOTES = list(globals().get('NOTES', [])) + [
    'coq/gen/GenFuns_C10.v is regenerated from the Python source at the start of every run; theorem C10_source_tie '
    'proves the regenerated definitions equal to the hand-written model for all inputs']


def pre(ctx):
    if _prev_pre is not None:
        _prev_pre(ctx)
    _translate.pre_hook(ctx, 'C10')


def extra_checks(ctx):
    out = list(_prev_extra_checks(ctx)) if _prev_extra_checks is not None else []
    return out + _translate.extra_hook(ctx, 'C10')
