"""C05 — evolution extends the given history and never modifies it; split law.

Correspondence: the real cpl.evolve / cpl.evolve2d (memoize in {False, True, 'recursive'} with the pure
family Lin; LinCT / Script with memoize=False) and cpl.evolve_block / cpl.evolve2d_block are run on
histories of 1..4 rows; the whole returned array is compared inside Coq with the model
(Model/Engine.v's evolve_fixed under the plain and block steps), together with the caller's array
after the call (must equal a private pre-call copy), the dtype and the freshness of the result.
Split cases run evolve(evolve(h, T1), T2) - the same rule object in both calls - and
evolve(h, T1 + T2 - 1) and compare each with the model of the same calls, for every (T1, T2) with
T1 + T2 <= 7; the oracle demands the two results to be equal on the implementation whenever the
theorems say they must (rules ignoring t: always; block engines: T1 odd)."""
import numpy as np
from harness.driver import call_impl, cz, cnat, cbool, czlist, cgrid, chist, clist, cres, cpair
from harness.twins import make_rule, coq_rule_spec, Scribble, PredLt, dress, dress_pred, RULE_DRESSINGS, PRED_DRESSINGS, invoke, Lin1, Lin2
from harness.props.c06 import rand_rule, rand_hist, ints, MEMOS, DTYPES, build_ca, build_rule, conv

ID = 'C05'
COQ_IMPORTS = ('From CPL Require Import Model.Base Model.Rules Model.Engine Model.Evolve1D Model.Evolve2D Model.Block '
               'Corr.C05.\nOpen Scope Z_scope.')
NONTRIVIAL_RULE = ('non-trivial = the call(s) returned and at least one new row was computed (T >= 2, or T1 + T2 >= 3 '
                   'for split cases); distinct = distinct case dicts')
EXHAUSTIVE = {'quick': False, 'thorough': False}
NOTES = ['review buckets: rule wrapped in twins.Scribble (overwrites its neighbourhood argument after computing), callable '
         'timesteps (t < T) on the one-call observables, 2D r = 0, 1D 3 <= r <= N, caller arrays that are strided views '
         '(big[::2], the skipped rows must stay untouched), read-only copies and read-only zero-stride np.broadcast_to views',
         'bucket split/block/evenT1/*: the open finding block-split-even (known_findings.json): pair/ block reversal and '
         'rotation on distinct cell values, even T1: both runs are compared with the model, and the oracle reports the '
         'failing split law, which the driver prints as KNOWN-FINDING',
         'one-call sweep: every H in 1..4 x T in 1..5 on every engine (evolve, evolve2d with both neighbourhood types, '
         'evolve_block, evolve2d_block), every memoize mode for the pure family, dtypes int32/int64/uint8/float64 cycled '
         'and crossed completely on the smallest configurations',
         'split sweep: every (T1, T2) with T1 + T2 <= 7 on every engine and memoize mode; both the two-call result and '
         'the unsplit result are compared with the model; the oracle requires them to be equal for t-independent rules '
         '(plain engines) and for odd T1 (block engines)']
ASSUMPTIONS = ['rule results are representable in the automaton dtype; float automata carry integer-valued floats, except '
               'the dyadic buckets: cells are base + j * 2^-40 (exact in float64; float32 with base 0) and the model works '
               'on the integers j (injective rescaling; observed values are converted back exactly)',
               'T >= 1, 1 <= r <= ring size (r <= min(rows, cols) in 2D), block sizes divide the automaton',
               'memoised runs are made with pure rules only and compared with the plain-engine model (C03/C04)',
               'the rule does not hold a reference into the caller\'s array (that aliasing case is C13)']
TRUSTED = ['Python twins Lin/LinCT/Script of harness/twins.py and the block-rule twins of harness/props/c05.py '
           '(rev / rot / rott, rev / roll / rollt: the families BRev, BRot, BRotT, B2Rev, B2Roll, B2RollT of Model/Block.v)']

PLAIN = [('lin', False), ('lin', True), ('lin', 'recursive'), ('linct', False), ('script', False)]
PAIRS = [(a, b) for a in range(1, 7) for b in range(1, 7) if a + b <= 7]


# ---------------------------------------------------------------- block-rule twins (Model/Block.v spec_brule / spec_brule2)
def _rotl(k, l):
    n = len(l)
    if n == 0:
        return list(l)
    k %= n
    return list(l[k:]) + list(l[:k])


class Blk1:
    def __init__(self, sp):
        self.sp = sp

    def __call__(self, blk, t):
        b = [int(x) for x in blk]
        f = self.sp['fam']
        if f == 'rev':
            return tuple(b[::-1])
        if f == 'rot':
            return tuple(_rotl(self.sp['k'], b))
        return tuple(_rotl(int(t), b))            # rott


class Blk2:
    def __init__(self, sp):
        self.sp = sp

    def __call__(self, blk, t):
        b = [[int(x) for x in row] for row in np.asarray(blk).tolist()]
        f = self.sp['fam']
        if f == 'rev':
            return np.array([row[::-1] for row in b[::-1]])
        if f == 'roll':
            return np.array(_rotl(self.sp['k1'], [_rotl(self.sp['k2'], row) for row in b]))
        return np.array(_rotl(int(t), [_rotl(int(t), row) for row in b]))     # rollt


def cbrule(sp, dim):
    f = sp['fam']
    if dim == 1:
        return {'rev': 'BRev', 'rott': 'BRotT'}.get(f) or '(BRot %s)' % cnat(sp['k'])
    return {'rev': 'B2Rev', 'rollt': 'B2RollT'}.get(f) or '(B2Roll %s %s)' % (cnat(sp['k1']), cnat(sp['k2']))


def tdep(c):
    """does the rule of the case depend on the step number?"""
    return c['rule']['fam'] in ('linct', 'rott', 'rollt')


# ---------------------------------------------------------------- generators
def _plain(rng, kind, dim, shape, r, nb, H, dtype, fam, memo, **kw):
    ncells = shape if dim == 1 else shape[0] * shape[1]
    return dict({'kind': kind, 'eng': 'plain', 'dim': dim, 'r': r, 'nb': nb, 'dtype': dtype, 'memo': memo,
                 'hist': rand_hist(rng, dim, shape, H, dtype),
                 'rule': rand_rule(rng, fam, dim, r, nb, ncells, dtype)}, **kw)


def _brule(rng, dim, tdep_ok=True):
    fams = (['rev', 'rot'] + (['rott'] if tdep_ok else [])) if dim == 1 else (['rev', 'roll'] + (['rollt'] if tdep_ok else []))
    f = rng.choice(fams)
    if f == 'rot':
        return {'fam': 'rot', 'k': rng.randint(0, 3)}
    if f == 'roll':
        return {'fam': 'roll', 'k1': rng.randint(0, 2), 'k2': rng.randint(0, 2)}
    return {'fam': f}


def _block(rng, kind, dim, shape, bs, H, dtype, rule, **kw):
    if dim == 1:
        hist = [rng.sample(range(1, 60), shape) if rng.random() < 0.6 else [rng.randint(0, 3) for _ in range(shape)]
                for _ in range(H)]
    else:
        R, C = shape
        hist = []
        for _ in range(H):
            vals = rng.sample(range(1, 90), R * C) if rng.random() < 0.6 else [rng.randint(0, 3) for _ in range(R * C)]
            hist.append([vals[i * C:(i + 1) * C] for i in range(R)])
    return dict({'kind': kind, 'eng': 'block', 'dim': dim, 'bs': bs, 'dtype': dtype, 'hist': hist, 'rule': rule}, **kw)


def _shapes1(tier):
    return [(N, r) for N in range(1, 6 if tier == 'quick' else 9) for r in range(1, min(N, 2) + 1)]


def _shapes2(tier):
    top = 3 if tier == 'quick' else 4
    return [((a, b), 1, nb) for a in range(1, top + 1) for b in range(1, top + 1) for nb in ('Moore', 'von Neumann')] + \
           ([((a, b), 2, nb) for a in range(2, top + 1) for b in range(2, top + 1) for nb in ('Moore', 'von Neumann')]
            if tier != 'quick' else [((2, 3), 2, 'Moore'), ((3, 3), 2, 'von Neumann')])


BLOCKS1 = [(1, 1), (2, 1), (2, 2), (4, 2), (6, 2), (6, 3), (3, 3), (8, 4), (5, 1)]        # (N, b)
BLOCKS2 = [((1, 1), (1, 1)), ((2, 2), (2, 2)), ((2, 2), (1, 2)), ((4, 2), (2, 2)), ((2, 4), (2, 2)), ((4, 4), (2, 2)),
           ((3, 3), (3, 1)), ((3, 2), (1, 1)), ((2, 6), (2, 3))]                            # ((R, C), (b1, b2))


class BlankCentre:
    """computes v = f(n) on the neighbourhood as given, THEN blanks the centre cell of that array in place (the way an
    outer-totalistic rule is often written: read the centre, zero it, sum the rest) and returns v.  Stateless; the
    model side is f itself.  A library that uses the array it handed out afterwards (as a cache key, as the next
    row) sees the blanked centre."""
    def __init__(self, f):
        self.f = f

    def __call__(self, n, c, t):
        v = self.f(n, c, t)
        d = n.data if isinstance(n, np.ma.MaskedArray) else n
        try:
            if d.ndim == 1:
                d[len(d) // 2] = 0
            else:
                d[d.shape[0] // 2, d.shape[1] // 2] = 0
        except (ValueError, TypeError):          # a read-only argument is left alone
            pass
        return v


def _run_libclass(cpl, c):
    """a split evolution carried out with one of the library's OWN stateful rule objects (the same object continues),
    against the evolution at once with a fresh object: the split law itself, on the implementation"""
    def mk():
        if c['lib'] == 'reversible':
            return cpl.ReversibleRule(list(c['init']), c['R'])
        inner = Lin1(c['ws'], c['m']) if c['dim'] == 1 else Lin2(c['ws'], c['m'])
        if c.get('order') is not None:
            order = [tuple(x) for x in c['order']] if c['dim'] == 2 else list(c['order'])
            return cpl.AsynchronousRule(apply_rule=inner, update_order=order)
        saved = np.random.shuffle
        np.random.shuffle = lambda x: None          # num_cells: the constructor shuffles; keep the natural order
        try:
            return cpl.AsynchronousRule(apply_rule=inner, num_cells=(tuple(c['num_cells']) if c['dim'] == 2 else c['num_cells']))
        finally:
            np.random.shuffle = saved

    def ev(ca, T, rule):
        if c['dim'] == 1:
            return cpl.evolve(ca, timesteps=T, apply_rule=rule, r=1, memoize=False)
        return cpl.evolve2d(ca, timesteps=T, apply_rule=rule, r=1, neighbourhood=c['nb'], memoize=False)
    ca = np.array(c['hist'], dtype=c['dtype'])
    rule = mk()
    rs = call_impl(lambda: ev(ev(ca, c['T1'], rule), c['T2'], rule))
    ca2 = np.array(c['hist'], dtype=c['dtype'])
    rw = call_impl(lambda: ev(ca2, c['T1'] + c['T2'] - 1, mk()))
    return ['ok', {'out': ['ok', np.asarray(rs[1]).tolist()] if rs[0] == 'ok' else list(rs),
                   'ref': ['ok', np.asarray(rw[1]).tolist()] if rw[0] == 'ok' else list(rw),
                   'after': ca.tolist()}]


def round6_cases(rng, tier):
    # libclass/...: oracle only (Coq constructor CSkip5)
    n = 30 if tier == 'quick' else 300
    for j in range(n):
        dim = 1 if j % 3 else 2
        L = rng.randint(2, 5)
        T1 = rng.choice([t for t in range(2, 7) if (t - 1) % L != 0])
        T2 = rng.randint(2, 4)
        if dim == 1:
            N = rng.randint(max(L, 3), 8)
            hist = [[rng.randint(0, 2) for _ in range(N)] for _ in range(rng.randint(1, 3))]
            c = {'kind': 'libclass/async/1d', 'eng': 'libclass', 'lib': 'async', 'dim': 1, 'dtype': rng.choice(['int32', 'int64']),
                 'hist': hist, 'T1': T1, 'T2': T2, 'ws': [rng.randint(1, 2) for _ in range(3)], 'm': 3,
                 'order': rng.sample(range(N), L)}
            if j % 5 == 0:
                c.update(order=None, num_cells=N, kind='libclass/async/1d/num_cells',
                         T1=rng.choice([t for t in range(2, 7) if (t - 1) % N != 0]))
        else:
            R, C = rng.randint(2, 3), rng.randint(2, 3)
            cells = [(a, b) for a in range(R) for b in range(C)]
            L = min(L, len(cells))
            T1 = rng.choice([t for t in range(2, 7) if (t - 1) % L != 0])
            hist = [[[rng.randint(0, 2) for _ in range(C)] for _ in range(R)] for _ in range(rng.randint(1, 2))]
            nb = rng.choice(['Moore', 'von Neumann'])
            c = {'kind': 'libclass/async/2d', 'eng': 'libclass', 'lib': 'async', 'dim': 2, 'dtype': 'int64', 'nb': nb,
                 'hist': hist, 'T1': T1, 'T2': T2, 'ws': [rng.randint(1, 2) for _ in range(9 if nb == 'Moore' else 5)], 'm': 3,
                 'order': [list(x) for x in rng.sample(cells, L)]}
        yield c
    for j in range(10 if tier == 'quick' else 80):
        N = rng.randint(3, 9)
        yield {'kind': 'libclass/reversible', 'eng': 'libclass', 'lib': 'reversible', 'dim': 1, 'dtype': 'int64',
               'hist': [[rng.randint(0, 1) for _ in range(N)] for _ in range(rng.randint(1, 3))],
               'init': [rng.randint(0, 1) for _ in range(N)], 'R': rng.choice([90, 30, 110, 150, 122]),
               'T1': rng.randint(2, 5), 'T2': rng.randint(2, 4)}
    # inplace/...: rules that write into the neighbourhood they are given, in split evolutions (through the model)
    per = 4 if tier == 'quick' else 16
    for how in ('blank', 0, 77):
        for dim in (1, 2):
            for memo in MEMOS:
                for _ in range(per * 3 if (dim == 2 and memo == 'recursive') else per):
                    shape, r, nb = (rng.randint(3, 8), 1, '-') if dim == 1 else \
                        ((rng.randint(3, 6), rng.randint(3, 6)), 1, rng.choice(['Moore', 'von Neumann']))
                    T1, T2 = rng.choice([p for p in PAIRS if p[0] >= 2 and p[1] >= 2])
                    c = _plain(rng, 'inplace/%s/%dd/%s' % (how, dim, memo), dim, shape, r, nb, rng.randint(1, 2),
                               rng.choice(['int32', 'int64', 'uint8', 'float64']), 'lin', memo, T1=T1, T2=T2, inplace=how)
                    # few states and a rule that reads the centre: equal neighbours with different centres, all-zero
                    # neighbourhoods and repeated blocks are frequent, so a poisoned cache entry is hit again
                    ws = [rng.randint(0, 1) for _ in c['rule']['ws']]
                    ws[len(ws) // 2] = 1
                    c['rule'] = {'fam': 'lin', 'ws': ws, 'm': 2}
                    top = 1
                    if dim == 1:
                        c['hist'] = [[(1 if rng.random() < 0.4 else 0) for _ in row] for row in c['hist']]
                    else:
                        c['hist'] = [[[(1 if rng.random() < 0.4 else 0) for _ in row] for row in g] for g in c['hist']]
                    yield c
    # callform/...: evolve / evolve2d with the first npos arguments positional, the rest by keyword
    for dim, nargs in ((1, 5), (2, 6)):
        for npos in range(0, nargs + 1):
            for j in range(2 if tier == 'quick' else 8):
                fam, memo = PLAIN[(npos + j) % 5]
                shape, r, nb = (rng.randint(1, 5), 1, '-') if dim == 1 else \
                    ((rng.randint(1, 3), rng.randint(1, 3)), 1, rng.choice(['Moore', 'von Neumann']))
                extra = {'callable': True} if j % 2 else {}
                yield _plain(rng, 'callform/%dd/npos%d' % (dim, npos), dim, shape, r, nb, rng.randint(1, 3),
                             rng.choice(DTYPES), fam, memo, T=rng.randint(1, 5), npos=npos, **extra)


def round5_cases(rng, tier):
    per = 2 if tier == 'quick' else 10
    # dtype/<complex64|complex128|object>/...: integer real part, zero imaginary part; object arrays of Python ints
    for dtype in ('complex64', 'complex128', 'object'):
        for dim in (1, 2):
            for memo in MEMOS:
                for form in ('fixed', 'callable', 'split'):
                    for _ in range(per):
                        shape, r, nb = (rng.randint(1, 5), 1, '-') if dim == 1 else \
                            ((rng.randint(1, 3), rng.randint(1, 3)), rng.choice([0, 1]), rng.choice(['Moore', 'von Neumann']))
                        kind = 'dtype/%s/%dd/%s/%s' % (dtype, dim, form, memo)
                        if form == 'split':
                            T1, T2 = rng.choice(PAIRS)
                            yield _plain(rng, kind, dim, shape, r, nb, rng.randint(1, 3), dtype, 'lin', memo, T1=T1, T2=T2)
                        else:
                            extra = {'callable': True} if form == 'callable' else {}
                            yield _plain(rng, kind, dim, shape, r, nb, rng.randint(1, 4), dtype, 'lin', memo,
                                         T=rng.randint(1, 5), **extra)
    # dress/<how>/... and pdress/<how>/...: the dressing is outermost; the model ignores it
    per = 6 if tier == 'quick' else 24
    for how in RULE_DRESSINGS:
        for j in range(per):
            dim = 1 + j % 2
            fam, memo = PLAIN[(j // 2) % 5]
            shape, r, nb = (rng.randint(1, 5), 1, '-') if dim == 1 else \
                ((rng.randint(1, 3), rng.randint(1, 3)), 1, rng.choice(['Moore', 'von Neumann']))
            kind = 'dress/%s/%dd/%s/%s' % (how, dim, fam, memo)
            if j % 3 == 2:
                T1, T2 = rng.choice(PAIRS)
                yield _plain(rng, kind, dim, shape, r, nb, rng.randint(1, 3), rng.choice(DTYPES), fam, memo,
                             T1=T1, T2=T2, dress=how)
            else:
                extra = {'callable': True} if j % 3 == 1 else {}
                yield _plain(rng, kind, dim, shape, r, nb, rng.randint(1, 4), rng.choice(DTYPES), fam, memo,
                             T=rng.randint(2, 5), dress=how, **extra)
    for how in PRED_DRESSINGS:
        for j in range(per):
            dim = 1 + j % 2
            fam, memo = PLAIN[j % 5]
            shape, r, nb = (rng.randint(1, 5), 1, '-') if dim == 1 else \
                ((rng.randint(1, 3), rng.randint(1, 3)), 1, rng.choice(['Moore', 'von Neumann']))
            yield _plain(rng, 'pdress/%s/%dd/%s/%s' % (how, dim, fam, memo), dim, shape, r, nb, rng.randint(1, 4),
                         rng.choice(DTYPES), fam, memo, T=rng.randint(1, 5), callable=True, pdress=how)
    # alias/reversible: cpl.ReversibleRule(ca[-1], R) from a view of the evolved array (implementation only)
    for j in range(8 if tier == 'quick' else 60):
        N = rng.randint(3, 9)
        yield {'kind': 'alias/reversible', 'eng': 'reversible', 'dim': 1, 'dtype': rng.choice(['int32', 'int64']),
               'hist': [[rng.randint(0, 1) for _ in range(N)] for _ in range(rng.randint(1, 3))],
               'T': rng.randint(3, 6), 'R': rng.choice([90, 30, 110, 150, 122])}


def generate(rng, tier):
    i = rng.randrange(1000)
    HT = [(H, T) for H in range(1, 5) for T in range(1, 6)]
    per = 5 if tier == 'quick' else 20
    # (1) one call: every engine x mode, (H, T) cycling so that each configuration sees `per` of the 20 pairs
    for N, r in _shapes1(tier):
        for fam, memo in PLAIN:
            for _ in range(per):
                i += 1
                H, T = HT[i % 20]
                yield _plain(rng, 'ext/1d/%s/%s' % (fam, memo), 1, N, r, '-', H, DTYPES[(i // 20) % 4], fam, memo, T=T)
    for shape, r, nb in _shapes2(tier):
        for fam, memo in PLAIN:
            for _ in range(per if tier != 'quick' else 3):
                i += 1
                H, T = HT[i % 20]
                yield _plain(rng, 'ext/2d/%s/%s' % (fam, memo), 2, shape, r, nb, H, DTYPES[(i // 20) % 4], fam, memo, T=T)
    for N, b in BLOCKS1:
        for _ in range(per * 2):
            i += 1
            H, T = HT[i % 20]
            yield _block(rng, 'ext/block1d', 1, N, b, H, DTYPES[(i // 20) % 4], _brule(rng, 1), T=T)
    for shape, bs in BLOCKS2:
        for _ in range(per * 2):
            i += 1
            H, T = HT[i % 20]
            yield _block(rng, 'ext/block2d', 2, shape, list(bs), H, DTYPES[(i // 20) % 4], _brule(rng, 2), T=T)
    # (2) complete cross H x T x dtype on the smallest configurations
    for H, T in HT:
        for dtype in DTYPES:
            for fam, memo in PLAIN:
                yield _plain(rng, 'cross/1d/%s/%s' % (fam, memo), 1, 3, 1, '-', H, dtype, fam, memo, T=T)
                if tier != 'quick' or fam == 'lin':
                    yield _plain(rng, 'cross/2d/%s/%s' % (fam, memo), 2, (2, 2), 1, rng.choice(['Moore', 'von Neumann']),
                                 H, dtype, fam, memo, T=T)
            yield _block(rng, 'cross/block1d', 1, 4, 2, H, dtype, _brule(rng, 1), T=T)
            yield _block(rng, 'cross/block2d', 2, (2, 2), [1, 2], H, dtype, _brule(rng, 2), T=T)
    # (3) split: every (T1, T2) with T1 + T2 <= 7
    sp1 = [(1, 1), (3, 1), (4, 1), (5, 2)] if tier == 'quick' else _shapes1(tier)
    sp2 = [((1, 2), 1, 'Moore'), ((2, 2), 1, 'von Neumann'), ((3, 2), 1, 'Moore'), ((3, 3), 1, 'von Neumann')] \
        if tier == 'quick' else _shapes2(tier)
    for T1, T2 in PAIRS:
        for fam, memo in PLAIN:
            for N, r in sp1:
                i += 1
                yield _plain(rng, 'split/1d/%s/%s' % (fam, memo), 1, N, r, '-', 1 + i % 3, DTYPES[i % 4], fam, memo,
                             T1=T1, T2=T2)
            for shape, r, nb in sp2:
                i += 1
                yield _plain(rng, 'split/2d/%s/%s' % (fam, memo), 2, shape, r, nb, 1 + i % 3, DTYPES[i % 4], fam, memo,
                             T1=T1, T2=T2)
        for N, b in (BLOCKS1 if tier != 'quick' else BLOCKS1[2:7]):
            i += 1
            yield _block(rng, 'split/block1d/%s' % ('oddT1' if T1 % 2 else 'evenT1'), 1, N, b, 1 + i % 3, DTYPES[i % 4],
                         _brule(rng, 1, tdep_ok=(i % 5 == 0)), T1=T1, T2=T2)
        for shape, bs in (BLOCKS2 if tier != 'quick' else BLOCKS2[1:6]):
            i += 1
            yield _block(rng, 'split/block2d/%s' % ('oddT1' if T1 % 2 else 'evenT1'), 2, shape, list(bs), 1 + i % 3,
                         DTYPES[i % 4], _brule(rng, 2, tdep_ok=(i % 5 == 0)), T1=T1, T2=T2)
    # (3b) float automata with non-integral (dyadic) states, plain engines
    for k in range(40 if tier == 'quick' else 400):
        dim = 1 + k % 2
        fam, memo = PLAIN[k % 5]
        shape, r, nb = (rng.randint(1, 5), 1, '-') if dim == 1 else ((rng.randint(1, 3), rng.randint(1, 3)), 1,
                                                                      rng.choice(['Moore', 'von Neumann']))
        dtype, base = [('float64', 1.0), ('float32', 0.0), ('float64', -3.0)][k % 3]
        if k % 4 < 2:
            yield _plain(rng, 'ext/dyadic', dim, shape, r, nb, rng.randint(1, 4), dtype, fam, memo,
                         T=rng.randint(1, 5), base=base)
        else:
            T1, T2 = rng.choice(PAIRS)
            yield _plain(rng, 'split/dyadic', dim, shape, r, nb, rng.randint(1, 3), dtype, fam, memo,
                         T1=T1, T2=T2, base=base)
    # (3c) review buckets: scribbling rule, callable timesteps, r = 0 (2D), r > 2 (1D), unusual caller arrays
    for k in range(120 if tier == 'quick' else 1200):
        dim = rng.choice([1, 2])
        fam, memo = PLAIN[k % 5]
        special = rng.random() < 0.4
        if dim == 1:
            shape = rng.randint(3, 7)
            r, nb = (rng.randint(3, shape) if special else rng.randint(1, min(shape, 2))), '-'
        else:
            shape = (rng.randint(1, 3), rng.randint(1, 3))
            r, nb = (0 if special else 1), rng.choice(['Moore', 'von Neumann'])
        extra = {}
        what = ['scribble', 'callable', 'strided', 'readonly', 'broadcast', 'plain'][k % 6]
        if what == 'scribble':
            extra['scribble'] = True
        elif what == 'callable':
            extra['callable'] = True
        elif what != 'plain':
            extra['layout'] = what
        if rng.random() < 0.3 and what not in ('scribble',):
            extra['scribble'] = True
        H = rng.randint(1, 4)
        tag = 'review/%dd/%s%s' % (dim, what, '/r0' if (dim == 2 and r == 0) else ('/rbig' if (dim == 1 and r > 2) else ''))
        if k % 4 < 3:
            c = _plain(rng, tag, dim, shape, r, nb, H, rng.choice(DTYPES), fam, memo, T=rng.randint(1, 5), **extra)
        else:
            T1, T2 = rng.choice(PAIRS)
            extra.pop('callable', None)
            c = _plain(rng, tag + '/split', dim, shape, r, nb, H, rng.choice(DTYPES), fam, memo, T1=T1, T2=T2, **extra)
        if extra.get('layout') == 'broadcast':
            c['hist'] = [c['hist'][-1]] * len(c['hist'])
        yield c
    # (3d) the open finding: block engines, even T1, a t-independent rule whose effect is visible
    for k in range(20 if tier == 'quick' else 120):
        T1, T2 = rng.choice([(a, b) for a, b in PAIRS if a % 2 == 0 and b >= 2])
        if k % 2 == 0:
            N, b = rng.choice([(4, 2), (6, 2), (6, 3), (8, 4), (8, 2)])
            rule = rng.choice([{'fam': 'rev'}, {'fam': 'rot', 'k': 1}])
            c = _block(rng, 'split/block/evenT1/1d', 1, N, b, 1 + k % 3, DTYPES[k % 4], rule, T1=T1, T2=T2)
            c['hist'] = [rng.sample(range(1, 60), N) for _ in c['hist']]
        else:
            shape, bs = rng.choice([((2, 2), (2, 2)), ((4, 2), (2, 2)), ((2, 4), (2, 2)), ((4, 4), (2, 2)), ((2, 6), (2, 3))])
            rule = rng.choice([{'fam': 'rev'}, {'fam': 'roll', 'k1': 1, 'k2': 1}, {'fam': 'roll', 'k1': 0, 'k2': 1}])
            c = _block(rng, 'split/block/evenT1/2d', 2, shape, list(bs), 1 + k % 3, DTYPES[k % 4], rule, T1=T1, T2=T2)
            R, C = shape
            hist = []
            for _ in c['hist']:
                vals = rng.sample(range(1, 90), R * C)
                hist.append([vals[i * C:(i + 1) * C] for i in range(R)])
            c['hist'] = hist
        c['finding'] = 'block-split-even'
        yield c
    # (3e) round 5: complex / object automata; callables of another shape; a library rule built from a view
    for c in round5_cases(rng, tier):
        yield c
    # (3f) round 6: the library's own stateful rules in split evolutions, in-place writers, call forms
    for c in round6_cases(rng, tier):
        yield c
    # (4) random larger
    n_rand = 150 if tier == 'quick' else 2500
    for _ in range(n_rand):
        dim = rng.choice([1, 2])
        fam, memo = rng.choice(PLAIN)
        if dim == 1:
            shape = rng.randint(3, 14)
            r, nb = rng.randint(1, min(shape, 3)), '-'
        else:
            shape = (rng.randint(1, 5), rng.randint(1, 5))
            r, nb = rng.randint(1, min(min(shape), 2)), rng.choice(['Moore', 'von Neumann'])
        if rng.random() < 0.5:
            yield _plain(rng, 'random/ext', dim, shape, r, nb, rng.randint(1, 4), rng.choice(DTYPES), fam, memo,
                         T=rng.randint(1, 6))
        else:
            T1, T2 = rng.choice(PAIRS)
            yield _plain(rng, 'random/split', dim, shape, r, nb, rng.randint(1, 4), rng.choice(DTYPES), fam, memo,
                         T1=T1, T2=T2)


# ---------------------------------------------------------------- implementation
def _rule_obj(c):
    if c['eng'] == 'plain':
        f = build_rule(c, dressed=False)
        if c.get('inplace') == 'blank':
            f = BlankCentre(f)
        elif c.get('inplace') is not None:
            f = Scribble(f, fill=c['inplace'])
        f = Scribble(f) if c.get('scribble') else f
        return dress(f, c.get('dress'))          # the dressing is OUTERMOST
    return Blk1(c['rule']) if c['dim'] == 1 else Blk2(c['rule'])


def _call(cpl, c, ca, T, rule):
    if c['eng'] == 'plain' and c.get('npos') is not None:
        if c['dim'] == 1:
            return invoke(cpl.evolve, ['cellular_automaton', 'timesteps', 'apply_rule', 'r', 'memoize'],
                          [ca, T, rule, c['r'], c['memo']], c['npos'])
        return invoke(cpl.evolve2d, ['cellular_automaton', 'timesteps', 'apply_rule', 'r', 'neighbourhood', 'memoize'],
                      [ca, T, rule, c['r'], c['nb'], c['memo']], c['npos'])
    if c['eng'] == 'plain':
        if c['dim'] == 1:
            return cpl.evolve(ca, timesteps=T, apply_rule=rule, r=c['r'], memoize=c['memo'])
        return cpl.evolve2d(ca, timesteps=T, apply_rule=rule, r=c['r'], neighbourhood=c['nb'], memoize=c['memo'])
    if c['dim'] == 1:
        return cpl.evolve_block(ca, block_size=c['bs'], timesteps=T, apply_rule=rule)
    return cpl.evolve2d_block(ca, block_size=tuple(c['bs']), timesteps=T, apply_rule=rule)



def make_ca(c):
    """the caller's array, possibly a strided view of a bigger array or read-only; returns (ca, owner)"""
    ca = build_ca(c)
    lay = c.get('layout')
    if lay == 'strided':
        big = np.zeros((2 * ca.shape[0],) + ca.shape[1:], dtype=ca.dtype)
        big[::2] = ca
        return big[::2], big
    if lay == 'readonly':
        ca = ca.copy()
        ca.setflags(write=False)
        return ca, ca
    if lay == 'broadcast':      # zero-stride, read-only: all rows are the same row
        v = np.broadcast_to(ca[-1], ca.shape)
        assert not v.flags.writeable
        return v, ca[-1]
    return ca, ca


def _pad_ok(c, owner):
    """rows of the bigger array that are not part of the caller's view are still zero"""
    return bool((owner[1::2] == 0).all()) if c.get('layout') == 'strided' else True

def _arr(c, x):
    return conv(c, np.asarray(x))


def _run_reversible(cpl, c):
    """rule = ReversibleRule(ca[-1], R) built from a row VIEW of the very array that is evolved; compared with the
    same evolution in which the rule got a private copy (implementation only)"""
    ca = np.array(c['hist'], dtype=c['dtype'])
    res = call_impl(lambda: cpl.evolve(ca, timesteps=c['T'], apply_rule=cpl.ReversibleRule(ca[-1], c['R']), r=1))
    ca2 = np.array(c['hist'], dtype=c['dtype'])
    ref = call_impl(lambda: cpl.evolve(ca2, timesteps=c['T'], apply_rule=cpl.ReversibleRule(ca2[-1].copy().tolist(), c['R']), r=1))
    return ['ok', {'out': ['ok', np.asarray(res[1]).tolist()] if res[0] == 'ok' else list(res),
                   'ref': ['ok', np.asarray(ref[1]).tolist()] if ref[0] == 'ok' else list(ref),
                   'after': ca.tolist()}]


def run_impl(c):
    import cellpylib as cpl
    if c['eng'] == 'reversible':
        return _run_reversible(cpl, c)
    if c['eng'] == 'libclass':
        return _run_libclass(cpl, c)
    ca, owner = make_ca(c)
    if 'T' in c:
        ts = dress_pred(PredLt(c['T']), c.get('pdress')) if c.get('callable') else c['T']
        res = call_impl(lambda: _call(cpl, c, ca, ts, _rule_obj(c)))
        after = conv(c, ca) if _pad_ok(c, owner) else None
        if res[0] != 'ok':
            return ['exc', res[1], {'after': after}]
        out = res[1]
        isarr = isinstance(out, np.ndarray)
        return ['ok', {'out': _arr(c, out), 'after': after,
                       'dtype': str(out.dtype) if isarr else type(out).__name__,
                       'shape': [int(s) for s in np.asarray(out).shape],
                       'fresh': bool(isarr and out is not ca and not np.shares_memory(out, owner))}]
    rule = _rule_obj(c)

    def two():
        o1 = _call(cpl, c, ca, c['T1'], rule)
        return _call(cpl, c, o1, c['T2'], rule)
    rs = call_impl(two)
    ca2 = build_ca(c)
    rw = call_impl(lambda: _call(cpl, c, ca2, c['T1'] + c['T2'] - 1, _rule_obj(c)))
    return ['ok', {'split': ['ok', _arr(c, rs[1])] if rs[0] == 'ok' else list(rs),
                   'whole': ['ok', _arr(c, rw[1])] if rw[0] == 'ok' else list(rw),
                   'after': conv(c, ca) if _pad_ok(c, owner) else None}]


# ---------------------------------------------------------------- Coq
def _cres_arr(o, carr):
    if o[0] == 'ok' and o[1] is None:
        return '(Raise OtherError)'          # not integer-valued: cannot agree with the model
    return cres(o, carr)


def to_coq(c, obs):
    if c['eng'] in ('reversible', 'libclass'):
        return 'CSkip5'
    one = c['dim'] == 1
    carr = cgrid if one else chist
    if c['eng'] == 'plain':
        head = '%s %s' % (coq_rule_spec(c['rule']), cnat(c['r']))
        if not one:
            head += ' Moore' if c['nb'] == 'Moore' else ' VonNeumann'
        name = ('CExt' if 'T' in c else 'CSplit') + ('1' if one else '2')
    else:
        head = '%s %s' % (cbrule(c['rule'], c['dim']), cnat(c['bs']) if one else '%s %s' % (cnat(c['bs'][0]), cnat(c['bs'][1])))
        name = ('CBlk' if 'T' in c else 'CBlkSplit') + ('1' if one else '2')
    if 'T' in c:
        if obs[0] == 'ok':
            o = obs[1]
            after = o['after'] if o['after'] is not None else []
            return '(%s %s %s %s %s %s %s %s)' % (name, head, carr(c['hist']), cnat(c['T']), carr(after),
                                                cbool(o['dtype'] == c['dtype'] and o['after'] is not None),
                                                cbool(o['fresh']), _cres_arr(['ok', o['out']], carr))
        after = obs[2]['after'] if obs[2]['after'] is not None else []
        return '(%s %s %s %s %s true true %s)' % (name, head, carr(c['hist']), cnat(c['T']), carr(after), cres(obs, carr))
    o = obs[1]
    return '(%s %s %s %s %s %s %s)' % (name, head, carr(c['hist']), cnat(c['T1']), cnat(c['T2']),
                                       _cres_arr(o['split'], carr), _cres_arr(o['whole'], carr))


def nontrivial(c, obs):
    if obs[0] != 'ok' or c['eng'] in ('reversible', 'libclass'):
        return False
    if 'T' in c:
        return c['T'] >= 2
    return obs[1]['split'][0] == 'ok' and obs[1]['whole'][0] == 'ok' and c['T1'] + c['T2'] >= 3


# ---------------------------------------------------------------- the property's own oracle
def oracle(c, obs):
    hist = c['hist']
    H = len(hist)
    if c['eng'] == 'libclass':
        o = obs[1]
        if o['after'] != hist:
            return "the caller's array was modified"
        if o['out'][0] != 'ok' or o['ref'][0] != 'ok':
            return 'a call raised: %s / %s' % (o['out'][:2] if o['out'][0] != 'ok' else 'ok', o['ref'][:2] if o['ref'][0] != 'ok' else 'ok')
        if o['out'][1][:H] != hist:
            return 'the first %d rows of the continued result are not the given rows' % H
        if o['out'][1] != o['ref'][1]:
            return ('evolve(evolve(h, %d), %d) with the same %s object differs from evolve(h, %d) at once'
                    % (c['T1'], c['T2'], 'AsynchronousRule' if c['lib'] == 'async' else 'ReversibleRule', c['T1'] + c['T2'] - 1))
        return None
    if c['eng'] == 'reversible':
        o = obs[1]
        if o['after'] != hist:
            return "the caller's array was modified (the rule object kept a view of it)"
        if o['out'][0] != 'ok' or o['ref'][0] != 'ok':
            return 'a call raised'
        if o['out'][1][:H] != hist:
            return 'the first %d rows of the result are not the given rows' % H
        if o['out'][1] != o['ref'][1]:
            return 'the result differs from the run whose rule object got a private copy of the row'
        return None
    if 'T' in c:
        if obs[0] != 'ok':
            return 'the call raised %s' % obs[1]
        o = obs[1]
        if o['after'] != hist:
            return "the caller's array was modified"
        if o['out'] is None:
            return 'the result is not an integer-valued array'
        if o['out'][:H] != hist:
            return 'the first %d rows of the result are not the given rows' % H
        if o['dtype'] != c['dtype']:
            return 'dtype changed from %s to %s' % (c['dtype'], o['dtype'])
        want = [H + c['T'] - 1] + list(np.asarray(hist).shape[1:])
        if o['shape'] != want:
            return 'shape %s, expected %s' % (o['shape'], want)
        if not o['fresh']:
            return "the result is (or shares memory with) the caller's array"
        return None
    o = obs[1]
    if o['after'] != hist:
        return "the caller's array was modified"
    if o['split'][0] != 'ok' or o['whole'][0] != 'ok':
        return 'a call raised: split %s, unsplit %s' % (o['split'][:2] if o['split'][0] != 'ok' else 'ok',
                                                        o['whole'][:2] if o['whole'][0] != 'ok' else 'ok')
    if c.get('finding') == 'block-split-even' and o['split'][1] != o['whole'][1]:
        return ('split law fails for even T1: evolve(evolve(h, %d), %d) differs from evolve(h, %d) on a block engine'
                % (c['T1'], c['T2'], c['T1'] + c['T2'] - 1))
    must = (not tdep(c)) and (c['eng'] == 'plain' or c['T1'] % 2 == 1)
    if must and o['split'][1] != o['whole'][1]:
        return 'evolve(evolve(h, %d), %d) differs from evolve(h, %d)' % (c['T1'], c['T2'], c['T1'] + c['T2'] - 1)
    if o['split'][1] is not None and o['split'][1][:H] != hist:
        return 'the continued evolution does not start with the given rows'
    return None


def shrink(c):
    if c.get('memo') not in (None, False):
        yield dict(c, memo=False)
    if len(c['hist']) > 1:
        yield dict(c, hist=c['hist'][1:])
        yield dict(c, hist=c['hist'][-1:])
    if c['dtype'] != 'int64' and c.get('base') is None:
        yield dict(c, dtype='int64')
    if 'T' in c and c['T'] > 1:
        yield dict(c, T=c['T'] - 1)
    if 'T1' in c:
        if c['T2'] > 1:
            yield dict(c, T2=c['T2'] - 1)
        if c['T1'] > 2:
            yield dict(c, T1=c['T1'] - 2)
