"""C20 — Hopfield network: Hebbian weights and energy descent: correspondence generators and runner.

A case: num_cells N (odd), training patterns P (bipolar), the scripted outcome `perm` of the
constructor's np.random.shuffle(np.arange(N)), a bipolar initial row, its dtype, timesteps T.
The real cpl.HopfieldNet(num_cells=N) is built with np.random.shuffle patched (restored in finally),
trained with P, and cpl.evolve(initial, timesteps=T, apply_rule=net.apply_rule, r=net.r) is run.
Observables: net.r, net.W, the evolved array, and the integer 2E = -s'Ws of every returned row
(computed here from net.W, independently of the Coq model).
Kind 'retrain/...': the SAME net instance is first trained with another pattern set P1 and then with P;
the property says train SETS the weights, so the model is still `train P` (P1 never reaches Coq).
Kind 'sequence/same-net': the SAME net object is evolved several times (c['pre'] = earlier (initial, T) runs): the
AsynchronousRule object keeps _curr between the calls, so the later evolution continues the cyclic schedule.
Kind 'mid/...': N in {31, 63, 127} with few steps.  Kind 'many-patterns/...': 127 / 128 / 129 equal patterns (weights of
magnitude 128 do not fit a signed byte).
Kind 'patterns/<form>/...': the same +-1 pattern sets handed over in different containers and dtypes (PFORMS below: 2D
float64 / float32 / int8 / int64 arrays, np.where(bool, 1, -1), np.sign of real data (+1.0/-1.0), lists of int / float
lists, lists of int / float arrays, tuples); the unchanged library trains the same int32 weights from every one of
them (element-wise `W[i, j] += p[i]*p[j]` casts silently), so the model does not see the form.
Kind 'states/<dtype>/...': initial rows of dtype int8 / int16 / int32 / int64 / float32 / float64 (a float row evolves
to +-1.0, reported as ints; a non-integral value is reported as 9999), a few with N = 133..141 so that partial sums of
the weighted input pass 127.
Kind 'lifetime/...': the caller keeps only what evolve() needs -- `net.apply_rule` and `net.r` (and observations such
as net.W taken BEFORE) -- and drops the net (`del`, gc.collect()) before evolving: c['drop'] = 'before-all' (a helper
returns rule and radius) or 'before-last' (one or two evolutions with the net alive, the last one after dropping it).
The property says "evolving with the net's rule and radius"; nothing says the caller must keep the net.  The harness
itself holds no other reference (checked with gc.get_referrers against its own containers; obs['net_alive'] records
whether the library itself still keeps the net alive through the rule object -- it does on the unchanged tree).
Kind 'large/...': N in {129, 131, 201}, where the weighted input of a cell exceeds 127 in magnitude, with
int8 and int64 state arrays (an input that wraps in a narrow dtype flips the sign of the update).
"""
import itertools
from harness.driver import call_impl, cnat, czlist, cgrid, cres, clist, cpair

ID = 'C20'
COQ_IMPORTS = ('From CPL Require Import Model.Base Model.Rules Model.Engine Model.Evolve1D Model.Async '
               'Model.Hopfield Corr.C20.\nOpen Scope Z_scope.')
NONTRIVIAL_RULE = ('non-trivial = the evolution returned an array with at least one cell changing between two '
                   'consecutive rows or a start that is a stored pattern / its negation (fixed point); '
                   'distinct = distinct case dicts')
EXHAUSTIVE = {'quick': False, 'thorough': False}
NOTES = ['N = 3: all 8 starts x all 6 update orders enumerated in both tiers; N in {5,7,9,11,15} sampled; '
         'N in {31,63,127} a few cases with 2-8 steps; same net evolved 2-3 times (sequence/same-net); '
         '127/128/129 equal patterns; net dropped before evolving, only its rule and radius kept (lifetime/...); pattern sets in 11 containers / dtypes (patterns/<form>) and states in 6 dtypes; '
         'N in {129,131,201} (weighted inputs beyond 127) with int8 and int64 states, 3-6 steps; W compared in full',
         'model compared = evolve_plain + async_rule1 (Model/Async.v, scripted shuffle) + hopfield_rule1; '
         'the direct schedule model hop_evolve must agree with it as well']
ASSUMPTIONS = ['weights are int32 in the code; the model uses Z (no overflow: |W[i][j]| <= number of patterns)',
               'patterns and starts are bipolar (+1/-1); N is odd (the class documents that only odd sizes are supported)',
               'np.random.shuffle in the constructor is patched in the harness process to the scripted permutation']

SIZES = [3, 5, 7, 9, 11, 15]


def _bip(rng, n):
    return [rng.choice([-1, 1]) for _ in range(n)]


def _case(kind, N, P, perm, s, T, dtype, pform, P1=None, pre=None, drop=None):
    return {'kind': kind, 'N': N, 'P': P, 'perm': perm, 's': s, 'T': T, 'dtype': dtype, 'pform': pform, 'P1': P1,
            'pre': pre or [], 'drop': drop}


def _lifetime(rng, tier):
    """only (net.apply_rule, net.r) survive: the net object is dropped before (the last) evolve"""
    reps = 1 if tier == 'quick' else 5
    for rep in range(reps):
        for i in range(24):
            N = (SIZES + [31])[i % 7]
            P = [_bip(rng, N) for _ in range(1 + i % 3)]
            perm = list(range(N))
            rng.shuffle(perm)
            if i % 4 == 0:
                s = list(P[0]) if i % 8 else [-x for x in P[0]]
            elif i % 4 == 1:
                s = list(rng.choice(P))
                for k in rng.sample(range(N), rng.randint(1, max(1, N // 3))):
                    s[k] = -s[k]
            else:
                s = _bip(rng, N)
            T = rng.randint(2, min(2 * N + 2, 24))
            mode = i % 3
            if mode == 0:
                yield _case('lifetime/helper-returns-rule-and-r', N, P, perm, s, T, rng.choice(['int32', 'int64']),
                            rng.choice(['list', 'array', 'float64']), drop='before-all')
            elif mode == 1:
                yield _case('lifetime/del-then-evolve-twice', N, P, perm, s, T, rng.choice(['int32', 'int64']),
                            rng.choice(['list', 'array']), drop='before-all', pre=[[_bip(rng, N), rng.randint(2, N + 2)]],
                            P1=([_bip(rng, N)] if i % 2 else None))
            else:
                yield _case('lifetime/evolve-alive-then-dropped', N, P, perm, s, T, rng.choice(['int32', 'int64']),
                            rng.choice(['list', 'array']), drop='before-last',
                            pre=[[_bip(rng, N), rng.randint(2, N + 2)] for _ in range(1 + i % 2)])


# how a pattern set is handed to train(); 'list' and 'array' are the two forms of the earlier buckets
PFORMS = ['float64', 'float32', 'int8', 'int64', 'bool', 'sign', 'list_of_lists', 'list_of_float_lists',
          'list_of_arrays', 'list_of_float_arrays', 'tuple']
SDTYPES = ['int8', 'int16', 'int32', 'int64', 'float32', 'float64']


def make_patterns(np, ps, pform):
    """ps: list of lists of +-1 ints -> the object passed to HopfieldNet.train"""
    if pform in ('float64', 'float32', 'int8', 'int64'):
        return np.array(ps, dtype=getattr(np, pform))
    if pform == 'bool':                      # binary data mapped to bipolar
        return np.where(np.array(ps) > 0, 1, -1)
    if pform == 'sign':                      # thresholded real data: +1.0 / -1.0
        return np.sign(np.array(ps, dtype=np.float64) * 0.37 + 1e-9)
    if pform == 'list_of_float_lists':
        return [[float(x) for x in p] for p in ps]
    if pform in ('array', 'list_of_arrays'):
        return [np.array(p) for p in ps]
    if pform == 'list_of_float_arrays':
        return [np.array(p, dtype=np.float64) for p in ps]
    if pform == 'tuple':
        return tuple(tuple(p) for p in ps)
    return [list(p) for p in ps]             # 'list', 'list_of_lists'


def _forms(rng, tier):
    """containers / dtypes of the patterns, dtypes of the state: weights AND evolution / energy"""
    reps = 1 if tier == 'quick' else 4
    for rep in range(reps):
        for pform in PFORMS:
            for i in range(12):
                N = SIZES[i % len(SIZES)]
                P = [_bip(rng, N) for _ in range(1 + (i // 3) % 4)]
                perm = list(range(N))
                rng.shuffle(perm)
                if i % 3 == 0:
                    s, what = list(P[0]) if i % 2 else [-x for x in P[0]], 'stored'
                elif i % 3 == 1:
                    s = list(rng.choice(P))
                    for k in rng.sample(range(N), rng.randint(1, max(1, N // 3))):
                        s[k] = -s[k]
                    what = 'recall'
                else:
                    s, what = _bip(rng, N), 'random-start'
                P1 = [_bip(rng, N)] if i == 11 else None     # also as a re-training
                yield _case('patterns/%s/%s' % (pform, what), N, P, perm, s, rng.randint(1, 2 * N + 1),
                            rng.choice(SDTYPES), pform, P1=P1)
        for dt in SDTYPES:
            for i in range(8):
                N = rng.choice(SIZES)
                P = [_bip(rng, N) for _ in range(rng.randint(1, 4))]
                perm = list(range(N))
                rng.shuffle(perm)
                s = list(rng.choice(P))
                for k in rng.sample(range(N), rng.randint(0, max(1, N // 2))):
                    s[k] = -s[k]
                yield _case('states/%s/small' % dt, N, P, perm, s, rng.randint(1, 3 * N),
                            dt, rng.choice(PFORMS), pre=([[_bip(rng, N), rng.randint(1, N)]] if i % 4 == 3 else None))


def _forms_big(rng, tier):
    """N = 133 .. 141 next to one stored pattern: the weighted input and its partial sums pass 127"""
    plan = [(133, 'int8', 'float64'), (137, 'int16', 'int8'), (139, 'float64', 'sign'), (141, 'int64', 'list_of_float_lists')]
    if tier != 'quick':
        plan = plan + [(135, 'float32', 'float32'), (129, 'int8', 'list_of_float_arrays')]
    for N, dt, pform in plan:
        p = _bip(rng, N)
        flips = rng.sample(range(N), 3)
        s = list(p)
        for k in flips:
            s[k] = -s[k]
        rest = [k for k in range(N) if k not in flips]
        rng.shuffle(rest)
        yield _case('states/%s/N~140' % dt, N, [p], flips + rest, s, rng.randint(3, 5), dt, pform)


MID = [31, 63, 127]


def _mid(rng, tier):
    """N in {31, 63, 127}: few steps (the Coq side costs about 0.1 / 0.5 / 2.5 s per case); half of them evolve the
    same net twice."""
    reps = 1 if tier == 'quick' else 3
    for rep in range(reps):
        for N, count in ((31, 6), (63, 4), (127, 4)):
            for i in range(count):
                P = [_bip(rng, N) for _ in range(rng.randint(1, 3))]
                perm = list(range(N))
                rng.shuffle(perm)
                s = list(rng.choice(P))
                flips = rng.sample(range(N), rng.randint(1, 5))
                for k in flips:
                    s[k] = -s[k]
                if i % 2 == 0:        # schedule the flipped cells first: something happens within few steps
                    perm = flips + [k for k in perm if k not in flips]
                dt = rng.choice(['int8', 'int32', 'int64'])
                if i % 2 == 1:
                    yield _case('mid/sequence-same-net', N, P, perm, s, rng.randint(2, 6), dt, rng.choice(['list', 'array']),
                                pre=[[_bip(rng, N), rng.randint(1, 5)]])
                else:
                    yield _case('mid/recall', N, P, perm, s, rng.randint(3, 8), dt, rng.choice(['list', 'array']))


LARGE = [129, 131, 201]


def _large(rng, tier):
    """N >= 129: |V| reaches N - 1 >= 128 next to a single stored pattern.  Few steps: the Coq side evaluates
    N neighbourhoods of N cells per step (about 2.5 s per case at N = 129, 7 s at N = 201)."""
    reps = 1 if tier == 'quick' else 3
    for rep in range(reps):
        for N in LARGE:
            p = _bip(rng, N)
            q = _bip(rng, N)
            flips = rng.sample(range(N), rng.randint(2, 4))
            near = list(p)
            for k in flips:
                near[k] = -near[k]
            rest = [k for k in range(N) if k not in flips]
            rng.shuffle(rest)
            perm_recall = flips + rest           # the flipped cells are scheduled first: they are recalled
            perm = list(range(N))
            rng.shuffle(perm)
            neg = [-x for x in p]
            if N == 201:
                plan = [('stored', [p], p, perm, 'int8'), ('negation', [p], neg, perm, 'int8'),
                        ('recall', [p], near, perm_recall, 'int8'), ('stored', [p], p, perm, 'int64')]
            else:
                plan = [('stored', [p], p, perm, 'int8'), ('stored', [p], p, perm, 'int64'),
                        ('negation', [p], neg, perm, 'int8'), ('negation', [p], neg, perm, 'int64'),
                        ('recall', [p], near, perm_recall, 'int8'), ('recall', [p], near, perm_recall, 'int64'),
                        ('two-patterns', [p, q], near, perm_recall, 'int8'),
                        ('two-patterns', [p, q], list(q), perm, 'int64')]
            for name, P, s, pm, dt in plan:
                yield _case('large/%s' % name, N, P, pm, list(s), rng.randint(3, 6), dt, rng.choice(['list', 'array']))


def generate(rng, tier):
    small = list(_generate_small(rng, tier)) + list(_forms(rng, tier)) + list(_lifetime(rng, tier))
    large = list(_large(rng, tier)) + list(_mid(rng, tier)) + list(_forms_big(rng, tier))
    # spread the expensive cases evenly over the list (the driver shards it in order, 400 per coqc process)
    if large:
        step = max(1, len(small) // len(large))
        out = []
        li = 0
        for i, c in enumerate(small):
            if i % step == 0 and li < len(large):
                out.append(large[li])
                li += 1
            out.append(c)
        out.extend(large[li:])
        return out
    return small


def _generate_small(rng, tier):
    mult = 1 if tier == 'quick' else 10
    # N = 3: every start, every order
    for rep in range(1 * mult):
        for s in itertools.product([-1, 1], repeat=3):
            for perm in itertools.permutations(range(3)):
                P = [_bip(rng, 3) for _ in range(rng.randint(1, 4))]
                yield _case('N3/all-starts-all-orders', 3, P, list(perm), list(s), rng.randint(1, 12),
                            rng.choice(['int32', 'int64']), rng.choice(['list', 'array']))
    # one stored pattern: the pattern and its negation are fixed points
    for i in range(60 * mult):
        N = rng.choice(SIZES)
        p = _bip(rng, N)
        perm = list(range(N))
        rng.shuffle(perm)
        s = p if i % 2 == 0 else [-x for x in p]
        yield _case('stored/pattern-or-negation', N, [p], perm, s, rng.randint(1, 4 * N),
                    rng.choice(['int32', 'int64']), rng.choice(['list', 'array']))
    # recall: a stored pattern with a few flipped cells
    for i in range(120 * mult):
        N = rng.choice(SIZES)
        P = [_bip(rng, N) for _ in range(rng.randint(1, 4))]
        perm = list(range(N))
        rng.shuffle(perm)
        s = list(rng.choice(P))
        for k in rng.sample(range(N), rng.randint(1, max(1, N // 3))):
            s[k] = -s[k]
        yield _case('recall/flipped-cells', N, P, perm, s, rng.randint(1, 4 * N),
                    rng.choice(['int32', 'int64']), rng.choice(['list', 'array']))
    # ties V = 0 are frequent with two patterns (W entries in {-2, 0, 2}) and with orthogonal-ish patterns
    for i in range(120 * mult):
        N = rng.choice(SIZES)
        p = _bip(rng, N)
        q = list(p)
        for k in rng.sample(range(N), (N + 1) // 2):
            q[k] = -q[k]
        perm = list(range(N))
        rng.shuffle(perm)
        yield _case('ties/two-half-opposed-patterns', N, [p, q], perm, _bip(rng, N), rng.randint(2, 4 * N),
                    rng.choice(['int32', 'int64']), rng.choice(['list', 'array']))
    # T = 1 and T = 2 (no step / one step), identity and reversed orders
    for N in SIZES:
        for T in (1, 2):
            for perm in (list(range(N)), list(range(N - 1, -1, -1))):
                P = [_bip(rng, N) for _ in range(rng.randint(1, 4))]
                yield _case('short/T<=2', N, P, perm, _bip(rng, N), T, rng.choice(['int32', 'int64']), 'list')
    # the same net trained twice: train SETS the weights (the second call must not build on the first)
    for i in range(90 * mult):
        N = rng.choice(SIZES)
        P1 = [_bip(rng, N) for _ in range(rng.randint(1, 3))]
        if i % 3 == 0:
            P, kind = [list(p) for p in P1], 'retrain/same-set-twice'
        else:
            P, kind = [_bip(rng, N) for _ in range(rng.randint(1, 3))], 'retrain/different-sets'
        perm = list(range(N))
        rng.shuffle(perm)
        s0 = list(rng.choice(P))
        if i % 2 == 0:
            for k in rng.sample(range(N), rng.randint(1, max(1, N // 3))):
                s0[k] = -s0[k]
        yield _case(kind, N, P, perm, s0, rng.randint(1, 4 * N),
                    rng.choice(['int32', 'int64']), rng.choice(['list', 'array']), P1=P1)
    # the same net evolved two or three times: _curr of the AsynchronousRule object carries over
    for i in range(70 * mult):
        N = rng.choice(SIZES)
        P = [_bip(rng, N) for _ in range(rng.randint(1, 4))]
        perm = list(range(N))
        rng.shuffle(perm)
        pre = [[_bip(rng, N), rng.choice([1, 2, N, N + 1, rng.randint(1, 3 * N)])] for _ in range(rng.randint(1, 2))]
        yield _case('sequence/same-net', N, P, perm, _bip(rng, N), rng.randint(1, 3 * N),
                    rng.choice(['int32', 'int64']), rng.choice(['list', 'array']), pre=pre,
                    P1=(None if i % 4 else [_bip(rng, N)]))
    # 127 / 128 / 129 equal (or negated) patterns: weights of magnitude 127 / 128 / 129
    for count in (127, 128, 129):
        for N in (3, 5):
            for rep in range(2):
                p = _bip(rng, N)
                P = [list(p) if rng.random() < 0.8 or rep == 0 else [-x for x in p] for _ in range(count)]
                perm = list(range(N))
                rng.shuffle(perm)
                yield _case('many-patterns/%d-equal' % count, N, P, perm, _bip(rng, N), rng.randint(2, 3 * N),
                            rng.choice(['int8', 'int64']), rng.choice(['list', 'array']))
    # random
    for i in range(230 * mult):
        N = rng.choice(SIZES)
        P = [_bip(rng, N) for _ in range(rng.randint(1, 4))]
        perm = list(range(N))
        rng.shuffle(perm)
        yield _case('random', N, P, perm, _bip(rng, N), rng.randint(1, 4 * N),
                    rng.choice(['int32', 'int64']), rng.choice(['list', 'array']))


def _energy2(W, row):
    n = len(row)
    return -sum(W[i][j] * row[i] * row[j] for i in range(n) for j in range(n))


def run_impl(c):
    import gc
    import weakref
    import numpy as np
    import cellpylib as cpl
    N, perm = c['N'], c['perm']
    obs = {'r': ('exc', 'OtherError'), 'W': ('exc', 'OtherError'), 'pre': [], 'rows': ('exc', 'OtherError'), 'E2': []}
    state = {}

    def fake_shuffle(a):
        vals = [a[i] for i in perm]
        for i, v in enumerate(vals):
            a[i] = v

    def build():
        orig = np.random.shuffle
        np.random.shuffle = fake_shuffle
        try:
            state['net'] = cpl.HopfieldNet(num_cells=N)
        finally:
            np.random.shuffle = orig
        return int(state['net'].r)

    obs['r'] = list(call_impl(build))
    if obs['r'][0] != 'ok':
        return obs
    kept = {}          # what survives the net in the 'lifetime' cases: its rule and its radius, nothing else

    def form(ps):
        return make_patterns(np, ps, c['pform'])

    def ints(a):     # float rows hold +-1.0; anything non-integral must not be hidden by int()
        return [[int(x) if float(x) == int(x) else 9999 for x in row] for row in np.asarray(a).tolist()]

    P = form(c['P'])

    def train():
        if c.get('P1') is not None:      # an earlier training of the same instance
            state['net'].train(form(c['P1']))
        state['net'].train(P)
        return ints(state['net'].W)

    obs['W'] = list(call_impl(train))
    if obs['W'][0] != 'ok':
        return obs

    def evolve(s0, T):
        initial = np.array([s0], dtype=getattr(np, c['dtype']))
        if 'net' in state:
            rule, r = state['net'].apply_rule, state['net'].r
        else:
            rule, r = kept['rule'], kept['r']
        ca = cpl.evolve(initial, timesteps=T, apply_rule=rule, r=r)
        return ints(ca)

    def drop_net():
        """keep only (net.apply_rule, net.r); drop every harness reference to the net; collect"""
        n = state.pop('net')
        kept['rule'], kept['r'] = n.apply_rule, n.r
        wr = weakref.ref(n)
        del n
        gc.collect()
        n = wr()
        obs['net_alive'] = n is not None     # True = the library itself keeps the net alive through the rule object
        if n is not None:                    # ... then no container of the harness may be among its referrers
            mine = (state, kept, obs, c)
            obs['harness_holds_net'] = any(any(x is h for h in mine) for x in gc.get_referrers(n))
        del n

    pre = c.get('pre') or []
    if c.get('drop') == 'before-all':
        drop_net()
    for k, (s0, T0) in enumerate(pre):      # earlier evolutions on the same net object
        o = list(call_impl(evolve, s0, T0))
        obs['pre'].append(o)
        if o[0] != 'ok':
            obs['rows'] = o
            return obs
    if c.get('drop') == 'before-last':
        drop_net()
    obs['rows'] = list(call_impl(evolve, c['s'], c['T']))
    if obs['rows'][0] == 'ok':
        W = obs['W'][1]
        obs['E2'] = [_energy2(W, row) if len(row) == len(W) else 0 for row in obs['rows'][1]]
    return obs


def to_coq(c, obs):
    pre = c.get('pre') or []
    return '(CHop %s %s %s %s %s %s %s %s %s %s %s)' % (
        cnat(c['N']), cgrid(c['P']), clist(c['perm'], cnat),
        clist(pre, lambda st: cpair(czlist(st[0]), cnat(st[1]))), czlist(c['s']), cnat(c['T']),
        cres(obs['r'], cnat), cres(obs['W'], cgrid), clist(obs.get('pre', []), lambda o: cres(o, cgrid)),
        cres(obs['rows'], cgrid), czlist(obs['E2']))


def nontrivial(c, obs):
    if obs['rows'][0] != 'ok':
        return False
    rows = obs['rows'][1]
    return any(a != b for a, b in zip(rows, rows[1:])) or 'stored' in c['kind'] or 'negation' in c['kind']


def oracle(c, obs):
    """The property's own statements, evaluated on the implementation's output."""
    N, P = c['N'], c['P']
    if obs.get('harness_holds_net'):
        return 'harness bug: a container of the harness still references the net after dropping it'
    if obs['r'][0] != 'ok' or obs['W'][0] != 'ok' or obs['rows'][0] != 'ok':
        return 'a valid odd-sized bipolar case raised: r=%s W=%s rows=%s' % (obs['r'][0], obs['W'][0], obs['rows'][0])
    W, rows = obs['W'][1], obs['rows'][1]
    if len(W) != N or any(len(r) != N for r in W):
        return 'W is not N x N'
    for i in range(N):
        for j in range(N):
            want = 0 if i == j else sum(p[i] * p[j] for p in P)
            if W[i][j] != want:
                return 'W[%d][%d] = %d, sum of outer products (zero diagonal) gives %d' % (i, j, W[i][j], want)
            if W[i][j] != W[j][i]:
                return 'W is not symmetric at (%d, %d)' % (i, j)
    runs = [(list(st[0]), st[1], o) for st, o in zip(c.get('pre') or [], obs.get('pre') or [])] + [(c['s'], c['T'], obs['rows'])]
    if len(runs) != len(c.get('pre') or []) + 1:
        return 'an earlier evolution on the same net is missing from the observation'
    offset = 0          # steps performed by the earlier evolutions: _curr of the rule object carries over
    for k, (s0, T, o) in enumerate(runs):
        if o[0] != 'ok':
            return 'evolution %d on the net raised %s' % (k, o[1])
        rows = o[1]
        if len(rows) != T or rows[0] != s0:
            return 'evolution %d does not have T rows starting at the initial row' % k
        e2 = [_energy2(W, row) for row in rows]
        for t in range(1, len(rows)):
            if any(x not in (-1, 1) for x in rows[t]):
                return 'evolution %d: row %d is not bipolar' % (k, t)
            cell = c['perm'][(offset + t - 1) % N]
            if any(rows[t][q] != rows[t - 1][q] for q in range(N) if q != cell):
                return 'evolution %d: step %d changed a cell other than the scheduled cell %d' % (k, t, cell)
            V = sum(W[i][cell] * rows[t - 1][i] for i in range(N) if i != cell)
            if rows[t][cell] != (1 if V >= 0 else -1):
                return 'evolution %d: step %d: cell %d has input %d but became %d' % (k, t, cell, V, rows[t][cell])
            if e2[t] > e2[t - 1]:
                return 'evolution %d: energy increased at step %d: 2E %d -> %d' % (k, t, e2[t - 1], e2[t])
        if len(P) == 1 and (s0 == P[0] or s0 == [-x for x in P[0]]):
            if any(row != s0 for row in rows):
                return 'a single stored pattern (or its negation) is not a fixed point'
        offset += T - 1
    return None


def shrink(c):
    if c['T'] > 1:
        yield dict(c, T=c['T'] // 2)
        yield dict(c, T=c['T'] - 1)
    if len(c['P']) > 1:
        yield dict(c, P=c['P'][:-1])
        yield dict(c, P=c['P'][1:])
    if c.get('drop'):
        yield dict(c, drop=None)
    if c.get('pre'):
        yield dict(c, pre=c['pre'][1:])
        yield dict(c, pre=[[st[0], max(1, st[1] // 2)] for st in c['pre']])
    if c.get('P1') is not None:
        yield dict(c, P1=None)
        if len(c['P1']) > 1:
            yield dict(c, P1=c['P1'][:-1])
    if c['N'] > 3:
        N = c['N'] - 2
        perm = [x for x in c['perm'] if x < N]
        P1 = None if c.get('P1') is None else [p[:N] for p in c['P1']]
        yield dict(c, N=N, P=[p[:N] for p in c['P']], perm=perm, s=c['s'][:N], P1=P1,
                   pre=[[st[0][:N], st[1]] for st in (c.get('pre') or [])])
    if c['pform'] not in ('list', 'list_of_lists'):
        yield dict(c, pform='list')
    if c['dtype'] not in ('int64', 'int8'):
        yield dict(c, dtype='int64')


# ------------------------------------------------------------------ source tie (appended; harness/translate.py)
# pre(): regenerate coq/gen/GenFuns.v from the Python source of the tree under test and, if it changed, re-prove
# GenProps/GenFunsEquivC20.v, GenProps/C20Src.v and Properties/C20.v (theorem C20_source_tie) by hand.
# extra_checks(): report a failed translation / equivalence proof (theorem names, translator or coqc error).
from harness import translate as _translate
_prev_pre = globals().get('pre')
_prev_extra_checks = globals().get('extra_checks')
TRUSTED = list(globals().get('TRUSTED', [])) + [_translate.TRUSTED_NOTE]
NOTES = list(globals().get('NOTES', [])) + [
    'coq/gen/GenFuns.v is regenerated from the Python source at the start of every run; theorem C20_source_tie proves '
    'the regenerated definitions equal to the hand-written model for all inputs']


def pre(ctx):
    if _prev_pre is not None:
        _prev_pre(ctx)
    _translate.pre_hook(ctx, 'C20')


def extra_checks(ctx):
    out = list(_prev_extra_checks(ctx)) if _prev_extra_checks is not None else []
    return out + _translate.extra_hook(ctx, 'C20')
