"""C19 — approximate entropy (cellpylib/apen.py): correspondence generators and runners.

A case is one call apen(sequence, m, r) with the sequence given in one `form`:
  'str' | 'list' | 'array:<dtype>' | 'nplist:<item type>' (a Python list of NumPy scalars) | 'view:<kind>:<dtype>'
  (a non-contiguous ndarray view) | one of UNSUPPORTED (tuple, range, bytes, deque, ...).
Observation: the exception class, or the returned double transported exactly (float.hex(), decoded to
mantissa * 2^exponent), the double returned for the list form of the same integers (reference for the
"forms agree" oracle) and, when np.log's arguments could be observed, the numerators of C for m+1 and m.
"""
import math

from harness.driver import call_impl, cz, cnat, clist, cres, copt

ID = 'C19'
COQ_IMPORTS = ('From Coq Require Import String.\n'
               'From CPL Require Import Model.Base Model.Apen Corr.C19.\nOpen Scope Z_scope.')
NONTRIVIAL_RULE = ('non-trivial = the call returned a finite double different from 0.0 (so both phi terms, the '
                   'logarithms and the counts matter), or an unsupported type raised; distinct = distinct case dicts')
EXHAUSTIVE = {'quick': False, 'thorough': False}
NOTES = ['all ternary sequences of length 2..4 (quick) / 2..6 (thorough) are enumerated for several (m, r) with the '
         'input form rotating; the rest is random',
         'the double is compared with a verified 80-bit interval enclosure of the model\'s real value, tolerance 2^-30; '
         'logarithms of 1..129 come from a table evaluated once per Coq process (2.3 s), a case then costs ~15 ms',
         'list/extremes: values around +-2^63, 2^64, 10^30 with mixed signs in list, object/int64/uint64 array form, '
         'r in {0, 1, 2, 2^62}; real_r: float tolerances 0.5, 0.999, 1.5, 2.0, 2.5 (model side floor r); long/*: N = 300, '
         '600, 1200 with 2 or 4 states, m = 1, r = 0 (quick: 3 cases, thorough: 8)',
         'round 5: form/list_of_np/* (lists of np.int64/int32/int16/int8 items, mixed with Python ints, list(arr), '
         'Python and NumPy bools, unsigned items with every r (regression test of fix 7e39c45); str / None items are rejected), form/view/* (column, every second '
         'element, reversed, inner slice of a 2-D row, row of a Fortran-ordered array; four dtypes), arrays of dtype bool '
         'and float64 with integral values, eight more unsupported types',
         'exact layer: the numerators of C are recovered from the argument of np.log (patched during the call) and '
         'compared exactly; if the code stops calling np.log twice with fractions k/n this part is skipped, the double '
         'still is compared']
ASSUMPTIONS = ['integer sequences of any magnitude (sampled up to 10^30), m in 1..4 (thorough: 1..6), r >= 0 integer or float '
               '(the model receives floor r, justified by C19_real_tolerance_counts), length >= m+1',
               'list items: Python ints and bools, and NumPy integer / bool scalars of every width and signedness (converted '
               'with .item() since fix 7e39c45, so nothing wraps); items without `-` (str, None) raise from inside the distance '
               'and are compared as "rejected", class unconstrained',
               'exact subclasses of list / str / ndarray (type(x) is ... in the code) are not exercised: an isinstance '
               'refactoring would change their fate and the property does not name them',
               'digit strings are ASCII 0..9 (int() also accepts other Unicode digits; not exercised)',
               'the dtype of an array is not part of the model: the model sees the integer content (this is what the '
               'fix 8fd721a established); a wrap-around in a narrow dtype shows as a disagreement',
               'IEEE-754 evaluation error of log/sum/divide is far below the tolerance 2^-30 for N <= 120']
TRUSTED = ['Interval library (FloatIntervalFull over StdZRadix2) and Coquelicot as installed; their correctness '
           'lemmas are used, not re-proved',
           'decoding of float.hex() into mantissa/exponent in harness/props/c19.py']

UNSUPPORTED = ('tuple', 'range', 'bytes', 'deque', 'array.array', 'generator', 'none', 'int', 'dict', 'set', 'bytearray')
REJECTED_LISTS = ('nplist:stritems', 'nplist:noneitems')   # accepted by the type dispatch, then abs(ua - va) raises (class not constrained)
DTYPES = ['int64', 'int32', 'uint8', 'int8']
DT_RANGE = {'int64': (-2 ** 31, 2 ** 31 - 1), 'int32': (-2 ** 31, 2 ** 31 - 1), 'uint8': (0, 255), 'int8': (-128, 127)}
RS = [0, 1, 2, 5]


def _mk(kind, zs, m, r, form):
    return {'kind': kind, 'zs': [int(z) for z in zs], 'm': int(m), 'r': r if isinstance(r, float) else int(r), 'form': form}


def _digit_form(rng):
    return rng.choice(['str', 'list', 'array:int64', 'array:int32', 'array:uint8', 'array:int8'])


def generate(rng, tier):
    thorough = tier == 'thorough'
    max_m = 6 if thorough else 4
    max_len = 120 if thorough else 60
    forms3 = ['str', 'list', 'array:int64']
    # 1. every ternary sequence of small length, several (m, r), the form rotating
    k = 0
    for L in range(2, 7 if thorough else 5):
        for code in range(3 ** L):
            zs = [(code // 3 ** i) % 3 for i in range(L)]
            for (m, r) in [(1, 0), (1, 1), (2, 0), (2, 1), (3, 0)]:
                if L >= m + 1:
                    k += 1
                    yield _mk('exhaustive/ternary', zs, m, r, (forms3 + ['array:uint8', 'array:int8'])[k % 5])
    # 2. boundary length N = m + 1 and N = m + 2: all m, all r, all forms
    for m in range(1, max_m + 1):
        for r in RS:
            for N in (m + 1, m + 2):
                for form in forms3 + ['array:int32', 'array:uint8', 'array:int8']:
                    zs = [rng.randint(0, 9) for _ in range(N)]
                    yield _mk('boundary/N=m+%d' % (N - m), zs, m, r, form)
    # 3. the same random digit sequence in the three forms (and in every dtype)
    n3 = 400 if thorough else 70
    for _ in range(n3):
        m = rng.randint(1, max_m)
        N = rng.randint(m + 1, max_len) if rng.random() < 0.6 else rng.randint(m + 1, m + 12)
        K = rng.choice([2, 2, 3, 4, 10])
        zs = [rng.randrange(K) for _ in range(N)]
        r = rng.choice(RS)
        for form in forms3 + ['array:int32', 'array:uint8', 'array:int8']:
            yield _mk('forms/digits', zs, m, r, form)
    # 4. periodic / nearly periodic sequences (low entropy, many ties at the tolerance)
    for _ in range(600 if thorough else 80):
        m = rng.randint(1, max_m)
        N = rng.randint(m + 1, max_len)
        p = rng.randint(1, 5)
        base = [rng.randint(0, 9) for _ in range(p)]
        zs = [base[i % p] for i in range(N)]
        for _ in range(rng.choice([0, 0, 1, 2])):
            zs[rng.randrange(N)] = rng.randint(0, 9)
        yield _mk('periodic', zs, m, rng.choice(RS), _digit_form(rng))
    # 5. constant sequences -> exactly 0.0
    for _ in range(150 if thorough else 40):
        m = rng.randint(1, max_m)
        N = rng.choice([m + 1, m + 2, rng.randint(m + 1, max_len)])
        form = _digit_form(rng)
        v = rng.randint(0, 9)
        yield _mk('constant', [v] * N, m, rng.choice(RS), form)
    for _ in range(30 if thorough else 10):
        m = rng.randint(1, max_m)
        yield _mk('constant/wide', [rng.choice([-7, 10, 255, -128, 1000])] * rng.randint(m + 1, 30), m,
                  rng.choice(RS), rng.choice(['list', 'array:int64']))
    # 6. arrays of every dtype over the dtype's range (differences that wrap in the narrow types)
    for _ in range(900 if thorough else 160):
        dt = rng.choice(DTYPES)
        lo, hi = DT_RANGE[dt]
        m = rng.randint(1, max_m)
        N = rng.randint(m + 1, min(max_len, 40))
        style = rng.random()
        if style < 0.4:      # small values: 0 - 1 wraps to 255 in uint8
            zs = [rng.randint(max(lo, 0), 3) for _ in range(N)]
        elif style < 0.7:    # extremes of the type
            pool = [lo, lo + 1, hi - 1, hi, 0, 1]
            zs = [rng.choice(pool) for _ in range(N)]
        else:
            zs = [rng.randint(max(lo, -300), min(hi, 300)) for _ in range(N)]
        r = rng.choice(RS + [100, 200] if style >= 0.4 else RS)
        yield _mk('array/' + dt, zs, m, r, 'array:' + dt)
    # 7. lists and int64 arrays with negatives and values beyond 9
    for _ in range(600 if thorough else 100):
        m = rng.randint(1, max_m)
        N = rng.randint(m + 1, min(max_len, 40))
        span = rng.choice([3, 12, 100])
        zs = [rng.randint(-span, span) for _ in range(N)]
        yield _mk('wide/negatives', zs, m, rng.choice(RS), rng.choice(['list', 'array:int64']))
    # 7b. windows that collide when their values are concatenated as decimal strings ([1,11] vs [11,1] -> '111'):
    #     an r == 0 shortcut that keys windows by such a string counts distinct windows as matches
    yield dict(_mk('collide/example', [1, 11, 3, 11, 1, 5, 1, 11, 7], 1, 0, 'list'), defaults=True)
    yield _mk('collide/example', [1, 11, 3, 11, 1, 5, 1, 11, 7], 1, 0, 'array:int64')
    alphabets = [[1, 11, 111], [2, 12, 21, 1], [-1, 1, 11], [0, 10, 100, 1]]
    for i in range(900 if thorough else 150):
        alpha = alphabets[i % 4]
        m = 1 + (i // 4) % 3
        N = rng.randint(m + 1, 25)
        zs = [rng.choice(alpha) for _ in range(N)]
        r = 1 if i % 8 == 7 else 0
        form = ['list', 'array:int64', 'list', 'array:int32', 'array:int8'][i % 5]
        c = _mk('collide/' + '_'.join(str(a) for a in alpha), zs, m, r, form)
        if m == 1 and r == 0 and i % 3 == 0:
            c['defaults'] = True        # apen(seq): m = 1, r = 0 taken from the signature
        yield c
    # 7c. the default-argument path on ordinary digit sequences, every form
    for i in range(120 if thorough else 30):
        N = rng.randint(2, 30)
        zs = [rng.randrange(rng.choice([2, 3, 10])) for _ in range(N)]
        yield dict(_mk('defaults', zs, 1, 0, (forms3 + ['array:uint8', 'array:int8'])[i % 5]), defaults=True)
    # 7d. values at and beyond the int64 / uint64 limits, mixed signs: the list branch must compute on the Python
    #     ints it was given (fix bf18ea2; np.array(list) made them uint64 / float64, whose differences wrap / round)
    B = 2 ** 63
    yield _mk('list/extremes', [B, B + 1, B, B + 1, B, B, B + 1, B], 1, 1, 'list')
    yield _mk('list/extremes', [B, B + 1, B, B + 1, B, B, B + 1, B], 1, 1, 'array:uint64')
    yield _mk('list/extremes', [B - 1, -B, 5, 5, 7, 7, 5, 7], 1, 1, 'list')
    yield _mk('list/extremes', [B - 1, -B, 5, 5, 7, 7, 5, 7], 1, 1, 'array:int64')
    yield _mk('list/extremes', [B, -1, B, 0, -1, B], 1, 0, 'list')
    pools = [[B - 1, B, B + 1, B + 2], [-B, -B + 1, B - 1, B - 2, 0, 1], [2 ** 64 - 1, 2 ** 64, 2 ** 64 + 1, 0, 1],
             [10 ** 30, 10 ** 30 + 1, 10 ** 30 + 2, -10 ** 30], [B, -1, 0, B + 1, -B], [2 ** 62, -2 ** 62, 0, 2 ** 63, 1]]
    for i in range(600 if thorough else 120):
        pool = pools[i % len(pools)]
        m = rng.randint(1, 3)
        N = rng.randint(m + 1, 16)
        zs = [rng.choice(pool) for _ in range(N)]
        r = [0, 1, 2 ** 62, 1, 0, 2][i % 6] if i % 12 < 6 else rng.choice([0, 1, 2 ** 62])
        forms = ['list', 'list', 'array:object']
        if all(-B <= z < B for z in zs):
            forms.append('array:int64')
        if all(0 <= z < 2 * B for z in zs):
            forms.append('array:uint64')
        yield _mk('list/extremes', zs, m, r, rng.choice(forms))
    # 7e. real-valued tolerances: on integer data r behaves like floor(r) (C19_real_tolerance_floor); the model gets floor(r)
    for i in range(300 if thorough else 60):
        m = rng.randint(1, 3)
        N = rng.randint(m + 1, 30)
        if i % 3 == 0:
            zs = [rng.randint(-12, 12) for _ in range(N)]
            form = rng.choice(['list', 'array:int64', 'array:int8'])
        else:
            zs = [rng.randrange(rng.choice([3, 4, 10])) for _ in range(N)]
            form = _digit_form(rng)
        yield _mk('real_r', zs, m, [0.5, 1.5, 2.0, 0.999, 2.5][i % 5], form)
    # 7f. long sequences, m = 1, r = 0: thousands of windows, fractions whose product underflows a double
    #     (a phi computed as log(prod(C)) returns -inf there), N beyond the model's ln table
    longs = [(300, 4, 'list'), (600, 2, 'str'), (1200, 4, 'list')]
    if thorough:
        longs += [(300, 2, 'array:uint8'), (600, 4, 'array:int64'), (1200, 2, 'str'), (600, 2, 'list'), (300, 4, 'str')]
    for (N, K, form) in longs:
        zs = [rng.randrange(K) for _ in range(N)]
        yield _mk('long/N=%d' % N, zs, 1, 0, form)
    # 7g. round 5 (+ fix 7e39c45): a Python list whose items are NumPy scalars (list(arr), [np.int64(v) ...], mixed
    #     with Python ints). The list branch converts NumPy scalar items with .item(), so every item type computes on
    #     Python numbers: signed, UNSIGNED (for every r: regression test of 7e39c45 - before it 0 - 1 wrapped to 255),
    #     np.bool_ and Python bools (0/1). Items without `-` (str, None) are rejected, class not constrained.
    item_types = ['int64', 'int32', 'int16', 'int8', 'mixed', 'fromarray', 'uint8', 'uint16', 'uint64', 'mixed_u8',
                  'pybool', 'bool_', 'uint8', 'fromarray_u8']
    for i in range(840 if thorough else 224):
        it = item_types[i % len(item_types)]
        m = rng.randint(1, 3)
        N = rng.randint(m + 1, 24)
        r = rng.choice(RS)
        if it in ('pybool', 'bool_'):
            zs = [rng.randint(0, 1) for _ in range(N)]
        elif it in ('uint8', 'uint16', 'uint64', 'mixed_u8', 'fromarray_u8'):
            zs = [rng.randint(0, rng.choice([2, 3, 9, 200])) for _ in range(N)]
            r = rng.choice([1, 1, 2, 5, 0])
        elif it in ('int8', 'int16', 'int32') and i % 4 == 0:
            zs = [rng.randint(-12, 12) for _ in range(N)]
        else:
            zs = [rng.randrange(rng.choice([2, 3, 10])) for _ in range(N)]
        c = _mk('form/list_of_np/' + it, zs, m, r, 'nplist:' + it)
        if m == 1 and r == 0 and i % 5 == 0:
            c['defaults'] = True
        yield c
    for i in range(24 if thorough else 8):
        m = rng.randint(1, 2)
        zs = [rng.randint(0, 9) for _ in range(rng.randint(m + 1, 12))]
        it = ['stritems', 'noneitems'][i % 2]
        yield _mk('form/list_of/' + it, zs, m, rng.choice(RS), 'nplist:' + it)
    # 7h. round 5: ndarray inputs that are NON-CONTIGUOUS (or offset) views holding the same logical sequence:
    #     a column of a 2-D array, every second element, a reversed slice, an inner slice of a 2-D row, a row of a
    #     Fortran-ordered array. The memory next to each element holds other digits.
    vkinds = ['column', 'stride2', 'reversed', 'sliced_2d_row', 'fortran_row']
    for i in range(600 if thorough else 150):
        vk = vkinds[i % len(vkinds)]
        dt = DTYPES[(i // len(vkinds)) % 4]
        m = rng.randint(1, 3)
        N = rng.randint(m + 1, 24)
        zs = [rng.randrange(rng.choice([2, 3, 10])) for _ in range(N)]
        yield _mk('form/view/' + vk, zs, m, rng.choice(RS), 'view:%s:%s' % (vk, dt))
    # 7i. arrays of dtype bool (values 0/1) and float64 with integral values ("a numpy array of whole numbers")
    for i in range(120 if thorough else 30):
        m = rng.randint(1, 3)
        N = rng.randint(m + 1, 24)
        if i % 2:
            yield _mk('form/array_bool', [rng.randint(0, 1) for _ in range(N)], m, rng.choice(RS), 'array:bool')
        else:
            yield _mk('form/array_float', [rng.randint(-5, 12) for _ in range(N)], m, rng.choice(RS), 'array:float64')
    # 8. unsupported types
    for i in range(60 if thorough else 24):
        m = rng.randint(1, max_m)
        N = rng.randint(m + 1, 20)
        form = ['tuple', 'range', 'bytes'][i % 3]
        zs = list(range(N)) if form == 'range' else [rng.randint(0, 9) for _ in range(N)]
        yield _mk('unsupported/' + form, zs, m, rng.choice(RS), form)
    for i in range(48 if thorough else 16):
        m = rng.randint(1, max_m)
        form = UNSUPPORTED[3 + i % (len(UNSUPPORTED) - 3)]
        zs = [rng.randint(0, 9) for _ in range(rng.randint(m + 1, 20))]
        yield _mk('unsupported/' + form, zs, m, rng.choice(RS), form)
    # 9. a string with a non-digit character is rejected (int(x) fails); class not part of the property
    for _ in range(10 if thorough else 4):
        m = rng.randint(1, 2)
        N = rng.randint(m + 1, 12)
        zs = [rng.randint(0, 9) for _ in range(N)]
        c = _mk('str/nondigit', zs, m, 0, 'str')
        c['bad'] = [rng.randrange(N), rng.choice('abxyzQ')]
        yield c


def _string(c):
    chars = [str(z) for z in c['zs']]
    if 'bad' in c:
        chars[c['bad'][0]] = c['bad'][1]
    return ''.join(chars)


def _build(c, form=None):
    import numpy as np
    form = form or c['form']
    zs = c['zs']
    if form == 'str':
        return _string(c)
    if form == 'list':
        return list(zs)
    if form.startswith('array:'):
        return np.array(zs, dtype=form.split(':')[1])
    if form.startswith('nplist:'):
        it = form.split(':')[1]
        if it == 'mixed':
            return [np.int64(z) if i % 2 else z for i, z in enumerate(zs)]
        if it == 'mixed_u8':
            return [np.uint8(z) if i % 2 else z for i, z in enumerate(zs)]
        if it == 'fromarray':
            return list(np.array(zs))
        if it == 'fromarray_u8':
            return list(np.array(zs, dtype=np.uint8))
        if it == 'stritems':
            return [str(z) for z in zs]
        if it == 'noneitems':
            return [None if i == len(zs) // 2 else z for i, z in enumerate(zs)]
        if it == 'pybool':
            return [bool(z) for z in zs]
        return [getattr(np, it)(z) for z in zs]
    if form.startswith('view:'):
        _, vk, dt = form.split(':')
        N = len(zs)
        junk = lambda i: (zs[i % N] + 1 + i % 7) % 10          # neighbours in memory differ from the logical sequence
        if vk == 'column':
            M = np.array([[junk(3 * i + j) for j in range(3)] for i in range(N)], dtype=dt)
            M[:, 1] = zs
            v = M[:, 1]
        elif vk == 'stride2':
            base = np.array([junk(i) for i in range(2 * N + 8)], dtype=dt)
            base[0:2 * N:2] = zs
            v = base[0:2 * N:2]
        elif vk == 'reversed':
            base = np.array([junk(i) for i in range(3 * N + 8)], dtype=dt)
            base[N:2 * N] = zs[::-1]
            v = base[N:2 * N][::-1]
        elif vk == 'sliced_2d_row':
            M = np.array([[junk(i * (N + 4) + j) for j in range(N + 4)] for i in range(3)], dtype=dt)
            M[1, 2:N + 2] = zs
            v = M[1, 2:N + 2]
        elif vk == 'fortran_row':
            M = np.asfortranarray(np.array([[junk(i * N + j) for j in range(N)] for i in range(3)], dtype=dt))
            M[1, :] = zs
            v = M[1, :]
        else:
            raise AssertionError(form)
        assert v.tolist() == list(zs) and type(v) is np.ndarray and v.ndim == 1
        return v
    if form == 'deque':
        import collections
        return collections.deque(zs)
    if form == 'array.array':
        import array
        return array.array('i', zs)
    if form == 'generator':
        return (z for z in zs)
    if form == 'none':
        return None
    if form == 'int':
        return zs[0]
    if form == 'dict':
        return dict(enumerate(zs))
    if form == 'set':
        return set(zs)
    if form == 'bytearray':
        return bytearray(zs)
    if form == 'tuple':
        return tuple(zs)
    if form == 'range':
        return range(len(zs))
    if form == 'bytes':
        return bytes(zs)
    raise AssertionError(form)


def _call(cpl, c, seq):
    """apen(seq) when the case exercises the defaults (the case then has m = 1, r = 0), else apen(seq, m, r)"""
    if c.get('defaults'):
        assert c['m'] == 1 and c['r'] == 0
        return cpl.apen(seq)
    return cpl.apen(seq, c['m'], c['r'])


def _dbl(x):
    """exact transport of a double: float.hex() decoded to (mantissa, exponent), x = mantissa * 2^exponent"""
    x = float(x)
    if math.isnan(x) or math.isinf(x):
        return {'hex': repr(x), 'finite': False}
    h = x.hex()                       # [-]0x1.xxxxxxxxxxxxxp[+-]e   or 0x0.0p+0
    sign = -1 if h.startswith('-') else 1
    body, ex = h.lstrip('-')[2:].split('p')
    ip, fp = body.split('.') if '.' in body else (body, '')
    mant = sign * int(ip + fp, 16)
    e = int(ex) - 4 * len(fp)
    assert mant * 2.0 ** e == x if abs(e) < 1000 else True
    return {'hex': h, 'finite': True, 'mant': mant, 'ex': e}


def _counts(logged, N, m):
    """numerators of C from the two arguments of np.log (for m+1, then for m), or None if that is not what was seen"""
    if len(logged) != 2:
        return None
    out = []
    for arr, k in zip(logged, (m + 1, m)):
        n = N - k + 1
        if len(arr) != n:
            return None
        row = []
        for v in arr:
            c = v * n
            if not (abs(c - round(c)) < 1e-9 and 0 <= round(c) <= n):
                return None
            row.append(int(round(c)))
        out.append(row)
    return out


def run_impl(c):
    import numpy as np
    import cellpylib as cpl
    logged = []
    real_log = np.log

    def spy_log(a, *args, **kw):
        try:
            logged.append([float(v) for v in np.asarray(a, dtype=float).ravel()])
        except Exception:
            logged.append(None)
        return real_log(a, *args, **kw)

    seq = _build(c)
    np.log = spy_log
    try:
        with np.errstate(all='ignore'):
            r = call_impl(lambda: _dbl(_call(cpl, c, seq)))
    finally:
        np.log = real_log
    obs = {'res': list(r), 'counts': None, 'ref': None}
    if r[0] == 'ok':
        if all(a is not None for a in logged):
            obs['counts'] = _counts(logged, len(c['zs']), c['m'])
        if c['form'] != 'list' and 'bad' not in c and c['form'] not in REJECTED_LISTS:
            with np.errstate(all='ignore'):
                ref = call_impl(lambda: _dbl(_call(cpl, c, _build(c, 'list'))))
            obs['ref'] = list(ref)
    return obs


def _cdbl(d):
    if not d['finite']:
        return 'NonFinite'
    return '(Dbl %s %s)' % (cz(d['mant']), cz(d['ex']))


def to_coq(c, obs):
    form = c['form']
    if form == 'str':
        inp = '(SeqStr "%s"%%string)' % _string(c)
    elif form == 'list':
        inp = '(SeqList %s)' % clist(c['zs'], cz)
    elif form.startswith('array:') or form.startswith('view:'):
        inp = '(SeqArray %s)' % clist(c['zs'], cz)
    elif form in REJECTED_LISTS:
        inp = 'SeqListNoSub'
    elif form.startswith('nplist:'):
        inp = '(SeqList %s)' % clist(c['zs'], cz)
    else:
        assert form in UNSUPPORTED, form
        inp = 'SeqOther'
    counts = obs['counts']
    cc = copt(counts, lambda p: '(%s, %s)' % (clist(p[0], cnat), clist(p[1], cnat)))
    return '(CApen %s %s %s %s %s)' % (inp, cnat(c['m']), cz(math.floor(c['r'])), cres(obs['res'], _cdbl), cc)


def nontrivial(c, obs):
    r = obs['res']
    if r[0] == 'exc':
        return c['form'] in UNSUPPORTED
    return r[1]['finite'] and r[1]['mant'] != 0


def oracle(c, obs):
    """The property's own clauses, evaluated on the implementation's answers."""
    r = obs['res']
    if c['form'] in UNSUPPORTED:
        return None if r == ['exc', 'TypeError'] else 'unsupported sequence type did not raise TypeError'
    if c['form'] in REJECTED_LISTS:
        return None if r[0] == 'exc' else 'a list with str / None items was accepted (abs(ua - va) is not defined on them)'
    if 'bad' in c:
        return None if r[0] == 'exc' else 'a string with a non-digit character was accepted'
    if r[0] != 'ok':
        return 'apen raised %s on a sequence of the domain' % r[1]
    d = r[1]
    if not d['finite']:
        return 'apen returned %s' % d['hex']
    if d['mant'] < 0:
        return 'apen is negative'
    if len(set(c['zs'])) == 1 and d['mant'] != 0:
        return 'constant sequence: apen is not 0.0'
    if obs['ref'] is not None and obs['ref'] != r:
        return 'input forms disagree: %s gives %s, the list of the same integers gives %s' % (
            c['form'], d['hex'], obs['ref'][1]['hex'] if obs['ref'][0] == 'ok' else obs['ref'][1])
    # Pincus' definition recomputed independently from the indices (math.log, exact integer counts)
    zs, m, rr = c['zs'], c['m'], c['r']
    N = len(zs)

    def phi(k):
        n = N - k + 1
        tot = 0.0
        cs = []
        for i in range(n):
            cnt = sum(1 for j in range(n) if all(abs(zs[i + t] - zs[j + t]) <= rr for t in range(k)))
            cs.append(cnt)
            tot += math.log(cnt / n)
        return tot / n, cs
    p1, c1 = phi(m + 1)
    p0, c0 = phi(m)
    want = abs(p1 - p0)
    got = d['mant'] * 2.0 ** d['ex']
    if abs(got - want) > 1e-9:
        return 'value %r differs from |phi(m+1) - phi(m)| = %r recomputed from the definition' % (got, want)
    if obs['counts'] is not None and obs['counts'] != [c1, c0]:
        return 'match counts differ from the definition'
    return None


def shrink(c):
    zs, m = c['zs'], c['m']
    if 'bad' in c:
        return
    if len(zs) > m + 1:
        if len(zs) > 2 * (m + 1):
            yield dict(c, zs=zs[:len(zs) // 2])
            yield dict(c, zs=zs[len(zs) // 2:])
        yield dict(c, zs=zs[:-1])
        yield dict(c, zs=zs[1:])
    if m > 1:
        yield dict(c, m=m - 1)
    if isinstance(c['r'], float):
        yield dict(c, r=int(math.floor(c['r'])))
    elif c['r'] > 4:
        yield dict(c, r=c['r'] // 2)
    elif c['r'] > 0:
        yield dict(c, r=c['r'] - 1)
    if c['form'] in ('range', 'int', 'none'):
        return
    lo = min(zs)
    if c['form'] not in ('bytes',) and any(z != lo for z in zs):
        # bring values closer together without changing the form
        small = [min(z, lo + 2) for z in zs]
        if small != zs:
            yield dict(c, zs=small)


# ------------------------------------------------------------------ source tie (appended; harness/translate.py)
# pre(): regenerate coq/gen/GenFuns_C19.v from the Python source of the tree under test and, if it changed, re-prove
# GenProps/GenFunsEquivC19.v, GenProps/C19Src.v and Properties/C19.v (theorem C19_source_tie) by hand.
# extra_checks(): report a failed translation / equivalence proof (theorem names, translator or coqc error).
from harness import translate as _translate
_prev_pre = globals().get('pre')
_prev_extra_checks = globals().get('extra_checks')
TRUSTED = list(globals().get('TRUSTED', [])) + [_translate.TRUSTED_NOTE]
NOTES = list(globals().get('NOTES', [])) + [
    'coq/gen/GenFuns_C19.v is regenerated from the Python source at the start of every run; theorem C19_source_tie '
    'proves the regenerated definitions equal to the hand-written model for all inputs']


def pre(ctx):
    if _prev_pre is not None:
        _prev_pre(ctx)
    _translate.pre_hook(ctx, 'C19')


def extra_checks(ctx):
    out = list(_prev_extra_checks(ctx)) if _prev_extra_checks is not None else []
    return out + _translate.extra_hook(ctx, 'C19')
