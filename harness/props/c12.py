"""C12 — AsynchronousRule updates exactly the scheduled cell each step: correspondence generators and runners.

The REAL cpl.evolve / cpl.evolve2d are run with cpl.AsynchronousRule(Logged(inner), update_order=... | num_cells=...,
randomize_each_cycle=...); np.random.shuffle is replaced (in this process, restored in finally) by a function that
permutes in place according to the next scripted permutation, the same script the Coq model's oracle reads.
Observables compared in Coq: the returned arrays and the (c, t) log of the wrapped rule.  oracle() additionally checks
the frame property on the arrays and that the caller's update_order object is left as it was given."""
import itertools

from harness.driver import call_impl, cz, cnat, cbool, czlist, cgrid, chist, clist, copt, cres
from harness import twins

ID = 'C12'
COQ_IMPORTS = ('From CPL Require Import Model.Base Model.Rules Model.Engine Model.Evolve1D Model.Evolve2D Model.Async '
               'Corr.C12.\nOpen Scope Z_scope.')
NONTRIVIAL_RULE = ('1D: every duplicate-free non-empty order over N <= 4 (all arrangements of all subsets), plain and '
                   'randomized with scripted shuffles; random orders N <= 12 (N <= 16 thorough) given as list / tuple / '
                   'range / ndarray, each with and without randomize_each_cycle; orders 0..k-1 on N > k cells; the num_cells '
                   'constructor; 2D: shapes <= 3x3 with every subset of <= 3 coordinates (every arrangement in the thorough '
                   'tier), given as list of tuples or tuple of tuples, random orders on shapes <= 4x4, Moore and von Neumann; '
                   'one rule object reused for two evolve calls (1D and 2D); the wrapped rule in every callable shape / '
                   'return type of twins.RULE_DRESSINGS and the AsynchronousRule object as an instance of a '
                   'behaviour-preserving user subclass; the wrapped callable a temporary of the caller (inline bound method / '
                   'lambda / partial / closure, garbage collected before evolve); one object driven through two or three '
                   'successive evolve calls; orders with NumPy-integer items; wrapped rules Script and Lin; '
                   'T up to 3L+2. '
                   'non-trivial = the run returned arrays and at least one step rewrote a cell with a different value; '
                   'distinct = distinct case dicts')
EXHAUSTIVE = {'quick': False, 'thorough': False}
NOTES = ['np.random.shuffle is patched in the harness process to a scripted permutation (restored in finally)',
         'orders over N <= 4 are enumerated completely in both tiers; the sampled part is N > 4 and the 2D random bucket',
         'oracle(): the caller\'s update_order (list, tuple, range, ndarray, tuple of tuples) is unchanged after the run']
ASSUMPTIONS = ['update orders are duplicate-free sequences of cells of the automaton (ints in 1D, coordinate tuples in 2D); '
               'orders with duplicates or foreign cells, and 2D coordinates given as lists or as an ndarray, are outside the '
               'property and are not generated',
               'int64 automata and wrapped-rule results representable in the dtype',
               'the exception class for an empty update_order is not compared (any exception on both sides agrees)']
TRUSTED = ['the patched np.random.shuffle applies the scripted index permutation p as x <- [x[p[0]], x[p[1]], ...]; '
           'the Coq oracle script_sh does the same']


# ---------------------------------------------------------------- generators
def _rule(rng, dim, r, L, T, fam=None):
    fam = fam or rng.choice(['script', 'lin', 'lin', 'linct'])
    if fam == 'script':
        return {'fam': 'script', 'vs': [rng.randint(0, 4) for _ in range(T + 1)]}
    n = (2 * r + 1) if dim == 1 else (2 * r + 1) ** 2
    if rng.random() < 0.5:
        ws = [1] * n                      # NKS-like totalistic parity (rule 150 in 1D with m = 2)
    else:
        ws = [rng.randint(0, 3) for _ in range(n)]
    return {'fam': fam, 'ws': ws, 'm': rng.choice([2, 2, 3, 5])}


def _perms(rng, L, count):
    out = []
    for _ in range(count):
        p = list(range(L))
        rng.shuffle(p)
        out.append(p)
    return out


def _row(rng, N, k=2):
    return [rng.randint(0, k - 1) for _ in range(N)]


def _grid(rng, R, C, k=2):
    return [[rng.randint(0, k - 1) for _ in range(C)] for _ in range(R)]


def _case1(rng, kind, N, order, rand, r=None, T=None, hist_len=1, fam=None, form='list', reuse=None, rng_args=None,
           calls=None):
    L = len(order) if order is not None else N
    if r is None:
        r = rng.randint(1, min(N, 3))
    if T is None:
        T = 3 * L + 2
    steps = max(T - 1, 0) + (max(reuse['T2'] - 1, 0) if reuse else 0) + sum(max(x['T'] - 1, 0) for x in (calls or []))
    nper = (1 if order is None else 0) + (steps if rand else 0)
    c = {'kind': kind, 'dim': 1, 'rule': _rule(rng, 1, r, L, steps, fam), 'order': order, 'rand': rand,
         'perms': _perms(rng, L, nper), 'r': r, 'hist': [_row(rng, N, rng.choice([2, 2, 3])) for _ in range(hist_len)],
         'T': T, 'form': form}
    if rng_args is not None:
        c['range'] = list(rng_args)
    if calls:
        c['calls'] = [dict(x, hist=[_row(rng, N, 3)]) if x['mode'] == 'fresh' else dict(x) for x in calls]
    if reuse:
        c['reuse'] = dict(reuse)
        if reuse['mode'] == 'fresh':
            c['reuse']['hist2'] = [_row(rng, N, 3)]
    return c


def _case2(rng, kind, R, C, order, rand, r=None, T=None, hist_len=1, fam=None, nb=None, form='list', reuse=None,
           calls=None):
    L = len(order) if order is not None else R * C
    if r is None:
        r = rng.randint(1, max(1, min(R, C, 2)))
    if T is None:
        T = 3 * L + 2
    steps = max(T - 1, 0) + (max(reuse['T2'] - 1, 0) if reuse else 0) + sum(max(x['T'] - 1, 0) for x in (calls or []))
    nper = (1 if order is None else 0) + (steps if rand else 0)
    c = {'kind': kind, 'dim': 2, 'rule': _rule(rng, 2, r, L, steps, fam), 'order': order, 'rand': rand,
         'perms': _perms(rng, L, nper), 'r': r, 'nb': nb or rng.choice(['Moore', 'von Neumann']),
         'hist': [_grid(rng, R, C) for _ in range(hist_len)], 'T': T, 'form': form}
    if calls:
        c['calls'] = [dict(x, hist=[_grid(rng, R, C, 3)]) if x['mode'] == 'fresh' else dict(x) for x in calls]
    if reuse:
        c['reuse'] = dict(reuse)
        if reuse['mode'] == 'fresh':
            c['reuse']['hist2'] = [_grid(rng, R, C, 3)]
    return c


def generate(rng, tier):
    thorough = tier == 'thorough'
    # ---- 1D, complete: every arrangement of every non-empty subset of N <= 4 cells
    for N in range(1, 5):
        for k in range(1, N + 1):
            for order in itertools.permutations(range(N), k):
                order = list(order)
                which = 'full' if k == N else 'subset'
                for fam in ('script', 'lin'):
                    yield _case1(rng, '1d/exhaustive/%s' % which, N, order, False, fam=fam)
                    yield _case1(rng, '1d/exhaustive/%s/randomized' % which, N, order, True, fam=fam)
                if thorough:
                    for T in (1, 2, len(order) + 1, 2 * len(order) + 1):
                        yield _case1(rng, '1d/exhaustive/%s/T' % which, N, order, rng.random() < 0.3, T=T)
    # ---- 1D, random larger; the order handed over as a list, a tuple or an ndarray, plain and randomized
    nmax = 16 if thorough else 12
    for _ in range(4000 if thorough else 420):
        N = rng.randint(5, nmax)
        pick = rng.random()
        if pick < 0.35:
            k = N
        elif pick < 0.45:
            k = 1
        else:
            k = rng.randint(1, N)
        order = rng.sample(range(N), k)
        T = rng.choice([3 * k + 2, 3 * k + 2, 2 * k + 1, k + 1, rng.randint(1, 3 * k + 2)])
        if k > 8:
            T = rng.choice([k + 2, 2 * k + 1, rng.randint(1, 3 * k + 2)])
        rand = rng.random() < 0.4
        form = rng.choice(['list', 'tuple', 'array', 'npint'])
        yield _case1(rng, '1d/random/%s/%s%s' % ('full' if k == N else 'subset', form, '/randomized' if rand else ''),
                     N, order, rand, T=T, hist_len=rng.choice([1, 1, 1, 2, 3]), form=form)
    # ---- 1D, range objects as update_order (ascending, descending, strided), plain and randomized
    for _ in range(600 if thorough else 80):
        N = rng.randint(2, nmax)
        step = rng.choice([1, 1, 2, 3, -1, -2])
        if step > 0:
            a = rng.randint(0, N - 1)
            b = rng.randint(a + 1, N)
        else:
            a = rng.randint(0, N - 1)
            b = rng.randint(-1, a - 1)
        order = list(range(a, b, step))
        k = len(order)
        rand = rng.random() < 0.5
        yield _case1(rng, '1d/range%s' % ('/randomized' if rand else ''), N, order, rand,
                     T=rng.choice([3 * k + 2, 2 * k + 1, k + 2]), form='range', rng_args=(a, b, step))
    # ---- 1D, an order that is a permutation of 0..k-1 on an automaton with MORE than k cells
    prefix = [(3, 2), (2, 1), (4, 2), (4, 3), (5, 1), (6, 3), (8, 5), (12, 7), (21, 10)]
    if thorough:
        prefix += [(N, k) for N in range(2, 17) for k in range(1, N)]
    for N, k in prefix:
        for variant in range(3 if not thorough else 2):
            order = list(range(k))
            form, ra = 'list', None
            if variant == 1:
                rng.shuffle(order)
            if variant == 2:
                form, ra = 'range', (0, k, 1)
            rand = variant == 1 and rng.random() < 0.5
            yield _case1(rng, '1d/prefix_order', N, order, rand, r=1 if N > 12 else None,
                         T=(3 * k + 2) if k <= 5 else 2 * k + 2, form=form, rng_args=ra)
    # ---- 1D, num_cells constructor (order = shuffled arange)
    for N in range(1, 9 if not thorough else 13):
        for rand in (False, True):
            for _ in range(4 if not thorough else 12):
                yield _case1(rng, '1d/num_cells', N, None, rand, T=rng.choice([3 * N + 2, N + 1, 2 * N + 1]))
    # ---- 1D, empty order: rejected at the first call
    for N in (1, 3):
        for T in (1, 2, 4):
            c = _case1(rng, '1d/empty_order', N, [0], False, T=T)
            c['order'] = []
            yield c
    # ---- 2D, shapes <= 3x3, every subset of <= 3 coordinates (most proper subsets leave an unlisted cell that shares
    #      its row index or its column index with a listed one, e.g. (2,2)-shaped grid with order [(0,0),(0,1)])
    for R in range(1, 4):
        for C in range(1, 4):
            cells = [(i, j) for i in range(R) for j in range(C)]
            for k in range(1, min(3, len(cells)) + 1):
                if thorough:
                    orders = itertools.permutations(cells, k)
                else:
                    orders = []
                    for sub in itertools.combinations(cells, k):
                        sub = list(sub)
                        rng.shuffle(sub)
                        orders.append(sub)
                for order in orders:
                    order = [list(x) for x in order]
                    which = 'full' if k == len(cells) else 'subset'
                    form = rng.choice(['list', 'list', 'tuple'])
                    yield _case2(rng, '2d/exhaustive/%s' % which, R, C, order, False, r=1, form=form)
                    if thorough or rng.random() < 0.3:
                        yield _case2(rng, '2d/exhaustive/%s/randomized' % which, R, C, order, True, r=1,
                                     form=rng.choice(['list', 'tuple']))
    # ---- 2D, the docstring's form: a tuple of tuples, plain and randomized
    for _ in range(400 if thorough else 60):
        R, C = rng.randint(1, 4), rng.randint(1, 4)
        cells = [[i, j] for i in range(R) for j in range(C)]
        k = len(cells) if rng.random() < 0.3 else rng.randint(1, len(cells))
        order = rng.sample(cells, k)
        rand = rng.random() < 0.5
        yield _case2(rng, '2d/tuple_of_tuples%s' % ('/randomized' if rand else ''), R, C, order, rand,
                     T=rng.choice([k + 2, 2 * k + 1, 3 * k + 2 if k <= 5 else k + 3]), form='tuple')
    # ---- 2D, random <= 4x4 (full permutations included)
    for _ in range(1500 if thorough else 200):
        R, C = rng.randint(1, 4), rng.randint(1, 4)
        cells = [[i, j] for i in range(R) for j in range(C)]
        k = len(cells) if rng.random() < 0.35 else rng.randint(1, len(cells))
        order = rng.sample(cells, k)
        T = rng.choice([k + 2, 2 * k + 1, 3 * k + 2 if k <= 6 else k + 3, rng.randint(1, k + 3)])
        form = rng.choice(['list', 'list', 'tuple', 'npint'])
        yield _case2(rng, '2d/random/%s/%s' % ('full' if k == len(cells) else 'subset', form), R, C, order,
                     rng.random() < 0.4, T=T, hist_len=rng.choice([1, 1, 2]), form=form)
    # ---- 2D, num_cells = (R, C)
    for R in range(1, 4 if not thorough else 5):
        for C in range(1, 4 if not thorough else 5):
            for rand in (False, True):
                for _ in range(2 if not thorough else 5):
                    yield _case2(rng, '2d/num_cells', R, C, None, rand, T=rng.choice([R * C + 2, 2 * R * C + 1]))
    # ---- dress: the rule WRAPPED by AsynchronousRule has another callable shape / return type (twins.dress), or
    #      the AsynchronousRule object itself is an instance of a behaviour-preserving user subclass
    reps = 4 if thorough else 1
    hows = [(h, None) for h in twins.RULE_DRESSINGS] + [(None, 'plain'), (None, 'super'), ('starargs', 'plain'),
                                                       ('sub:BaseRule', 'super'), ('ret0d', 'plain')]
    for how, sub in hows:
        tag = 'dress/%s' % (how if sub is None else ('subclass:%s%s' % (sub, '+' + how if how else '')))
        for _ in range(reps):
            for variant in ('order', 'order/randomized', 'num_cells'):
                rand = variant != 'order' and (variant == 'order/randomized' or rng.random() < 0.5)
                N = rng.randint(2, 8)
                k = rng.randint(1, N)
                order = None if variant == 'num_cells' else rng.sample(range(N), k)
                L = N if order is None else k
                c = _case1(rng, '%s/1d/%s' % (tag, variant), N, order, rand, T=rng.choice([L + 2, 2 * L + 1, 3 * L + 2]),
                           form=rng.choice(['list', 'tuple', 'npint']))
                c['dress'], c['subclass'] = how, sub
                yield c
                R, C = rng.randint(1, 3), rng.randint(1, 3)
                cells = [[i, j] for i in range(R) for j in range(C)]
                k = rng.randint(1, len(cells))
                order = None if variant == 'num_cells' else rng.sample(cells, k)
                L = len(cells) if order is None else k
                c = _case2(rng, '%s/2d/%s' % (tag, variant), R, C, order, rand, T=rng.choice([L + 2, 2 * L + 1]),
                           form=rng.choice(['list', 'tuple', 'npint']))
                c['dress'], c['subclass'] = how, sub
                yield c
    # ---- lifetime: the wrapped callable is a TEMPORARY of the caller (bound method of an inline-constructed object,
    #      inline lambda / partial / closure); run_impl builds it inside the argument list and collects garbage
    #      before evolve, so only the AsynchronousRule object keeps it alive
    for lt in ('method', 'lambda', 'partial', 'closure'):
        for _ in range(6 if thorough else 2):
            for variant in ('order', 'order/randomized', 'num_cells'):
                rand = variant != 'order' and (variant == 'order/randomized' or rng.random() < 0.5)
                N = rng.randint(2, 8)
                k = rng.randint(1, N)
                order = None if variant == 'num_cells' else rng.sample(range(N), k)
                L = N if order is None else k
                c = _case1(rng, 'lifetime/%s/1d/%s' % (lt, variant), N, order, rand, T=rng.choice([L + 2, 2 * L + 1]))
                c['lifetime'] = lt
                yield c
                R, C = rng.randint(1, 3), rng.randint(1, 3)
                cells = [[i, j] for i in range(R) for j in range(C)]
                k = rng.randint(1, len(cells))
                order = None if variant == 'num_cells' else rng.sample(cells, k)
                L = len(cells) if order is None else k
                c = _case2(rng, 'lifetime/%s/2d/%s' % (lt, variant), R, C, order, rand, T=rng.choice([L + 2, 2 * L + 1]))
                c['lifetime'] = lt
                yield c
    # ---- continue: ONE rule object driven through two or three successive evolve calls, each continuing from the
    #      previous result (sometimes from a fresh state); T1-1 is not a multiple of the order length, so the
    #      schedule must carry on in the middle of the cycle; compared with the model's state machine run over
    #      the concatenated calls
    for dim in (1, 2):
        for _ in range(600 if thorough else 70):
            if dim == 1:
                N = rng.randint(2, 8)
                cells = list(range(N))
            else:
                R, C = rng.randint(1, 3), rng.randint(1, 3)
                if R * C == 1:
                    C = 2
                cells = [[i, j] for i in range(R) for j in range(C)]
            use_num_cells = rng.random() < 0.15
            k = len(cells) if use_num_cells else rng.randint(2, len(cells))
            order = None if use_num_cells else rng.sample(cells, k)
            T1 = 1 + rng.choice([x for x in range(1, 2 * k + 2) if x % k != 0])
            ncalls = rng.choice([1, 1, 2])
            calls = [{'T': rng.choice([2, k, k + 2, rng.randint(1, 2 * k + 1)]),
                      'mode': 'cont' if rng.random() < 0.8 else 'fresh'} for _ in range(ncalls)]
            rand = rng.random() < 0.4
            kind = 'continue/%dd/%dcalls%s' % (dim, ncalls + 1, '/randomized' if rand else '')
            if dim == 1:
                yield _case1(rng, kind, N, order, rand, T=T1, form=rng.choice(['list', 'tuple']), calls=calls)
            else:
                yield _case2(rng, kind, R, C, order, rand, T=T1, form=rng.choice(['list', 'tuple']), calls=calls)
    # ---- reuse: ONE rule object through two consecutive evolve calls; the first run's length is mostly not a
    #      multiple of L, so that the second call starts in the middle of the cycle (curr <> 0)
    for _ in range(900 if thorough else 150):
        N = rng.randint(1, 8)
        k = rng.randint(1, N)
        order = None if rng.random() < 0.15 else rng.sample(range(N), k)
        L = N if order is None else k
        T1 = rng.choice([2, L, L + 2, rng.randint(1, 2 * L + 2)])
        T2 = rng.choice([2, L + 1, rng.randint(1, 2 * L + 2)])
        rand = rng.random() < 0.4
        mode = rng.choice(['cont', 'cont', 'fresh'])
        yield _case1(rng, 'reuse/1d/%s%s' % (mode, '/randomized' if rand else ''), N, order, rand, T=T1,
                     form=rng.choice(['list', 'tuple']), reuse={'T2': T2, 'mode': mode})
    for _ in range(600 if thorough else 100):
        R, C = rng.randint(1, 3), rng.randint(1, 3)
        cells = [[i, j] for i in range(R) for j in range(C)]
        k = rng.randint(1, len(cells))
        order = None if rng.random() < 0.15 else rng.sample(cells, k)
        L = len(cells) if order is None else k
        T1 = rng.choice([2, L, L + 2, rng.randint(1, 2 * L + 2)])
        T2 = rng.choice([2, L + 1, rng.randint(1, 2 * L + 2)])
        rand = rng.random() < 0.4
        mode = rng.choice(['cont', 'cont', 'fresh'])
        yield _case2(rng, 'reuse/2d/%s%s' % (mode, '/randomized' if rand else ''), R, C, order, rand, T=T1,
                     form=rng.choice(['list', 'tuple']), reuse={'T2': T2, 'mode': mode})


# ---------------------------------------------------------------- running the implementation
def _caller_order(c, np):
    """the object the caller hands to AsynchronousRule, and a function that reads it back as nested lists"""
    form = c.get('form', 'list')
    if c['dim'] == 1:
        order = list(c['order'])
        if form == 'tuple':
            return tuple(order), lambda o: [int(x) for x in o]
        if form == 'range' and c.get('range'):
            return range(*c['range']), lambda o: [int(x) for x in o]
        if form == 'array' and order:
            return np.array(order), lambda o: [int(x) for x in o.tolist()]
        if form == 'npint':                       # a list whose items are NumPy integers
            return [np.int64(x) for x in order], lambda o: [int(x) for x in o]
        return order, lambda o: [int(x) for x in o]
    order = [tuple(x) for x in c['order']]
    if form == 'npint':                           # coordinates built from NumPy integers (e.g. from np.argwhere)
        order = [(np.int64(x[0]), np.int32(x[1])) for x in order]
    if form == 'tuple':
        order = tuple(order)
    return order, lambda o: [[int(x[0]), int(x[1])] for x in o]


def _call_rule(f, n, cc, t):
    return f(n, cc, t)


def _make_closure(f):
    def closure_rule(n, cc, t):
        return f(n, cc, t)
    return closure_rule


def run_impl(c):
    import numpy as np
    import cellpylib as cpl
    script = iter(c['perms'])

    def scripted_shuffle(x):
        try:
            p = next(script)
        except StopIteration:
            return
        if len(p) != len(x):
            return
        tmp = [x[i] for i in p]
        for i, v in enumerate(tmp):
            x[i] = v

    dim = c['dim']
    import gc
    inner = (twins.Logged1 if dim == 1 else twins.Logged2)(twins.make_rule(c['rule'], dim))

    # What AsynchronousRule is given: the logged rule, possibly in another callable shape / with another return type.
    # LIFETIME RULE: the dressed callable is built inside the argument list of the constructor and never bound to a
    # name here (only `inner`, the logger its closure refers to, is kept), and garbage is collected before evolve
    # runs: the AsynchronousRule object must itself keep its wrapped rule alive.
    class Shifted:
        def __init__(self, k):
            self.k = k

        def rule(self, n, cc, t):
            return inner(n, cc, t) + self.k - self.k

    def make_wrapped():
        lt = c.get('lifetime')
        if lt == 'method':
            return Shifted(5).rule
        if lt == 'lambda':
            return lambda n, cc, t: inner(n, cc, t)
        if lt == 'partial':
            import functools
            return functools.partial(_call_rule, inner)
        if lt == 'closure':
            return _make_closure(inner)
        return twins.dress(inner, c.get('dress'))
    async_cls = cpl.AsynchronousRule
    if c.get('subclass') == 'plain':
        class UserAsync(cpl.AsynchronousRule):
            pass
        async_cls = UserAsync
    elif c.get('subclass') == 'super':
        class UserAsyncSuper(cpl.AsynchronousRule):
            def __init__(self, *a, **kw):
                super().__init__(*a, **kw)

            def __call__(self, n, c, t):
                return super().__call__(n, c, t)

            def _should_update(self, *a):
                return super()._should_update(*a)

            def _check_for_end_of_cycle(self, *a):
                return super()._check_for_end_of_cycle(*a)

            def _current_cell_value(self, *a):
                return super()._current_cell_value(*a)
        async_cls = UserAsyncSuper

    def logs():
        if dim == 1:
            return [[int(cc), int(t)] for (_, cc, t) in inner.log]
        return [[int(cc[0]), int(cc[1]), int(t)] for (_, cc, t) in inner.log]

    def ev(rule, hist, T):
        if dim == 1:
            return cpl.evolve(hist, timesteps=T, apply_rule=rule, r=c['r'])
        return cpl.evolve2d(hist, timesteps=T, apply_rule=rule, r=c['r'], neighbourhood=c['nb'])

    def go():
        hist = np.array(c['hist'])
        res = {}
        if c['order'] is None:
            num_cells = len(c['hist'][-1]) if dim == 1 else (len(c['hist'][-1]), len(c['hist'][-1][0]))
            rule = async_cls(apply_rule=make_wrapped(), num_cells=num_cells, randomize_each_cycle=c['rand'])
            order, read = None, None
        else:
            order, read = _caller_order(c, np)
            res['caller_type_before'] = type(order).__name__
            rule = async_cls(apply_rule=make_wrapped(), update_order=order, randomize_each_cycle=c['rand'])
        if c['kind'].startswith('lifetime'):
            gc.collect()    # reference counting already frees an unreferenced owner; a full collection per case is
                            # only worth its (heap-size dependent) cost in the lifetime buckets
        out = ev(rule, hist, c['T'])
        res['rows'] = np.asarray(out).tolist()
        if c.get('calls'):
            res['seq'] = [{'hist': c['hist'], 'T': c['T'], 'rows': res['rows']}]
            for x in c['calls']:
                if c['kind'].startswith('lifetime'):
                    gc.collect()
                h = np.asarray(out) if x['mode'] == 'cont' else np.array(x['hist'])
                out = ev(rule, h, x['T'])
                res['seq'].append({'hist': h.tolist(), 'T': x['T'], 'rows': np.asarray(out).tolist()})
        if c.get('reuse'):
            ru = c['reuse']
            hist2 = np.asarray(out) if ru['mode'] == 'cont' else np.array(ru['hist2'])
            res['hist2'] = hist2.tolist()
            res['rows2'] = np.asarray(ev(rule, hist2, ru['T2'])).tolist()
        res['log'] = logs()
        if order is not None:
            res['caller'] = read(order)
            res['caller_type'] = type(order).__name__
        return res

    saved = np.random.shuffle
    np.random.shuffle = scripted_shuffle
    try:
        r = call_impl(go)
    finally:
        np.random.shuffle = saved
    if r[0] == 'ok':
        return ['ok', r[1]]
    return list(r)


# ---------------------------------------------------------------- Coq terms
def _clog(log):
    return clist(log, lambda e: clist(e, cnat))


def to_coq(c, obs):
    ps = clist(c['perms'], lambda p: clist(p, cnat))
    sp = twins.coq_rule_spec(c['rule'])
    ru = c.get('reuse')
    if c.get('calls'):
        # the histories given to the later calls are what the implementation was actually given (observation)
        if obs[0] == 'ok':
            given = [(x['hist'], x['T']) for x in obs[1]['seq']]
        else:
            given = [(c['hist'], c['T'])] + [(x.get('hist') or c['hist'], x['T']) for x in c['calls']]
        if c['dim'] == 1:
            order = copt(c['order'], lambda o: clist(o, cnat))
            calls = clist(given, lambda g: '(%s, %s)' % (cgrid(g[0]), cnat(g[1])))
            o = cres(obs, lambda v: '(%s, %s)' % (clist([x['rows'] for x in v['seq']], cgrid), _clog(v['log'])))
            return '(C1DS %s %s %s %s %s %s %s)' % (sp, order, cbool(c['rand']), ps, cnat(c['r']), calls, o)
        order = copt(c['order'], lambda o: clist(o, lambda x: '(%s, %s)' % (cnat(x[0]), cnat(x[1]))))
        calls = clist(given, lambda g: '(%s, %s)' % (chist(g[0]), cnat(g[1])))
        o = cres(obs, lambda v: '(%s, %s)' % (clist([x['rows'] for x in v['seq']], chist), _clog(v['log'])))
        return '(C2DS %s %s %s %s %s %s %s %s)' % (sp, order, cbool(c['rand']), ps, cnat(c['r']),
                                                  cbool(c['nb'] == 'von Neumann'), calls, o)
    if c['dim'] == 1:
        order = copt(c['order'], lambda o: clist(o, cnat))
        if ru:
            # 'cont': the second call is given what the first call returned (taken from the observation)
            hist2 = obs[1]['hist2'] if obs[0] == 'ok' else (ru.get('hist2') or c['hist'])
            o = cres(obs, lambda v: '(%s, %s, %s)' % (cgrid(v['rows']), cgrid(v['rows2']), _clog(v['log'])))
            return '(C1DR %s %s %s %s %s %s %s %s %s %s)' % (sp, order, cbool(c['rand']), ps, cnat(c['r']), cgrid(c['hist']),
                                                             cnat(c['T']), cgrid(hist2), cnat(ru['T2']), o)
        o = cres(obs, lambda v: '(%s, %s)' % (cgrid(v['rows']), _clog(v['log'])))
        return '(C1D %s %s %s %s %s %s %s %s)' % (sp, order, cbool(c['rand']), ps, cnat(c['r']), cgrid(c['hist']),
                                                   cnat(c['T']), o)
    order = copt(c['order'], lambda o: clist(o, lambda x: '(%s, %s)' % (cnat(x[0]), cnat(x[1]))))
    vn = cbool(c['nb'] == 'von Neumann')
    if ru:
        hist2 = obs[1]['hist2'] if obs[0] == 'ok' else (ru.get('hist2') or c['hist'])
        o = cres(obs, lambda v: '(%s, %s, %s)' % (chist(v['rows']), chist(v['rows2']), _clog(v['log'])))
        return '(C2DR %s %s %s %s %s %s %s %s %s %s %s)' % (sp, order, cbool(c['rand']), ps, cnat(c['r']), vn, chist(c['hist']),
                                                            cnat(c['T']), chist(hist2), cnat(ru['T2']), o)
    o = cres(obs, lambda v: '(%s, %s)' % (chist(v['rows']), _clog(v['log'])))
    return '(C2D %s %s %s %s %s %s %s %s %s)' % (sp, order, cbool(c['rand']), ps, cnat(c['r']), vn, chist(c['hist']),
                                                  cnat(c['T']), o)


def nontrivial(c, obs):
    if obs[0] != 'ok':
        return False
    rows = obs[1]['rows']
    return any(rows[i] != rows[i + 1] for i in range(len(rows) - 1))


# ---------------------------------------------------------------- the property's own statement on the output
def _diff_cells(dim, a, b):
    if dim == 1:
        return [[i] for i in range(len(a)) if a[i] != b[i]]
    return [[i, j] for i in range(len(a)) for j in range(len(a[0])) if a[i][j] != b[i][j]]


def _frame(c, rows, H, T, log, allowed, offset, tag):
    """rows = history returned by one evolve call that was given H rows and T timesteps; log = the wrapped rule's calls
    made during that call; offset = number of steps the object had already served before this call"""
    dim = c['dim']
    steps = len(rows) - H
    if steps != max(T - 1, 0):
        return '%sexpected %d new rows, got %d' % (tag, max(T - 1, 0), steps)
    if len(log) != steps:
        return '%swrapped rule called %d times in %d steps' % (tag, len(log), steps)
    for t in range(1, steps + 1):
        prev, cur = rows[H - 1 + t - 1], rows[H - 1 + t]
        changed = _diff_cells(dim, prev, cur)
        cell, tt = log[t - 1][:-1], log[t - 1][-1]
        if tt != t:
            return '%sstep %d: wrapped rule called with t = %d' % (tag, t, tt)
        if cell not in allowed:
            return '%sstep %d: wrapped rule applied to an unlisted cell %s' % (tag, t, cell)
        if c['order'] is not None and not c['rand']:
            want = allowed[(offset + t - 1) % len(allowed)]
            if cell != want:
                return '%sstep %d: wrapped rule applied to %s, scheduled cell is %s' % (tag, t, cell, want)
        for ch in changed:
            if ch != cell:
                return '%sstep %d: cell %s changed but the scheduled cell is %s' % (tag, t, ch, cell)
    return None


def oracle(c, obs):
    if obs[0] != 'ok':
        return None
    v = obs[1]
    dim = c['dim']
    if c['order'] is None:
        if dim == 1:
            allowed = [[i] for i in range(len(c['hist'][-1]))]
        else:
            allowed = [[i, j] for i in range(len(c['hist'][-1])) for j in range(len(c['hist'][-1][0]))]
    else:
        allowed = [[x] if dim == 1 else list(x) for x in c['order']]
        # the caller's sequence is not ours to reorder (it is shuffled in place only inside the object)
        if v.get('caller') != [x if dim == 1 else list(x) for x in c['order']]:
            return 'the caller\'s update_order was %s and is %s after the run' % (c['order'], v.get('caller'))
        if v.get('caller_type') != v.get('caller_type_before'):
            return 'the caller\'s update_order changed its type'
    if c.get('calls'):
        off = 0
        for i, x in enumerate(v['seq']):
            n = max(x['T'] - 1, 0)
            msg = _frame(c, x['rows'], len(x['hist']), x['T'], v['log'][off:off + n], allowed, off, 'call %d: ' % (i + 1))
            if msg:
                return msg
            off += n
        if len(v['log']) != off:
            return 'wrapped rule called %d times in %d steps' % (len(v['log']), off)
        return None
    n1 = max(c['T'] - 1, 0)
    msg = _frame(c, v['rows'], len(c['hist']), c['T'], v['log'][:n1], allowed, 0, '')
    if msg:
        return msg
    if c.get('reuse'):
        msg = _frame(c, v['rows2'], len(v['hist2']), c['reuse']['T2'], v['log'][n1:], allowed, n1, 'second call: ')
        if msg:
            return msg
    elif len(v['log']) != n1:
        return 'wrapped rule called %d times in %d steps' % (len(v['log']), n1)
    return None


def shrink(c):
    if c.get('calls'):
        if len(c['calls']) > 1:
            yield dict(c, calls=c['calls'][:-1])
        last = c['calls'][-1]
        if last['T'] > 2:
            yield dict(c, calls=c['calls'][:-1] + [dict(last, T=last['T'] - 1)])
        if c['T'] > 2:
            yield dict(c, T=c['T'] - 1)
        return
    if c.get('lifetime'):
        if c['T'] > 2:
            yield dict(c, T=2)
        return
    if c.get('dress') or c.get('subclass'):
        yield dict(c, dress=None, subclass=None)
    if c.get('reuse'):
        if c['reuse']['T2'] > 2:
            yield dict(c, reuse=dict(c['reuse'], T2=c['reuse']['T2'] - 1))
        if c['T'] > 2:
            yield dict(c, T=c['T'] - 1)
        return
    if c['T'] > 2:
        yield dict(c, T=c['T'] - 1)
        yield dict(c, T=2)
    if c['rule']['fam'] != 'script':
        yield dict(c, rule={'fam': 'script', 'vs': [1 + (i % 3) for i in range(c['T'] + 1)]})
    if len(c['hist']) > 1:
        yield dict(c, hist=c['hist'][-1:])
    if c['order'] is not None and len(c['order']) > 1 and not c['rand'] and c.get('form') != 'range':
        yield dict(c, order=c['order'][:-1])
        yield dict(c, order=c['order'][1:])
    if c['dim'] == 1 and c['r'] > 1:
        yield dict(c, r=1, rule={'fam': 'script', 'vs': [1 + (i % 3) for i in range(c['T'] + 1)]})


# ------------------------------------------------------------------ source tie (appended; harness/translate.py)
# pre(): regenerate coq/gen/GenFuns.v from the Python source of the tree under test and, if it changed, re-prove
# GenProps/GenFunsEquivC12.v, GenProps/C12Src.v and Properties/C12.v (theorem C12_source_tie) by hand.
# extra_checks(): report a failed translation / equivalence proof (theorem names, translator or coqc error).
from harness import translate as _translate
_prev_pre = globals().get('pre')
_prev_extra_checks = globals().get('extra_checks')
TRUSTED = list(globals().get('TRUSTED', [])) + [_translate.TRUSTED_NOTE]
NOTES = list(globals().get('NOTES', [])) + [
    'coq/gen/GenFuns.v is regenerated from the Python source at the start of every run; theorem C12_source_tie proves '
    'the regenerated definitions equal to the hand-written model for all inputs']


def pre(ctx):
    if _prev_pre is not None:
        _prev_pre(ctx)
    _translate.pre_hook(ctx, 'C12')


def extra_checks(ctx):
    out = list(_prev_extra_checks(ctx)) if _prev_extra_checks is not None else []
    return out + _translate.extra_hook(ctx, 'C12')
