"""C12 — AsynchronousRule updates exactly the scheduled cell each step: correspondence generators and runners.

The REAL cpl.evolve / cpl.evolve2d are run with cpl.AsynchronousRule(Logged(inner), update_order=... | num_cells=...,
randomize_each_cycle=...); np.random.shuffle is replaced (in this process, restored in finally) by a function that
permutes in place according to the next scripted permutation, the same script the Coq model's oracle reads.
Observables compared in Coq: the returned arrays and the (c, t) log of the wrapped rule."""
import itertools

from harness.driver import call_impl, cz, cnat, cbool, czlist, cgrid, chist, clist, copt, cres
from harness import twins

ID = 'C12'
COQ_IMPORTS = ('From CPL Require Import Model.Base Model.Rules Model.Engine Model.Evolve1D Model.Evolve2D Model.Async '
               'Corr.C12.\nOpen Scope Z_scope.')
NONTRIVIAL_RULE = ('1D: every duplicate-free non-empty order over N <= 4 (all arrangements of all subsets), plain and '
                   'randomized with scripted shuffles; random orders N <= 12 (N <= 16 thorough); the num_cells constructor; '
                   '2D: shapes <= 3x3 with every subset of <= 3 coordinates (every arrangement in the thorough tier), random '
                   'orders on shapes <= 4x4, Moore and von Neumann; wrapped rules Script and Lin; T up to 3L+2. '
                   'non-trivial = the run returned arrays and at least one step rewrote a cell with a different value; '
                   'distinct = distinct case dicts')
EXHAUSTIVE = {'quick': False, 'thorough': False}
NOTES = ['np.random.shuffle is patched in the harness process to a scripted permutation (restored in finally)',
         'orders over N <= 4 are enumerated completely in both tiers; the sampled part is N > 4 and the 2D random bucket']
ASSUMPTIONS = ['update orders are duplicate-free lists of cells of the automaton (ints in 1D, coordinate tuples in 2D); '
               'orders with duplicates or foreign cells are outside the property and are not generated',
               'int64 automata and wrapped-rule results representable in the dtype',
               'the exception class for an empty update_order is not compared (any exception on both sides agrees)']
TRUSTED = ['the patched np.random.shuffle applies the scripted index permutation p as x <- [x[p[0]], x[p[1]], ...]; '
           'the Coq oracle script_sh does the same']


# ---------------------------------------------------------------- generators
def _rule(rng, dim, r, L, T, fam=None):
    fam = fam or rng.choice(['script', 'lin', 'lin', 'linct'])
    if fam == 'script':
        return {'fam': 'script', 'vs': [rng.randint(0, 4) for _ in range(T + 1)]}
    n = (2 * r + 1) if dim == 1 else (2 * r + 1) ** 2
    if rng.random() < 0.5:
        ws = [1] * n                      # NKS-like totalistic parity (rule 150 in 1D with m = 2)
    else:
        ws = [rng.randint(0, 3) for _ in range(n)]
    return {'fam': fam, 'ws': ws, 'm': rng.choice([2, 2, 3, 5])}


def _perms(rng, L, count):
    out = []
    for _ in range(count):
        p = list(range(L))
        rng.shuffle(p)
        out.append(p)
    return out


def _row(rng, N, k=2):
    return [rng.randint(0, k - 1) for _ in range(N)]


def _grid(rng, R, C, k=2):
    return [[rng.randint(0, k - 1) for _ in range(C)] for _ in range(R)]


def _case1(rng, kind, N, order, rand, r=None, T=None, hist_len=1, fam=None, form='list'):
    L = len(order) if order is not None else N
    if r is None:
        r = rng.randint(1, min(N, 3))
    if T is None:
        T = 3 * L + 2
    steps = max(T - 1, 0)
    nper = (1 if order is None else 0) + (steps if rand else 0)
    return {'kind': kind, 'dim': 1, 'rule': _rule(rng, 1, r, L, steps, fam), 'order': order, 'rand': rand,
            'perms': _perms(rng, L, nper), 'r': r, 'hist': [_row(rng, N, rng.choice([2, 2, 3])) for _ in range(hist_len)],
            'T': T, 'form': form}


def _case2(rng, kind, R, C, order, rand, r=None, T=None, hist_len=1, fam=None, nb=None):
    L = len(order) if order is not None else R * C
    if r is None:
        r = rng.randint(1, max(1, min(R, C, 2)))
    if T is None:
        T = 3 * L + 2
    steps = max(T - 1, 0)
    nper = (1 if order is None else 0) + (steps if rand else 0)
    return {'kind': kind, 'dim': 2, 'rule': _rule(rng, 2, r, L, steps, fam), 'order': order, 'rand': rand,
            'perms': _perms(rng, L, nper), 'r': r, 'nb': nb or rng.choice(['Moore', 'von Neumann']),
            'hist': [_grid(rng, R, C) for _ in range(hist_len)], 'T': T}


def generate(rng, tier):
    thorough = tier == 'thorough'
    # ---- 1D, complete: every arrangement of every non-empty subset of N <= 4 cells
    for N in range(1, 5):
        for k in range(1, N + 1):
            for order in itertools.permutations(range(N), k):
                order = list(order)
                which = 'full' if k == N else 'subset'
                for fam in ('script', 'lin'):
                    yield _case1(rng, '1d/exhaustive/%s' % which, N, order, False, fam=fam)
                    yield _case1(rng, '1d/exhaustive/%s/randomized' % which, N, order, True, fam=fam)
                if thorough:
                    for T in (1, 2, len(order) + 1, 2 * len(order) + 1):
                        yield _case1(rng, '1d/exhaustive/%s/T' % which, N, order, rng.random() < 0.3, T=T)
    # ---- 1D, random larger
    nmax = 16 if thorough else 12
    for _ in range(4000 if thorough else 420):
        N = rng.randint(5, nmax)
        pick = rng.random()
        if pick < 0.35:
            k = N
        elif pick < 0.45:
            k = 1
        else:
            k = rng.randint(1, N)
        order = rng.sample(range(N), k)
        T = rng.choice([3 * k + 2, 3 * k + 2, 2 * k + 1, k + 1, rng.randint(1, 3 * k + 2)])
        if k > 8:
            T = rng.choice([k + 2, 2 * k + 1, rng.randint(1, 3 * k + 2)])
        rand = rng.random() < 0.4
        # a tuple cannot be shuffled in place (np.random.shuffle raises): tuples only without randomize_each_cycle
        form = rng.choice(['list', 'list', 'array'] if rand else ['list', 'list', 'tuple', 'array'])
        yield _case1(rng, '1d/random/%s' % ('full' if k == N else 'subset'), N, order, rand, T=T,
                     hist_len=rng.choice([1, 1, 1, 2, 3]), form=form)
    # ---- 1D, num_cells constructor (order = shuffled arange)
    for N in range(1, 9 if not thorough else 13):
        for rand in (False, True):
            for _ in range(4 if not thorough else 12):
                yield _case1(rng, '1d/num_cells', N, None, rand, T=rng.choice([3 * N + 2, N + 1, 2 * N + 1]))
    # ---- 1D, empty order: rejected at the first call
    for N in (1, 3):
        for T in (1, 2, 4):
            c = _case1(rng, '1d/empty_order', N, [0], False, T=T)
            c['order'] = []
            yield c
    # ---- 2D, shapes <= 3x3, every subset of <= 3 coordinates
    for R in range(1, 4):
        for C in range(1, 4):
            cells = [(i, j) for i in range(R) for j in range(C)]
            for k in range(1, min(3, len(cells)) + 1):
                if thorough:
                    orders = itertools.permutations(cells, k)
                else:
                    orders = []
                    for sub in itertools.combinations(cells, k):
                        sub = list(sub)
                        rng.shuffle(sub)
                        orders.append(sub)
                for order in orders:
                    order = [list(x) for x in order]
                    which = 'full' if k == len(cells) else 'subset'
                    yield _case2(rng, '2d/exhaustive/%s' % which, R, C, order, False, r=1)
                    if thorough or rng.random() < 0.3:
                        yield _case2(rng, '2d/exhaustive/%s/randomized' % which, R, C, order, True, r=1)
    # ---- 2D, random <= 4x4 (full permutations included)
    for _ in range(1500 if thorough else 200):
        R, C = rng.randint(1, 4), rng.randint(1, 4)
        cells = [[i, j] for i in range(R) for j in range(C)]
        k = len(cells) if rng.random() < 0.35 else rng.randint(1, len(cells))
        order = rng.sample(cells, k)
        T = rng.choice([k + 2, 2 * k + 1, 3 * k + 2 if k <= 6 else k + 3, rng.randint(1, k + 3)])
        yield _case2(rng, '2d/random/%s' % ('full' if k == len(cells) else 'subset'), R, C, order, rng.random() < 0.4,
                     T=T, hist_len=rng.choice([1, 1, 2]))
    # ---- 2D, num_cells = (R, C)
    for R in range(1, 4 if not thorough else 5):
        for C in range(1, 4 if not thorough else 5):
            for rand in (False, True):
                for _ in range(2 if not thorough else 5):
                    yield _case2(rng, '2d/num_cells', R, C, None, rand, T=rng.choice([R * C + 2, 2 * R * C + 1]))


# ---------------------------------------------------------------- running the implementation
def run_impl(c):
    import numpy as np
    import cellpylib as cpl
    script = iter(c['perms'])

    def scripted_shuffle(x):
        try:
            p = next(script)
        except StopIteration:
            return
        if len(p) != len(x):
            return
        tmp = [x[i] for i in p]
        for i, v in enumerate(tmp):
            x[i] = v

    dim = c['dim']
    inner = (twins.Logged1 if dim == 1 else twins.Logged2)(twins.make_rule(c['rule'], dim))

    def go():
        hist = np.array(c['hist'])
        if c['order'] is None:
            num_cells = len(c['hist'][-1]) if dim == 1 else (len(c['hist'][-1]), len(c['hist'][-1][0]))
            rule = cpl.AsynchronousRule(apply_rule=inner, num_cells=num_cells, randomize_each_cycle=c['rand'])
        else:
            if dim == 1:
                order = list(c['order'])
                if c.get('form') == 'tuple':
                    order = tuple(order)
                elif c.get('form') == 'array' and order:
                    order = np.array(order)
            else:
                order = [tuple(x) for x in c['order']]
            rule = cpl.AsynchronousRule(apply_rule=inner, update_order=order, randomize_each_cycle=c['rand'])
        if dim == 1:
            out = cpl.evolve(hist, timesteps=c['T'], apply_rule=rule, r=c['r'])
            return np.asarray(out).tolist(), [[int(cc), int(t)] for (_, cc, t) in inner.log]
        out = cpl.evolve2d(hist, timesteps=c['T'], apply_rule=rule, r=c['r'], neighbourhood=c['nb'])
        return np.asarray(out).tolist(), [[int(cc[0]), int(cc[1]), int(t)] for (_, cc, t) in inner.log]

    saved = np.random.shuffle
    np.random.shuffle = scripted_shuffle
    try:
        r = call_impl(go)
    finally:
        np.random.shuffle = saved
    if r[0] == 'ok':
        return ['ok', [r[1][0], r[1][1]]]
    return list(r)


# ---------------------------------------------------------------- Coq terms
def _clog(log):
    return clist(log, lambda e: clist(e, cnat))


def to_coq(c, obs):
    ps = clist(c['perms'], lambda p: clist(p, cnat))
    sp = twins.coq_rule_spec(c['rule'])
    if c['dim'] == 1:
        order = copt(c['order'], lambda o: clist(o, cnat))
        o = cres(obs, lambda v: '(%s, %s)' % (cgrid(v[0]), _clog(v[1])))
        return '(C1D %s %s %s %s %s %s %s %s)' % (sp, order, cbool(c['rand']), ps, cnat(c['r']), cgrid(c['hist']),
                                                   cnat(c['T']), o)
    order = copt(c['order'], lambda o: clist(o, lambda x: '(%s, %s)' % (cnat(x[0]), cnat(x[1]))))
    o = cres(obs, lambda v: '(%s, %s)' % (chist(v[0]), _clog(v[1])))
    return '(C2D %s %s %s %s %s %s %s %s %s)' % (sp, order, cbool(c['rand']), ps, cnat(c['r']),
                                                  cbool(c['nb'] == 'von Neumann'), chist(c['hist']), cnat(c['T']), o)


def nontrivial(c, obs):
    if obs[0] != 'ok':
        return False
    rows = obs[1][0]
    return any(rows[i] != rows[i + 1] for i in range(len(rows) - 1))


# ---------------------------------------------------------------- the property's own statement on the output
def _diff_cells(dim, a, b):
    if dim == 1:
        return [[i] for i in range(len(a)) if a[i] != b[i]]
    return [[i, j] for i in range(len(a)) for j in range(len(a[0])) if a[i][j] != b[i][j]]


def oracle(c, obs):
    if obs[0] != 'ok':
        return None
    rows, log = obs[1]
    H = len(c['hist'])
    steps = len(rows) - H
    dim = c['dim']
    if steps != max(c['T'] - 1, 0):
        return 'expected %d new rows, got %d' % (max(c['T'] - 1, 0), steps)
    if len(log) != steps:
        return 'wrapped rule called %d times in %d steps' % (len(log), steps)
    if c['order'] is None:
        if dim == 1:
            allowed = [[i] for i in range(len(c['hist'][-1]))]
        else:
            allowed = [[i, j] for i in range(len(c['hist'][-1])) for j in range(len(c['hist'][-1][0]))]
    else:
        allowed = [[x] if dim == 1 else list(x) for x in c['order']]
    for t in range(1, steps + 1):
        prev, cur = rows[H - 1 + t - 1], rows[H - 1 + t]
        changed = _diff_cells(dim, prev, cur)
        cell, tt = log[t - 1][:-1], log[t - 1][-1]
        if tt != t:
            return 'step %d: wrapped rule called with t = %d' % (t, tt)
        if cell not in allowed:
            return 'step %d: wrapped rule applied to an unlisted cell %s' % (t, cell)
        if c['order'] is not None and not c['rand']:
            want = allowed[(t - 1) % len(allowed)]
            if cell != want:
                return 'step %d: wrapped rule applied to %s, scheduled cell is %s' % (t, cell, want)
        for ch in changed:
            if ch != cell:
                return 'step %d: cell %s changed but the scheduled cell is %s' % (t, ch, cell)
    return None


def shrink(c):
    if c['T'] > 2:
        yield dict(c, T=c['T'] - 1)
        yield dict(c, T=2)
    if c['rule']['fam'] != 'script':
        yield dict(c, rule={'fam': 'script', 'vs': [1 + (i % 3) for i in range(c['T'] + 1)]})
    if len(c['hist']) > 1:
        yield dict(c, hist=c['hist'][-1:])
    if c['order'] is not None and len(c['order']) > 1 and not c['rand']:
        yield dict(c, order=c['order'][:-1])
        yield dict(c, order=c['order'][1:])
    if c['dim'] == 1 and c['r'] > 1:
        yield dict(c, r=1, rule={'fam': 'script', 'vs': [1 + (i % 3) for i in range(c['T'] + 1)]})
