"""C14 — Sandpile is the BTW toppling rule; grains are conserved: correspondence generators and runners.

One case = Sandpile(rows, cols, closed) + add_grain schedule + evolve2d(np.array([init], dtype), T, rule, r=1,
neighbourhood='von Neumann' | 'Moore', memoize=...).  Observable: the returned array.
op = 'reuse': the SAME Sandpile object drives two consecutive evolve2d calls; both arrays are observed."""
import itertools
from harness.driver import call_impl, cz, cnat, cbool, clist, cgrid, chist, cres

ID = 'C14'
COQ_IMPORTS = ('From CPL Require Import Model.Base Model.Rules Model.Evolve2D Model.Sandpile Corr.C14.\n'
               'Open Scope Z_scope.')
NONTRIVIAL_RULE = ('non-trivial = the call returned an array and at least one cell changed during the evolution '
                   '(a toppling or a grain addition happened); distinct = distinct case dicts')
EXHAUSTIVE = {'quick': False, 'thorough': False}
NOTES = ['grains/twodigit/*: grids 13x13..24x15 with scheduled cells whose decimal digits concatenate like those of '
         'another cell ((1,11)/(11,1), (1,12)/(11,2), (2,11)/(21,1), (12,1)/(1,21), ...), compared with the model in Coq',
         'all 36 shapes 1x1..6x6 in both boundary modes; 1x1, 1x2, 2x1 grids swept over {0,3,4,5,9}^cells',
         'closed-mode streams with NON-zero boundary cells, additions on a toppling configuration, additions on '
         'closed boundary cells, negative counts and constructor sizes different from the grid are outside the '
         'premise of the property text and are compared against the model only (the model covers them)',
         'memoize=True / "recursive" only with the open boundary and no additions (the rule is then pure)',
         'both neighbourhood types (the rule reads the same five entries); grid dtypes int64, uint8, uint16, uint32, '
         'uint64, int8, int32, float64 with counts representable in the dtype',
         'reuse/*: one Sandpile object with a schedule drives two consecutive evolve2d calls; the model rule object '
         'is stateless, so the second call is compared with the full schedule']
ASSUMPTIONS = ['the automaton array has a dtype in which every count of the run is representable: store = identity',
               'add_grain is given a tuple (row, col) of non-negative ints (a list never equals the tuple c)',
               'the documented call: r=1; the rule reads n[0][1], n[1][0], n[1][1], n[1][2], n[2][1] only']
TRUSTED = ['numpy MaskedArray indexing of an unmasked entry returns its value (checked: C14_read_entries_unmasked '
           'states the five entries are unmasked in the model mask; C02 ties that mask to the real one)']

DTYPES = ['uint8', 'uint16', 'uint32', 'uint64', 'int8', 'int32', 'float64']


# ---------------------------------------------------------------- generators
def _grid(rng, R, C, lo, hi):
    return [[rng.randint(lo, hi) for _ in range(C)] for _ in range(R)]


def _is_boundary(rows, cols, r, c):
    return r == 0 or r == rows - 1 or c == 0 or c == cols - 1


def _zero_boundary(g):
    R, C = len(g), len(g[0])
    return [[0 if _is_boundary(R, C, i, j) else g[i][j] for j in range(C)] for i in range(R)]


def _case(kind, g, closed, T, adds=(), memo='False', rows=None, cols=None, nbhd='von Neumann', dtype='int64'):
    R, C = len(g), len(g[0])
    return {'kind': kind, 'op': 'evolve', 'rows': R if rows is None else rows, 'cols': C if cols is None else cols,
            'closed': bool(closed), 'adds': [[int(a), int(b), int(t)] for a, b, t in adds], 'init': g, 'T': int(T),
            'memo': memo, 'nbhd': nbhd, 'dtype': dtype}


def _shape_kind(R, C):
    if R == 1 and C == 1:
        return '1x1'
    if R == 1 or C == 1:
        return '1xN' if R == 1 else 'Nx1'
    if R == 2 or C == 2:
        return '2xN' if R == 2 else 'Nx2'
    return 'RxC'


def _rand_adds(rng, R, C, T, k, interior_only, closed, tmax=None):
    cells = [(i, j) for i in range(R) for j in range(C)
             if not (interior_only and closed and _is_boundary(R, C, i, j))]
    out = []
    for _ in range(k):
        if not cells:
            break
        i, j = rng.choice(cells)
        out.append((i, j, rng.randint(1, max(1, (T - 1) if tmax is None else tmax))))
    return out


def generate(rng, tier):
    reps = 2 if tier == 'quick' else 12
    shapes = [(R, C) for R in range(1, 7) for C in range(1, 7)]
    # exhaustive tiny tori: every neighbour position is the cell itself or the single other cell
    vals = [0, 3, 4, 5, 9]
    for (R, C) in [(1, 1), (1, 2), (2, 1)]:
        for cfg in itertools.product(vals, repeat=R * C):
            g = [list(cfg[i * C:(i + 1) * C]) for i in range(R)]
            yield _case('tiny/open', g, False, 4)
            yield _case('tiny/closed', g, True, 3)
    n = 0
    for _ in range(reps):
        for (R, C) in shapes:
            sk = _shape_kind(R, C)
            n += 1
            # open torus, no additions
            for _ in range(3):
                yield _case('open/%s' % sk, _grid(rng, R, C, 0, 12), False, rng.randint(2, 8))
            g = [[0] * C for _ in range(R)]
            g[rng.randrange(R)][rng.randrange(C)] = rng.randint(4, 12)
            yield _case('open/single_pile/%s' % sk, g, False, 8)
            yield _case('open/large/%s' % sk, _grid(rng, R, C, 0, 1000), False, rng.randint(2, 5),
                        dtype=rng.choice(['int64', 'uint16', 'int32', 'uint64', 'float64']))
            yield _case('open/T1/%s' % sk, _grid(rng, R, C, 0, 12), False, 1)
            # negative counts (the theorems are over Z; never topple, never count as toppling): model-compared
            yield _case('open/negative/%s' % sk, _grid(rng, R, C, -6, 9), False, rng.randint(2, 5),
                        dtype=rng.choice(['int64', 'int8', 'int32', 'float64']))
            # closed boundary, boundary cells 0 as documented
            for _ in range(3):
                yield _case('closed/%s' % sk, _zero_boundary(_grid(rng, R, C, 0, 12)), True, rng.randint(2, 8))
            # closed boundary, boundary cells NOT zero: model-compared only
            for _ in range(2):
                yield _case('closed/nonzero_boundary/%s' % sk, _grid(rng, R, C, 0, 12), True, rng.randint(2, 6))
            # stable configurations: fixed points
            yield _case('stable/open/%s' % sk, _grid(rng, R, C, 0, 3), False, rng.randint(2, 8))
            yield _case('stable/closed/%s' % sk, _zero_boundary(_grid(rng, R, C, 0, 3)), True, rng.randint(2, 8))
            # additions on stable configurations (the property), non-boundary cells when closed
            for closed in (False, True):
                for k in (1, 2, 3):
                    T = rng.randint(2, 8)
                    g = _grid(rng, R, C, 0, 3)
                    if closed:
                        g = _zero_boundary(g)
                    adds = _rand_adds(rng, R, C, T, k, True, closed)
                    yield _case('add/stable/%s/%s' % ('closed' if closed else 'open', sk), g, closed, T, adds)
            # two or three additions at the SAME timestep on DIFFERENT cells (a schedule keyed by timestep
            # alone would lose all but one): stable configuration (the property) and toppling one (model)
            for closed in (False, True):
                cells = [(i, j) for i in range(R) for j in range(C)
                         if not (closed and _is_boundary(R, C, i, j))]
                if len(cells) >= 2:
                    for stable_cfg in (True, False):
                        T = rng.randint(2, 6)
                        ts = rng.randint(1, T - 1)
                        pick = rng.sample(cells, min(len(cells), rng.choice([2, 3])))
                        g = _grid(rng, R, C, 0, 3 if stable_cfg else 12)
                        if closed:
                            g = _zero_boundary(g)
                        yield _case('add/same_step/%s/%s/%s' % ('stable' if stable_cfg else 'toppling',
                                                                'closed' if closed else 'open', sk),
                                    g, closed, T, [(i, j, ts) for (i, j) in pick])
            # every cell far above the threshold (>= 8: `centre % K` instead of `centre - K` is wrong here)
            yield _case('open/high/%s' % sk, _grid(rng, R, C, 8, 15), False, rng.randint(2, 5))
            yield _case('closed/high/%s' % sk, _zero_boundary(_grid(rng, R, C, 8, 15)), True, rng.randint(2, 5))
            # additions that never fire (t = 0, t >= T), duplicates, cells outside the grid
            T = rng.randint(2, 6)
            i, j = rng.randrange(R), rng.randrange(C)
            yield _case('add/never_or_twice/%s' % sk, _grid(rng, R, C, 0, 3), False, T,
                        [(i, j, 0), (i, j, T), (R, j, 1), (i, C, 1), (i, j, 1), (i, j, 1)])
            # additions on a toppling configuration and on closed boundary cells: model-compared
            for closed in (False, True):
                T = rng.randint(2, 8)
                g = _grid(rng, R, C, 0, 12)
                if closed:
                    g = _zero_boundary(g)
                yield _case('add/toppling/%s/%s' % ('closed' if closed else 'open', sk), g, closed, T,
                            _rand_adds(rng, R, C, T, rng.randint(1, 3), False, closed))
            yield _case('add/on_closed_boundary/%s' % sk, _zero_boundary(_grid(rng, R, C, 0, 5)), True, 4,
                        [(0, rng.randrange(C), 1), (R - 1, rng.randrange(C), 2), (rng.randrange(R), 0, 1)])
            # memoised engines: open boundary, no additions => the rule is pure (both neighbourhood types)
            for memo in ('True', 'recursive'):
                yield _case('memo_%s/%s' % (memo, sk), _grid(rng, R, C, 0, 12), False, rng.randint(2, 6), memo=memo,
                            nbhd=rng.choice(['von Neumann', 'Moore']))
            # constructor sizes different from the grid (closed mode reads them): model-compared
            yield _case('ctor_mismatch/%s' % sk, _grid(rng, R, C, 0, 8), True, 3,
                        rows=rng.choice([0, 1, R + 1, max(1, R - 1)]), cols=rng.choice([0, 1, C + 1, max(1, C - 1)]))
            # neighbourhood='Moore' (evolve2d's default): the rule reads the same five entries of the unmasked block
            yield _case('moore/open/%s' % sk, _grid(rng, R, C, 0, 12), False, rng.randint(2, 6), nbhd='Moore')
            yield _case('moore/closed/%s' % sk, _zero_boundary(_grid(rng, R, C, 0, 12)), True, rng.randint(2, 6),
                        nbhd='Moore')
            closed = rng.random() < 0.5
            T = rng.randint(2, 6)
            g = _grid(rng, R, C, 0, 3)
            yield _case('moore/add_stable/%s' % sk, _zero_boundary(g) if closed else g, closed, T,
                        _rand_adds(rng, R, C, T, rng.randint(1, 3), True, closed), nbhd='Moore')
            # grid dtypes: unsigned (a subtraction evaluated before the threshold test would wrap), narrow, float.
            # counts <= 12 (+4 incoming) are representable in all of them.  Per dtype one of three streams.
            for k, dt in enumerate(DTYPES):
                which = (k + n) % 3
                nb = 'Moore' if (k + n) % 5 == 0 else 'von Neumann'
                if which == 0:
                    yield _case('dtype/%s/open/%s' % (dt, sk), _grid(rng, R, C, 0, 12), False, rng.randint(2, 5),
                                dtype=dt, nbhd=nb)
                elif which == 1:
                    yield _case('dtype/%s/closed/%s' % (dt, sk), _zero_boundary(_grid(rng, R, C, 0, 12)), True,
                                rng.randint(2, 5), dtype=dt, nbhd=nb)
                else:
                    closed = rng.random() < 0.5
                    T = rng.randint(2, 5)
                    g = _grid(rng, R, C, 0, 3)
                    yield _case('dtype/%s/add_stable/%s' % (dt, sk), _zero_boundary(g) if closed else g, closed, T,
                                _rand_adds(rng, R, C, T, rng.randint(1, 2), True, closed), dtype=dt, nbhd=nb)
            # one Sandpile object, one schedule, two consecutive evolve2d calls (a rule object that consumes its
            # schedule would lose, in the second call, the grains scheduled for steps the first call has passed)
            for closed in (False, True):
                T1 = rng.randint(3, 6)
                T2 = rng.randint(3, 6)
                hi = 3 if rng.random() < 0.6 else 12
                g1, g2 = _grid(rng, R, C, 0, hi), _grid(rng, R, C, 0, hi)
                if closed:
                    g1, g2 = _zero_boundary(g1), _zero_boundary(g2)
                adds = _rand_adds(rng, R, C, T1, rng.randint(2, 3), True, closed, tmax=min(T1 - 2, T2 - 1))
                c = _case('reuse/%s/%s/%s' % ('stable' if hi == 3 else 'toppling', 'closed' if closed else 'open', sk),
                          g1, closed, T1, adds, nbhd=rng.choice(['von Neumann', 'Moore']),
                          dtype=rng.choice(['int64', 'uint8']))
                c.update(op='reuse', init2=g2 if rng.random() < 0.7 else g1, T2=T2)
                yield c
    # grids with TWO-DIGIT coordinates (13x13 .. 24x15, square and not): a schedule keyed by a textual form of the
    # cell without a separator confuses (1, 11) with (11, 1), (1, 12) with (11, 2), (2, 11) with (21, 1), ...
    # Stable sparse heights (the property's premise), T = 2..3, several grains in the same and in different steps.
    for c in _twodigit(rng, 1 if tier == 'quick' else 4):
        yield c


_COLLIDING = [((1, 11), (11, 1)), ((1, 12), (11, 2)), ((2, 11), (21, 1)), ((12, 1), (1, 21)), ((1, 10), (11, 0)),
              ((2, 13), (21, 3)), ((12, 3), (1, 23)), ((11, 11), (1, 111)), ((1, 13), (11, 3)), ((12, 2), (1, 22)), ((2, 12), (21, 2))]
_BIG_SHAPES = [(13, 13), (13, 14), (14, 13), (13, 24), (24, 13), (24, 15), (15, 24), (23, 23)]


def _sparse(rng, R, C, closed):
    g = [[rng.choice([0, 0, 0, 1, 2, 3]) for _ in range(C)] for _ in range(R)]
    return _zero_boundary(g) if closed else g


def _twodigit(rng, reps):
    for _ in range(reps):
        for (R, C) in _BIG_SHAPES:
            shp = '%dx%d' % (R, C)
            for closed in (False, True):
                mode = 'closed' if closed else 'open'

                def ok(cell):
                    return cell[0] < R and cell[1] < C and not (closed and _is_boundary(R, C, cell[0], cell[1]))
                # every scheduled cell usable on this grid, from either side of a colliding pair; prefer the pairs
                # whose partner is a cell of the grid that is not held at 0
                sides = [(a, b) for (x, y) in _COLLIDING for (a, b) in ((x, y), (y, x)) if ok(a)]
                live = [(a, b) for (a, b) in sides if ok(b)] or sides
                rng.shuffle(live)
                for (a, b) in live[:3]:
                    T = rng.randint(2, 3)
                    g = _sparse(rng, R, C, closed)
                    g[a[0]][a[1]] = rng.randint(0, 2)
                    yield _case('grains/twodigit/collide/%s/%s' % (mode, shp), g, closed, T,
                                [(a[0], a[1], rng.randint(1, T - 1))])
                # several grains: two colliding-side cells in the SAME step, one random two-digit cell in another
                cells2 = [(i, j) for i in range(R) for j in range(C) if (i >= 10 or j >= 10) and ok((i, j))]
                picks = [a for (a, _) in live[:2]] + [rng.choice(cells2)]
                adds = [(picks[0][0], picks[0][1], 1), (picks[-1][0], picks[-1][1], 2)]
                if len(picks) > 2 and picks[1] != picks[0]:
                    adds.insert(1, (picks[1][0], picks[1][1], 1))
                yield _case('grains/twodigit/several/%s/%s' % (mode, shp), _sparse(rng, R, C, closed), closed, 3, adds,
                            nbhd=rng.choice(['von Neumann', 'Moore']))
                # random two-digit cells, one to three grains, random steps
                T = rng.randint(2, 3)
                k = rng.randint(1, 3)
                yield _case('grains/twodigit/random/%s/%s' % (mode, shp), _sparse(rng, R, C, closed), closed, T,
                            [rng.choice(cells2) + (rng.randint(1, T - 1),) for _ in range(k)])


# ---------------------------------------------------------------- the implementation
def run_impl(c):
    import numpy as np
    import cellpylib as cpl
    memo = {'False': False, 'True': True, 'recursive': 'recursive'}[c['memo']]
    box = {}

    def rule():
        if 's' not in box:
            s = cpl.Sandpile(c['rows'], c['cols'], is_closed_boundary=c['closed'])
            for (i, j, t) in c['adds']:
                s.add_grain((i, j), t)
            box['s'] = s
        return box['s']

    def go(init, T):
        def f():
            ca = np.array([init], dtype=np.dtype(c['dtype']))
            out = cpl.evolve2d(ca, T, rule(), r=1, neighbourhood=c['nbhd'], memoize=memo)
            return [[[int(x) for x in row] for row in g] for g in out.tolist()]
        return f
    if c['op'] == 'reuse':
        o1 = list(call_impl(go(c['init'], c['T'])))
        o2 = list(call_impl(go(c['init2'], c['T2'])))
        return ['reuse', o1, o2]
    return list(call_impl(go(c['init'], c['T'])))


def to_coq(c, obs):
    adds = clist(c['adds'], lambda a: '((%s, %s), %s)' % (cnat(a[0]), cnat(a[1]), cnat(a[2])))
    ty = 'Moore' if c['nbhd'] == 'Moore' else 'VonNeumann'
    if c['op'] == 'reuse':
        return '(CReuse %s %s %s %s %s %s %s %s %s %s %s)' % (
            cnat(c['rows']), cnat(c['cols']), cbool(c['closed']), adds, ty,
            cgrid(c['init']), cnat(c['T']), cres(obs[1], chist), cgrid(c['init2']), cnat(c['T2']), cres(obs[2], chist))
    return '(CEvolve %s %s %s %s %s %s %s %s)' % (cnat(c['rows']), cnat(c['cols']), cbool(c['closed']), adds, ty,
                                                 cgrid(c['init']), cnat(c['T']), cres(obs, chist))


def _runs(c, obs):
    if c['op'] == 'reuse':
        return [(c['init'], c['T'], obs[1]), (c['init2'], c['T2'], obs[2])]
    return [(c['init'], c['T'], obs)]


def nontrivial(c, obs):
    return all(o[0] == 'ok' for _, _, o in _runs(c, obs)) and any(g != o[1][0] for _, _, o in _runs(c, obs) for g in o[1])


# ---------------------------------------------------------------- the property's own statement
def _btw(g):
    """the BTW map on the torus, written with np.roll (independent of the model and of sandpile.py)"""
    import numpy as np
    a = np.array(g, dtype=np.int64)
    h = (a >= 4).astype(np.int64)
    return (a - 4 * h + np.roll(h, 1, 0) + np.roll(h, -1, 0) + np.roll(h, 1, 1) + np.roll(h, -1, 1)).tolist()


def oracle(c, obs):
    for k, (init, T, o) in enumerate(_runs(c, obs)):
        msg = _oracle_run(c, init, T, o)
        if msg:
            return ('call %d with the same rule object: ' % (k + 1) if c['op'] == 'reuse' else '') + msg
    return None


def _oracle_run(c, init, T, obs):
    if obs[0] != 'ok':
        return 'evolve2d raised %s' % obs[1]
    hist = obs[1]
    R, C = len(init), len(init[0])
    if len(hist) != T or hist[0] != init:
        return 'history has the wrong length or does not start with the initial grid'
    documented = c['rows'] == R and c['cols'] == C
    if not documented:
        return None
    tot = [sum(sum(r) for r in g) for g in hist]
    for t in range(1, len(hist)):
        prev, cur = hist[t - 1], hist[t]
        firing = {(i, j) for (i, j, tt) in c['adds'] if tt == t and i < R and j < C}
        bz = all(prev[i][j] == 0 for i in range(R) for j in range(C) if _is_boundary(R, C, i, j))
        nonneg = all(x >= 0 for r in prev for x in r)
        stable = all(x < 4 for r in prev for x in r)
        if not firing:
            if not c['closed']:
                if tot[t] != tot[t - 1]:
                    return 'open boundary: total changed from %d to %d at step %d' % (tot[t - 1], tot[t], t)
                if cur != _btw(prev):
                    return 'open boundary: step %d is not the BTW toppling of the previous grid' % t
            else:
                if (bz or nonneg) and tot[t] > tot[t - 1]:
                    return 'closed boundary: total increased from %d to %d at step %d' % (tot[t - 1], tot[t], t)
                b = _btw(prev)
                exp = [[0 if _is_boundary(R, C, i, j) else b[i][j] for j in range(C)] for i in range(R)]
                if cur != exp:
                    return ('closed boundary: step %d is not the BTW toppling of the interior cells with the '
                            'boundary cells held at 0' % t)
        if c['closed'] and any(cur[i][j] != 0 for i in range(R) for j in range(C) if _is_boundary(R, C, i, j)):
            return 'closed boundary: a boundary cell is not 0 after step %d' % t
        if stable and (bz or not c['closed']):
            exp = [[prev[i][j] + (1 if (i, j) in firing and not (c['closed'] and _is_boundary(R, C, i, j)) else 0)
                    for j in range(C)] for i in range(R)]
            if cur != exp:
                return ('stable configuration at step %d: expected the grid unchanged except +1 on the cells '
                        'scheduled at this step' % t)
    return None


def shrink(c):
    if c['T'] > 2:
        yield dict(c, T=c['T'] - 1)
        yield dict(c, T=2)
    if c['op'] == 'reuse' and c['T2'] > 2:
        yield dict(c, T2=c['T2'] - 1)
    if c['memo'] != 'False':
        yield dict(c, memo='False')
    if c['dtype'] != 'int64':
        yield dict(c, dtype='int64')
    if c['nbhd'] != 'von Neumann':
        yield dict(c, nbhd='von Neumann')
    for k in range(len(c['adds'])):
        yield dict(c, adds=c['adds'][:k] + c['adds'][k + 1:])
    for key in (('init', 'init2') if c['op'] == 'reuse' else ('init',)):
        g = c[key]
        for i in range(len(g)):
            for j in range(len(g[0])):
                if g[i][j] != 0:
                    g2 = [list(r) for r in g]
                    g2[i][j] = 0
                    yield dict(c, **{key: g2})


# ------------------------------------------------------------------ source tie (appended; harness/translate.py)
# pre(): regenerate coq/gen/GenFuns.v from the Python source of the tree under test and, if it changed, re-prove
# GenProps/GenFunsEquivC14.v, GenProps/C14Src.v and Properties/C14.v (theorem C14_source_tie) by hand.
# extra_checks(): report a failed translation / equivalence proof (theorem names, translator or coqc error).
from harness import translate as _translate
_prev_pre = globals().get('pre')
_prev_extra_checks = globals().get('extra_checks')
TRUSTED = list(globals().get('TRUSTED', [])) + [_translate.TRUSTED_NOTE]
NOTES = list(globals().get('NOTES', [])) + [
    'coq/gen/GenFuns.v is regenerated from the Python source at the start of every run; theorem C14_source_tie proves '
    'the regenerated definitions equal to the hand-written model for all inputs']


def pre(ctx):
    if _prev_pre is not None:
        _prev_pre(ctx)
    _translate.pre_hook(ctx, 'C14')


def extra_checks(ctx):
    out = list(_prev_extra_checks(ctx)) if _prev_extra_checks is not None else []
    return out + _translate.extra_hook(ctx, 'C14')
