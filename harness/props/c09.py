"""C09 — memoisation invokes the rule at most once per distinct neighbourhood: correspondence.

Case kinds:  'evolve1d/...'  (this file, now; generators shared with C03)  and, later, 'evolve2d/...'
(appended by the C04 builder: add a generator to GENERATORS, a runner to RUNNERS, an emitter to
EMITTERS and an oracle to ORACLES under the key 'evolve2d').

Observables of one call: how many times the rule callable was entered and the multiset of the
neighbourhood contents it was given (sorted on the Coq side, on both operands, so an equally economical
order of calls does not alarm)."""
from harness.driver import cnat, czlist, cgrid, clist, cres
from harness.props import c03 as g

ID = 'C09'
COQ_IMPORTS = ('From Coq Require Import String.\n'
               'From CPL Require Import Model.Base Model.Rules Model.Engine Model.Evolve1D Model.Memo1D Corr.C09.\n'
               'From CPL Require Model.Evolve2D Model.Memo2D.\n'      # 2D names are written qualified
               'Open Scope Z_scope.')
NONTRIVIAL_RULE = ('non-trivial = the call returned, ran memoised (True or "recursive") and made fewer rule calls '
                   'than cells computed (at least one cache hit); distinct = distinct case dicts')
EXHAUSTIVE = {'quick': False, 'thorough': False}
ASSUMPTIONS = ['1D: rules are pure (Lin, one third Aff with b != 0) with results that fit the dtype; r in 1..N; timesteps >= 1']
TRUSTED = ['Python twins Lin1 / Aff1 / Logged1 / PredLt of harness/twins.py']
_STATS = {'True': [0, 0], 'recursive': [0, 0]}
NOTES = ['1D: every (N, r) with 1 <= r <= N <= 9, T in 1..6, all three modes; plus random larger rings and the calls of '
         'the C03 call sequences, each observed on its own; evolve1d/shared_rule/*: the observed call comes after 1-4 '
         'earlier calls that were given the same rule object (same / other radius, int8 <-> uint8 aliasing bytes, '
         'int32 <-> int64, other memoize mode), and is still compared with the model of that call alone',
         'rule calls per cell: (filled in by the run)',
         'evolve1d/dress/*: the C03 dress bucket (every shape of twins.RULE_DRESSINGS outermost, user subclasses of '
         'BaseRule / NKSRule / BinaryRule / TotalisticRule included), counts and sorted contents compared as usual',
         'evolve1d/large_table/True is decided by the Python oracle alone (its Coq term is a constant that agrees): one '
         'memoize=True call on 2048 cells x 700 steps x 256 states, about 1.37 million distinct neighbourhoods; rule '
         'invocations must equal the number of distinct neighbourhoods (NumPy reference) and the array must equal the '
         'reference.  A table limit above what this run reaches would escape this case: the tie of _get_memoized to the '
         'model for all table sizes is the source translator\'s (harness/translate.py), not this case\'s']


# ---------------------------------------------------------------- 1D
def gen_evolve1d(rng, tier):
    for src in (g.gen_sweep, g.gen_random, g.gen_histories):
        for c in src(rng, tier):
            calls = c['calls']
            if c['kind'].startswith('history'):
                calls = calls[:2]
            for call in calls:
                mode = g.VALID[call['memo']]
                yield {'kind': 'evolve1d/%s/%s' % (c['kind'].split('/')[0], mode), 'dim': 'evolve1d', 'call': call}
    for c in g.gen_options(rng, tier):
        form = c['kind'].split('/')[1]
        if form in ('join', 'bytes', 'np_str', 'str_subclass', 'np_true', 'np_true_lit', 'np_false'):
            # values equal to 'recursive' / True / False that are not the interned literal or the bool singletons
            yield {'kind': 'evolve1d/option/%s' % g.VALID[form], 'dim': 'evolve1d', 'call': c['calls'][0]}
    # "within one evolve call": the observed call is preceded, in the same process and with the SAME rule object
    # (one Logged1 wrapper; the observed call's slice of its log is what is compared), by the earlier calls of a
    # C03 shared-object sequence (same or other radius / dtype with aliasing bytes / memoize mode, identical or
    # overlapping rows).  A cache that survives a call and is found again through the rule object makes the
    # observed call enter the rule less often than once per distinct content.
    for c in g.gen_shared(rng, tier):
        calls = c['calls']
        flavour = c['kind'].split('/')[1]
        for j in sorted({1, len(calls) - 1}):
            mode = g.VALID[calls[j]['memo']]
            yield {'kind': 'evolve1d/shared_rule/%s/%s' % (flavour, mode), 'dim': 'evolve1d', 'call': calls[j],
                   'prior': calls[:j]}
    # the shape of the rule callable (twins.dress, outermost; user subclasses of the library's rule classes among
    # them) must not change how often the rule is entered
    for c in g.gen_dress(rng, tier):
        call = c['calls'][0]
        yield {'kind': 'evolve1d/dress/%s/%s' % (call['dress'], g.VALID[call['memo']]), 'dim': 'evolve1d', 'call': call}
    # rules that return a view of their neighbourhood, write into it, or re-enter the library; calls written with
    # positional / keyword arguments (C03 round-6 buckets; the logging wrapper records the contents BEFORE the rule
    # touches them).  The oracle-only inplace/sortrank cases stay in C03.
    for src in (g.gen_retview, g.gen_inplace, g.gen_reentrant, g.gen_callform):
        for c in src(rng, tier):
            if c.get('oracle_only'):
                continue
            call = c['calls'][0]
            yield {'kind': 'evolve1d/%s/%s' % ('/'.join(c['kind'].split('/')[:2]) if c['kind'].startswith('inplace') else
                                                c['kind'].split('/')[0], g.VALID[call['memo']]),
                   'dim': 'evolve1d', 'call': call}


# ---- 1D, ORACLE-ONLY: one long call with more than 2**20 distinct neighbourhoods
LARGE_K, LARGE_COLS, LARGE_STEPS = 256, 2048, 701


def _large_f(a, b, c):
    # a pure rule that works on Python ints and, elementwise, on int64 arrays alike
    return (a * a + 3 * b + 5 * c * c + a * c + b * (b + 1) // 2 + 7) % LARGE_K


class _CountingLarge:
    def __init__(self):
        self.count = 0

    def __call__(self, nbhd_arg, cell_arg, step_arg):
        self.count += 1
        return _large_f(int(nbhd_arg[0]), int(nbhd_arg[1]), int(nbhd_arg[2]))


def gen_large1d(rng, tier):
    """memoize=True on 2048 cells x 700 steps over 256 states: about 1.37 million DISTINCT neighbourhoods in one call.
    Decided by the Python oracle alone (the Coq term is a constant that agrees): a table that stops storing, evicts
    or forgets entries below that size shows up as rule invocations > distinct neighbourhoods."""
    for j in range(1 if tier == 'quick' else 2):
        yield {'kind': 'evolve1d/large_table/True', 'dim': 'large1d', 'seed': rng.randrange(2 ** 31), 'dyn': j == 1}


def run_large1d(c):
    import hashlib
    import numpy as np
    import cellpylib as cpl
    from harness.driver import call_impl
    K, COLS, STEPS = LARGE_K, LARGE_COLS, LARGE_STEPS
    initial = np.random.RandomState(c['seed']).randint(0, K, size=COLS).astype(np.int64)
    reference = np.zeros((STEPS, COLS), dtype=np.int64)      # computed without cellpylib: ring, radius 1
    reference[0] = initial
    for t in range(1, STEPS):
        x = reference[t - 1]
        reference[t] = _large_f(np.roll(x, 1), x, np.roll(x, -1))
    prev = reference[:-1]
    codes = (np.roll(prev, 1, axis=1) * K + prev) * K + np.roll(prev, -1, axis=1)
    rule = _CountingLarge()
    ts = (lambda history_arg, count_arg: count_arg < STEPS) if c['dyn'] else STEPS
    res = call_impl(lambda: cpl.evolve(np.array([initial]), timesteps=ts, apply_rule=rule, r=1, memoize=True), timeout=600)
    if res[0] != 'ok':
        return list(res)
    out = np.asarray(res[1])
    return ['ok', {'invocations': rule.count, 'distinct': int(len(np.unique(codes))), 'updates': int(codes.size),
                   'same_as_reference': bool(out.shape == reference.shape and np.array_equal(out, reference)),
                   'sha1': hashlib.sha1(np.ascontiguousarray(out).tobytes()).hexdigest(),
                   'hit': rule.count < codes.size}]


def emit_large1d(c, obs):
    # nothing to compare in Coq (a run of this size is not evaluated there): a constant case that agrees
    return '(CCalls1 (mkCall (RLin [1] 2) (PBool false) 1%nat [[0]] (TFixed 1%nat)) (Ok (0%nat, [])))'


def oracle_large1d(c, obs):
    if obs[0] != 'ok':
        return 'the large memoize=True call raised %s' % obs[1]
    v = obs[1]
    if not v['same_as_reference']:
        return 'memoize=True changed the result of a %d-update evolution (reference computed with NumPy)' % v['updates']
    if v['invocations'] != v['distinct']:
        return ('memoize=True invoked the rule %d times for %d distinct neighbourhoods within one call (%d cell updates)'
                % (v['invocations'], v['distinct'], v['updates']))
    return None


def run_evolve1d(c):
    import cellpylib as cpl
    from harness.twins import Logged1, make_rule as make_rule1
    call = c['call']
    rule = None
    if c.get('prior'):
        rule = Logged1(make_rule1(call['rule']))       # every call of a shared sequence has this rule spec
        for pc in c['prior']:
            g.run_call(cpl, pc, g.MEMO_FORMS[pc['memo']][0](), rule)
    o, ncalls, log = g.run_call(cpl, call, g.MEMO_FORMS[call['memo']][0](), rule)
    if o[0] != 'ok':
        return o
    return ['ok', {'ncalls': ncalls, 'contents': [n for (n, _, _) in log], 'array': o[1]}]


def emit_evolve1d(c, obs):
    f = lambda v: '(%s, %s)' % (cnat(v['ncalls']), clist(v['contents'], czlist))
    return '(CCalls1 %s %s)' % (g.coq_call(c['call']), cres(obs, f))


def _ring_nbhds(row, r):
    N = len(row)
    return [tuple(row[(c - r + k) % N] for k in range(2 * r + 1)) for c in range(N)]


def oracle_evolve1d(c, obs):
    """contents pairwise distinct; (True mode) exactly the contents that occur in the trajectory;
    never more calls than the unmemoised run (one per cell and step)"""
    if obs[0] != 'ok':
        return 'the call raised %s' % obs[1]
    call, v = c['call'], obs[1]
    mode = g.VALID[call['memo']]
    cells = g._cells(call)
    if mode == 'False':
        return None if v['ncalls'] == cells else 'memoize=False made %d rule calls for %d cells' % (v['ncalls'], cells)
    keys = [tuple(n) for n in v['contents']]
    if len(set(keys)) != len(keys):
        return 'memoize=%s invoked the rule twice on the same neighbourhood contents' % mode
    if v['ncalls'] > cells:
        return 'memoize=%s made more rule calls (%d) than the unmemoised evolution (%d)' % (mode, v['ncalls'], cells)
    if mode == 'True' and v['array'] is not None:
        H = len(call['hist'])
        rows = v['array'][H - 1:-1] if call['ts'][1] >= 2 else []
        ref = set()
        for row in rows:
            ref.update(_ring_nbhds(row, call['r']))
        if set(keys) != ref:
            return 'memoize=True: the contents the rule saw are not the distinct neighbourhoods of the trajectory'
    return None


# ---------------------------------------------------------------- 2D (C04 builder; generators shared with C04)
from harness.props import c04 as g2          # noqa: E402
from harness.driver import call_impl, cbool, chist   # noqa: E402
from harness.twins import Logged2, make_rule, coq_rule_spec   # noqa: E402

_STATS2 = {'True': [0, 0], 'recursive': [0, 0]}
_MODE2 = {'false': 'False', 'true': 'True', 'rec_lit': 'recursive', 'rec_join': 'recursive', 'rec_bytes': 'recursive'}
ASSUMPTIONS.append('2D: rules are Lin2 / LinCT2 (LinCT2 only unmemoised) with results that fit the dtype; r in 0..min(R,C); '
                   'contents are compared with masked cells filled with 0 (they do not reach the cache key)')
TRUSTED.append('Python twins Lin2 / LinCT2 / Logged2 / PredLt / PredScript of harness/twins.py')
NOTES.append('2D: the calls of the C04 processes (every third sweep process: all shapes <= 6x6, all radii, both '
             'neighbourhood types, three modes; the first two calls of every call sequence; random shapes <= 9x9), each '
             'observed on its own')
NOTES.append('2D rule calls per cell: (filled in by the run)')


def gen_evolve2d(rng, tier):
    k = 0
    nbig = 0
    for c in g2.generate(rng, tier):
        kind = c['kind'].split('/')[0]
        if kind == 'option':
            calls = [cl for cl in c['calls'] if cl['memo'] in ('rec_join', 'rec_bytes')]
        elif kind == 'sequence':
            calls = c['calls'][:2]
        elif kind == 'bigr':          # windows > 1000 cells: memoize=True of the first two von Neumann processes (Coq cost)
            nbig += 1
            calls = [cl for cl in c['calls'] if cl['memo'] == 'true' and cl['ty'] == 'vn'] if nbig <= 2 else []
        elif kind in ('dress', 'reentrant'):   # every dressing of the rule callable / predicate; every nested evolution
            calls = c['calls']
        elif kind == 'floatret' and c.get('neg'):
            calls = []                # the negated family has no C09 model; the positive one is RLin / RAff itself
        else:
            k += 1
            calls = c['calls'] if k % 3 == 0 else []
        for call in calls:
            if call['memo'] not in _MODE2:
                continue
            yield {'kind': 'evolve2d/%s/%s/%s' % (kind, call['ty'], _MODE2[call['memo']]), 'dim': 'evolve2d', 'call': call}
        if c.get('share_rule'):
            # "within one call": the observed call is preceded, in the same process and with the SAME rule object, by
            # another call (the same one repeated / one with another neighbourhood type or radius); a cache that
            # survives a call makes the observed call enter the rule less often than once per distinct content
            a, b = c['calls'][0], c['calls'][1]
            for prior, call in ((a, a), (a, b)):
                if call['memo'] in _MODE2 and prior['memo'] in _MODE2:
                    yield {'kind': 'evolve2d/shared_rule/%s/%s' % (call['ty'], _MODE2[call['memo']]), 'dim': 'evolve2d',
                           'call': call, 'prior': [prior]}
    # float_negcorner: float64 automata, von Neumann, mostly zeros with a few negative and positive cells, so that the
    # same unmasked content occurs with different (negative / non-negative) values in the MASKED corners: masked cells
    # must not count (exactly once per distinct unmasked content).  No -0.0 states (distinct bytes: outside the design).
    n_neg = 40 if tier == 'quick' else 400
    for i in range(n_neg):
        R, C = rng.choice([(4, 4), (5, 5), (4, 6), (6, 6), (3, 5), (5, 4)])
        r = rng.randint(1, min(R, C, 2))
        g = [[0.0] * C for _ in range(R)]
        for _ in range(rng.randint(1, 3)):
            g[rng.randrange(R)][rng.randrange(C)] = rng.choice([-1.0, -1.0, -2.0, 1.0])
        if not any(x < 0 for row in g for x in row):
            g[rng.randrange(R)][rng.randrange(C)] = -1.0
        memo = 'true' if i % 5 else rng.choice(['rec_lit', 'false'])
        call = {'R': R, 'C': C, 'r': r, 'ty': 'vn' if i % 8 else 'moore', 'hist': [g], 'rule': g2._lin(rng, r, 3),
                'memo': memo, 'ts': rng.choice([{'fixed': 2}, {'fixed': 3}, {'lt': 3}]), 'dtype': 'float64'}
        yield {'kind': 'evolve2d/float_negcorner/%s/%s' % (call['ty'], _MODE2[memo]), 'dim': 'evolve2d', 'call': call}


def _filled(vals, mask):
    return [0 if m else v for vr, mr in zip(vals, mask) for v, m in zip(vr, mr)]


def run_evolve2d(c):
    import numpy as np
    import cellpylib as cpl
    from harness import twins
    call = c['call']
    ca = g2._layout(np.array(call['hist'], dtype=np.dtype(call['dtype'])), call.get('layout'))
    # the C04 twin of the call (family member / HalfLin / InPlace / Scribble / ProjView2), logged; re-entrancy and the
    # dressing go AROUND the log (the dressing outermost), so the log holds the calls of the outer rule only
    rule = Logged2(g2._inner_rule(call))
    handed = g2._wrap_outer(call, rule)
    for pc in c.get('prior', []):          # earlier calls of the same process with the same rule object
        pca = np.array(pc['hist'], dtype=np.dtype(pc['dtype']))
        call_impl(lambda: cpl.evolve2d(pca, timesteps=g2._timesteps(pc['ts']), apply_rule=handed, r=pc['r'],
                                       neighbourhood='Moore' if pc['ty'] == 'moore' else 'von Neumann',
                                       memoize=g2.OPTIONS[pc['memo']][0]()))
    rule.log = []
    nb = 'Moore' if call['ty'] == 'moore' else 'von Neumann'
    nested = g2._nested(call) if call.get('reent') and call['reent']['where'] == 'pred' else None
    names = ['cellular_automaton', 'timesteps', 'apply_rule', 'r', 'neighbourhood', 'memoize']
    values = [ca, g2._timesteps(call['ts'], call.get('pdress'), nested), handed, call['r'], nb, g2.OPTIONS[call['memo']][0]()]
    res = call_impl(lambda: twins.invoke(cpl.evolve2d, names, values, call.get('npos', 0)))
    if res[0] != 'ok':
        return list(res)
    arr = g2._grids(res[1])
    steps = len(arr) - len(call['hist'])
    cells = steps * call['R'] * call['C']
    return ['ok', {'ncalls': len(rule.log),
                   'contents': [_filled(vals, mask) for ((vals, mask), _, _) in rule.log],
                   'raw': [[v for row in vals for v in row] for ((vals, _), _, _) in rule.log],
                   'array': arr, 'cells': cells, 'hit': len(rule.log) < cells and call['memo'] != 'false'}]


def _cts2(ts):
    if 'fixed' in ts:
        return '(Memo2D.TFixed %s)' % cnat(ts['fixed'])
    if 'lt' in ts:
        return '(Memo2D.TLt %s)' % cnat(ts['lt'])
    if 'script' in ts:
        return '(Memo2D.TScript %s)' % clist(ts['script'], cbool)
    return '(Memo2D.TUntilFixedLt %s)' % cnat(ts['ufplt'])


def emit_evolve2d(c, obs):
    call = c['call']
    f = lambda v: '(%s, %s)' % (cnat(v['ncalls']), clist(v['contents'], czlist))
    term = '(Memo2D.mkCall2 %s %s %s %s %s %s)' % (
        coq_rule_spec(call['rule']), g2.OPTIONS[call['memo']][1], cnat(call['r']),
        'Evolve2D.Moore' if call['ty'] == 'moore' else 'Evolve2D.VonNeumann', chist(call['hist']), _cts2(call['ts']))
    return '(CCalls2 %s %s)' % (term, cres(obs, f))


def oracle_evolve2d(c, obs):
    """contents pairwise distinct (True: with masked cells not counting; recursive: the raw blocks); (True mode) the
    keys are exactly the keys of the neighbourhoods that occur in the trajectory; never more calls than cells"""
    if obs[0] != 'ok':
        return 'the call raised %s' % obs[1]
    call, v = c['call'], obs[1]
    mode = _MODE2[call['memo']]
    cells = v['cells']
    if mode == 'False':
        return None if v['ncalls'] == cells else 'memoize=False made %d rule calls for %d cells' % (v['ncalls'], cells)
    _STATS2[mode][0] += v['ncalls']
    _STATS2[mode][1] += cells
    NOTES[-1] = '2D rule calls per cell computed, measured on this run: ' + ', '.join(
        'memoize=%s: %.3f over %d cells' % (m, (a / b if b else 1), b) for m, (a, b) in sorted(_STATS2.items()))
    keys = [tuple(n) for n in (v['contents'] if mode == 'True' else v['raw'])]
    if len(set(keys)) != len(keys):
        return 'memoize=%s invoked the rule twice on the same neighbourhood contents' % mode
    if v['ncalls'] > cells:
        return 'memoize=%s made more rule calls (%d) than the unmemoised evolution (%d)' % (mode, v['ncalls'], cells)
    if mode == 'True':
        R, C, r = call['R'], call['C'], call['r']
        w = 2 * r + 1
        vn = call['ty'] == 'vn'
        H = len(call['hist'])
        ref = set()
        for gr in v['array'][H - 1:-1]:
            for row in range(R):
                for col in range(C):
                    ref.add(tuple(0 if (vn and abs(a - r) + abs(b - r) > r) else gr[(row - r + a) % R][(col - r + b) % C]
                                  for a in range(w) for b in range(w)))
        if set(keys) != ref:
            return 'memoize=True: the contents the rule saw are not the distinct neighbourhoods of the trajectory'
    return None


GENERATORS = {'evolve1d': gen_evolve1d, 'evolve2d': gen_evolve2d}
RUNNERS = {'evolve1d': run_evolve1d, 'evolve2d': run_evolve2d}
EMITTERS = {'evolve1d': emit_evolve1d, 'evolve2d': emit_evolve2d}
ORACLES = {'evolve1d': oracle_evolve1d, 'evolve2d': oracle_evolve2d}
# 1D oracle-only case kind (see gen_large1d)
GENERATORS['large1d'], RUNNERS['large1d'], EMITTERS['large1d'], ORACLES['large1d'] = (
    gen_large1d, run_large1d, emit_large1d, oracle_large1d)


# ---------------------------------------------------------------- driver interface
def generate(rng, tier):
    for dim in sorted(GENERATORS):
        yield from GENERATORS[dim](rng, tier)


def run_impl(c):
    return RUNNERS[c['dim']](c)


def to_coq(c, obs):
    return EMITTERS[c['dim']](c, obs)


def oracle(c, obs):
    return ORACLES[c['dim']](c, obs)


def nontrivial(c, obs):
    if obs[0] != 'ok' or c['dim'] != 'evolve1d':
        return obs[0] == 'ok' and obs[1].get('hit', False)
    mode = g.VALID[c['call']['memo']]
    cells = g._cells(c['call'])
    if mode not in _STATS or cells == 0:
        return False
    _STATS[mode][0] += obs[1]['ncalls']
    _STATS[mode][1] += cells
    NOTES[1] = '1D rule calls per cell computed, measured on this run: ' + ', '.join(
        'memoize=%s: %.3f over %d cells' % (m, (a / b if b else 1), b) for m, (a, b) in sorted(_STATS.items()))
    return obs[1]['ncalls'] < cells


def shrink(c):
    if c['dim'] == 'evolve2d':
        call = c['call']
        if len(call['hist']) > 1:
            yield dict(c, call=dict(call, hist=call['hist'][-1:]))
        if 'fixed' not in call['ts']:
            yield dict(c, call=dict(call, ts={'fixed': 3}))
        elif call['ts']['fixed'] > 2:
            yield dict(c, call=dict(call, ts={'fixed': call['ts']['fixed'] - 1}))
        if call['dtype'] != 'int64':
            yield dict(c, call=dict(call, dtype='int64'))
        return
    if c['dim'] != 'evolve1d':
        return
    if c.get('prior'):
        yield dict(c, prior=c['prior'][1:])
    call = c['call']
    kind, T = call['ts']
    if T > 2:
        yield dict(c, call=dict(call, ts=[kind, T - 1]))
    if kind == 'lt':
        yield dict(c, call=dict(call, ts=['fixed', T]))
    if len(call['hist']) > 1:
        yield dict(c, call=dict(call, hist=call['hist'][-1:]))
    if call['dtype'] != 'int64':
        yield dict(c, call=dict(call, dtype='int64'))


# ------------------------------------------------------------------ source tie (appended; harness/translate.py)
# pre(): regenerate coq/gen/GenFuns_C09.v from the Python source of the tree under test and, if it changed, re-prove
# GenProps/GenFunsEquivC09.v, GenProps/C09Src.v and Properties/C09.v (theorem C09_source_tie) by hand.
# extra_checks(): report a failed translation / equivalence proof (theorem names, translator or coqc error).
from harness import translate as _translate
_prev_pre = globals().get('pre')
_prev_extra_checks = globals().get('extra_checks')
TRUSTED = list(globals().get('TRUSTED', [])) + [_translate.TRUSTED_NOTE]
NOTES = list(globals().get('NOTES', [])) + [
    'coq/gen/GenFuns_C09.v is regenerated from the Python source at the start of every run; theorem C09_source_tie '
    'proves the regenerated definitions equal to the hand-written model for all inputs']


def pre(ctx):
    if _prev_pre is not None:
        _prev_pre(ctx)
    _translate.pre_hook(ctx, 'C09')


def extra_checks(ctx):
    out = list(_prev_extra_checks(ctx)) if _prev_extra_checks is not None else []
    return out + _translate.extra_hook(ctx, 'C09')
