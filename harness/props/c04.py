"""C04 — 2D memoization is transparent (memoize=True and memoize='recursive' equal memoize=False):
correspondence generators and runners.  A case is a PROCESS: one or more cpl.evolve2d calls made back
to back in this Python process.  Per call, the returned array (or "an exception was raised") is compared
in Coq with the model of that call's own mode (Model/Memo2D.v); the property's own oracle (memoized
result == unmemoized result, both computed by the implementation) is evaluated here."""
import numpy as np
from harness.driver import call_impl, cz, cnat, cbool, czlist, cgrid, chist, clist, cres
from harness.twins import PredLt, PredScript, PredLogged, make_rule, coq_rule_spec
from harness import twins

ID = 'C04'
COQ_IMPORTS = ('From Coq Require Import String.\n'
               'From CPL Require Import Model.Base Model.Rules Model.Engine Model.Evolve2D Model.Memo2D Corr.C04.\n'
               'Open Scope Z_scope.')
NONTRIVIAL_RULE = ('non-trivial = the process contains a memoized call (True or "recursive") that returned an array and '
                   'entered the rule fewer times than the unmemoized evolution would (R*C per step), i.e. at least one '
                   'cache entry was hit; distinct = distinct case dicts')
EXHAUSTIVE = {'quick': False, 'thorough': False}
NOTES = ['round 6: reentrant/* (rule or timesteps callable runs a nested memoized evolve2d with another rule), inplace/* (pure '
         'rules writing into their argument; model = function of the original contents), retview/* (0-d view results), '
         'callform/* (positional / keyword / mixed call of evolve2d)',
         'round 5: bigr/* (r = 16, 17: windows > 1000 cells), floatret/* (non-integral float results on integer automata; '
         'pos = CProc with the family member, neg = CProcNeg in Corr/C04.v: the truncating cast), dress/<how>/* (every '
         'twins.RULE_DRESSINGS shape, outermost), layout/<fortran|transposed|negstride>/* (non-C-contiguous history)',
         'every shape R x C <= 6x6 (1xN, Nx1, 3x4 and 4x3, primes included), every radius 0..min(R,C) and both '
         'neighbourhood types are swept with all three modes on the same input; grids (sparse / striped / checkerboard / '
         'constant / random over k in {2,3}), rules, step counts, callable timesteps, option spellings and call '
         'sequences are sampled; 60% of the call sequences pass ONE rule object to all their calls, which differ in '
         'neighbourhood type and/or radius on the same or a one-cell-changed grid',
         'compared in Coq per call: the returned array (values and shape) of each mode against the model of that mode; '
         'oracle in Python: memoized array == unmemoized array, both from the implementation']
ASSUMPTIONS = ['memoize=np.True_ / np.False_ are modelled as PBool (the code converts np.bool_ at the top of evolve2d, fix '
               '751b55b); np.str_ and str subclasses equal to "recursive" as PStr "recursive"; bytes and ints are unsupported',
               'rules are pure and read only the unmasked cells (Lin2 and the affine Aff2 of harness/twins.py; about a '
               'third of the pure rules are affine with b != 0, so that the all-zero neighbourhood does not map to 0); memoized modes with rules that '
               'depend on c or t are outside the property',
               'rule results and initial states are representable in the dtype of the automaton (store = identity)',
               'radii outside 0..min(R,C) are outside the property (every mode raises IndexError at the first gather)',
               'exception classes are not compared: any exception on both sides agrees']
TRUSTED = ['Python twins Lin2 / Aff2 / LinCT2 / PredLt / PredScript in harness/twins.py; the option spellings table in c04.py']

# the ways the option is spelled: (python value factory, Coq PyVal term)
OPTIONS = {
    'false': (lambda: False, '(PBool false)'),
    'true': (lambda: True, '(PBool true)'),
    'rec_lit': (lambda: "recursive", '(PStr "recursive")'),
    'rec_join': (lambda: ''.join(['recur', 'sive']), '(PStr "recursive")'),          # equal, not identical
    'rec_bytes': (lambda: str(b'recursive', 'ascii'), '(PStr "recursive")'),         # equal, not identical
    # value-equal but not the literal / not the bool singletons (fix 751b55b converts np.bool_ at the top of evolve2d;
    # np.str_ and str subclasses compare equal to "recursive"): selected by VALUE
    'np_true': (lambda: np.True_, '(PBool true)'),
    'np_false': (lambda: np.False_, '(PBool false)'),
    'np_cmp_true': (lambda: (np.arange(3) >= 0).all(), '(PBool true)'),                # the result of an array comparison
    'np_str': (lambda: np.str_('recursive'), '(PStr "recursive")'),
    'str_sub': (lambda: _StrSub('recursive'), '(PStr "recursive")'),
    'rec_upper': (lambda: 'Recursive', '(PStr "Recursive")'),                        # unsupported
    'rec_bytes_obj': (lambda: b'recursive', '(PStr "b-recursive")'),                 # bytes != str: unsupported
    'np_int1': (lambda: np.int64(1), '(PInt 1)'),                                    # not a boolean: unsupported
    'str_true': (lambda: 'True', '(PStr "True")'),                                   # unsupported
    'int1': (lambda: 1, '(PInt 1)'),                                                 # `1 is True` is False
    'int0': (lambda: 0, '(PInt 0)'),
    'none': (lambda: None, 'PNone'),
}
MODES3 = ['false', 'true', 'rec_lit']
MEMOIZED = ('true', 'rec_lit', 'rec_join', 'rec_bytes')                    # what the generators of sequences draw from
MEMOIZED_ALL = MEMOIZED + ('np_true', 'np_cmp_true', 'np_str', 'str_sub')  # every spelling that selects a memoized mode


class _StrSub(str):
    pass

STATS = {'memo_calls': 0, 'memo_rule_entries': 0, 'memo_cells': 0}


class Counting:
    """counts the entries of the rule; `ret` names a NumPy scalar type the result is converted to before it is returned
    (np.int64(v) instead of the Python int v: NumPy casts the two differently on assignment)"""
    def __init__(self, f, ret=None):
        self.f, self.n, self.ret = f, 0, ret

    def __call__(self, nbhd_arg, cell_arg, step_arg):

        n, c, t = nbhd_arg, cell_arg, step_arg   # not named (n, c, t): the library must call rules positionally
        self.n += 1
        v = self.f(n, c, t)
        return getattr(np, self.ret)(v) if self.ret else v


class HalfLin:
    """content-only rule that returns a NON-INTEGRAL float: q + frac, or -(q) - frac, where q >= 0 is the value of the
    wrapped Lin2 / Aff2 twin and 0 < frac < 1.  On an integer automaton every engine stores it with NumPy's truncating
    cast (toward zero): q resp. -q.  Model side: Corr/C04.v (CProc with the family member resp. CProcNeg)."""
    def __init__(self, base, frac, neg, npf):
        self.base, self.frac, self.neg, self.npf = base, frac, neg, npf

    def __call__(self, n, c, t):
        v = self.base(n, c, t) + self.frac
        v = -v if self.neg else v
        return np.float64(v) if self.npf else float(v)


class InPlace:
    """pure rules that WRITE INTO THEIR ARGUMENT before / while computing; a rule owns the neighbourhood it is handed,
    so this is legal, and the value is a function of the ORIGINAL contents (model: the Lin2 member with these weights).
      blank_data / blank_ma : remember the centre, set n[mid, mid] = 0 (through .data / through the array itself), then
                              the weighted sum over the (now blanked) block plus weight * remembered centre
      sortsum               : sort the flattened block in place, then sum it (Moore only; all weights 1)
      scribble0 / scribble77: twins.Scribble — compute first, then overwrite the whole block"""
    def __init__(self, how, ws, m):
        self.how, self.ws, self.m = how, ws, m

    def __call__(self, nbhd_arg, cell_arg, step_arg):
        n = nbhd_arg
        masked = isinstance(n, np.ma.MaskedArray)
        data = n.data if masked else n
        if self.how == 'sortsum':
            flat = data.reshape(-1)                 # a view of the block
            flat.sort()
            return int(sum(int(x) for x in flat)) % self.m
        mid = data.shape[0] // 2
        centre = int(data[mid][mid])
        if self.how == 'blank_ma':
            n[mid, mid] = 0
        else:
            data[mid, mid] = 0
        vals = twins.unmasked2(n)
        k = sum(1 for i in range(data.shape[0]) for j in range(data.shape[1])
                if (i, j) < (mid, mid) and not (masked and np.ma.getmaskarray(n)[i][j]))     # rank of the centre
        return (sum(w * x for w, x in zip(self.ws, vals)) + (self.ws[k] * centre if k < len(self.ws) else 0)) % self.m


class ReentPred:
    """a timesteps callable that runs a complete nested library call before answering (model: the predicate)"""
    def __init__(self, p, nested):
        self.p, self.nested = p, nested

    def __call__(self, history_arg, count_arg):
        self.nested()
        return self.p(history_arg, count_arg)


def _nested(c):
    """the nested library call of the reentrant streams: a MEMOIZED evolve2d on the same grid / r / neighbourhood / dtype
    with ANOTHER pure rule (same weights, another constant: its value differs on every neighbourhood)"""
    import cellpylib as cpl
    re = c['reent']
    other = make_rule(re['rule'], dim=2)
    nb = 'Moore' if c['ty'] == 'moore' else 'von Neumann'

    def nested():
        cpl.evolve2d(np.array(c['hist'][-1:], dtype=np.dtype(c['dtype'])), timesteps=2, apply_rule=other, r=c['r'],
                     neighbourhood=nb, memoize=OPTIONS[re['memo']][0]())
    return nested


def _inner_rule(c):
    """the twin whose calls are counted / logged: family member, HalfLin, InPlace, Scribble or ProjView2"""
    base = make_rule(c['rule'], dim=2)
    if c.get('fret'):
        base = HalfLin(base, c['fret']['frac'], c['fret']['neg'], c['fret']['np'])
    how = c.get('inplace')
    if how in ('scribble0', 'scribble77'):
        base = twins.Scribble(base, fill=0 if how == 'scribble0' else 77)
    elif how:
        base = InPlace(how, list(c['rule']['ws']), c['rule']['m'])
    if c.get('projview'):
        base = twins.ProjView2(c['projview'][0], c['projview'][1])
    return base


def _wrap_outer(c, counted):
    """what is handed to evolve2d: re-entrancy around the counted twin, the dressing OUTERMOST"""
    f = counted
    if c.get('reent') and c['reent']['where'] == 'rule':
        f = twins.Reentrant(f, _nested(c))
    return twins.dress(f, c.get('dress'))


def _build_rule(c):
    """(the counting twin, the object handed to evolve2d)"""
    counting = Counting(_inner_rule(c), c.get('ret'))
    return counting, _wrap_outer(c, counting)


def _layout(ca, how):
    """the same logical array in another memory layout (never C-contiguous)"""
    if how == 'fortran':
        return np.asfortranarray(ca)
    if how == 'transposed':
        return np.ascontiguousarray(ca.transpose(0, 2, 1)).transpose(0, 2, 1)
    if how == 'negstride':
        return np.ascontiguousarray(ca[:, ::-1, ::-1])[:, ::-1, ::-1]
    return ca


def _grid(rng, R, C, style, k):
    if style == 'zero':
        return [[0] * C for _ in range(R)]
    if style == 'sparse':
        g = [[0] * C for _ in range(R)]
        g[rng.randrange(R)][rng.randrange(C)] = rng.randint(1, k - 1)
        return g
    if style == 'rowstripes':
        p = rng.choice([2, 3])
        return [[(i % p) % k for _ in range(C)] for i in range(R)]
    if style == 'colstripes':
        p = rng.choice([2, 3])
        return [[(j % p) % k for j in range(C)] for _ in range(R)]
    if style == 'checker':
        return [[(i + j) % 2 for j in range(C)] for i in range(R)]
    return [[rng.randint(0, k - 1) for _ in range(C)] for _ in range(R)]


STYLES = ['sparse', 'rowstripes', 'colstripes', 'checker', 'random', 'zero']


def _lin(rng, r, k, fam='lin', p_aff=1.0 / 3):
    """a pure rule of the Lin2 family, or (about a third of the time; more often on sparse grids) of the AFFINE family
    (sum(w*x) + b) mod m with b != 0 mod m: it maps the all-zero neighbourhood to b, not to 0, so an engine that
    leaves all-zero blocks untouched (relying on the zero-initialised next_state) is visible"""
    w = (2 * r + 1) ** 2
    ws = [rng.randint(0, 2) for _ in range(w)]
    if rng.random() < 0.3:
        ws = [1] * w                                   # totalistic: many equal neighbourhood sums
    if fam == 'lin' and rng.random() < p_aff:
        return {'fam': 'aff', 'ws': ws, 'b': rng.randint(1, k - 1), 'm': k}
    return {'fam': fam, 'ws': ws, 'm': k}


PURE = ('lin', 'aff')


def _ts(rng, form=None):
    form = form or rng.choice(['fixed', 'fixed', 'lt', 'script', 'ufplt'])
    if form == 'fixed':
        return {'fixed': rng.choice([2, 3, 3, 4, 5])}
    if form == 'lt':
        return {'lt': rng.randint(1, 5)}
    if form == 'script':
        return {'script': [True] * rng.randint(0, 4) + [False] + [rng.random() < 0.5 for _ in range(rng.randint(0, 2))]}
    return {'ufplt': rng.randint(2, 6)}


def _call(R, C, r, ty, hist, rule, memo, ts, dtype='int64'):
    return {'R': R, 'C': C, 'r': r, 'ty': ty, 'hist': hist, 'rule': rule, 'memo': memo, 'ts': ts, 'dtype': dtype}


def _triple(rng, R, C, r, ty, style, k, ts, H=1, dtype='int64'):
    """the same input under memoize=False, True, 'recursive'"""
    hist = [_grid(rng, R, C, 'random', k) for _ in range(H - 1)] + [_grid(rng, R, C, style, k)]
    rule = _lin(rng, r, k, p_aff=0.6 if style in ('sparse', 'zero') else 0.25)
    return [_call(R, C, r, ty, hist, rule, m, ts, dtype) for m in MODES3]


def _shape_kind(R, C):
    if R == 1 and C == 1:
        return '1x1'
    if R == 1:
        return '1xN'
    if C == 1:
        return 'Nx1'
    return 'square' if R == C else 'rect'


def _r_kind(r, R, C):
    return 'r=0' if r == 0 else ('r=min' if r == min(R, C) else ('r>=2' if r >= 2 else 'r=1'))


def _generate_main(rng, tier):
    D = 6
    # -- every shape x every radius x both neighbourhood types; all three modes on the same input
    for R in range(1, D + 1):
        for C in range(1, D + 1):
            for r in range(0, min(R, C) + 1):
                for ty in ('moore', 'vn'):
                    kind = 'sweep/%s/%s/%s' % (ty, _shape_kind(R, C), _r_kind(r, R, C))
                    if tier == 'quick':
                        variants = [('rowstripes' if (R + C + r) % 2 else 'colstripes', 'fixed'),
                                    (rng.choice(['sparse', 'checker']), rng.choice(['fixed', 'lt'])),
                                    ('random', rng.choice(['fixed', 'script', 'ufplt'])),
                                    (rng.choice(STYLES), None)]
                    else:
                        variants = [(s, f) for s in STYLES for f in ('fixed', 'lt', 'script', 'ufplt', 'fixed')]
                    for style, form in variants:
                        k = rng.choice([2, 3])
                        yield {'kind': kind, 'calls': _triple(rng, R, C, r, ty, style, k, _ts(rng, form),
                                                              H=rng.choice([1, 1, 2]),
                                                              dtype=rng.choice(['int64', 'int64', 'int32', 'uint8']))}
    # -- how the option is spelled (the mode is selected by value); unsupported values are rejected once a cell is visited
    n_opt = 8 if tier == 'quick' else 60
    for _ in range(n_opt):
        for opt in OPTIONS:
            R, C = rng.randint(1, 4), rng.randint(1, 4)
            r = rng.randint(0, min(R, C, 2))
            ty = rng.choice(['moore', 'vn'])
            k = rng.choice([2, 3])
            hist = [_grid(rng, R, C, rng.choice(STYLES), k)]
            ts = rng.choice([{'fixed': 1}, {'fixed': 2}, {'fixed': 3}, {'lt': 1}, {'lt': 3}])
            yield {'kind': 'option/%s' % opt, 'calls': [_call(R, C, r, ty, hist, _lin(rng, r, k), opt, ts)]}
    # -- call sequences in one process: different rules on the same / overlapping states, 3x4 next to 4x3,
    #    the same rule on different dtypes, modes interleaved
    n_seq = 120 if tier == 'quick' else 1500
    for i in range(n_seq):
        R, C = rng.choice([(3, 4), (4, 3), (2, 2), (4, 4), (2, 3), (3, 2), (1, 4), (4, 1), (5, 5), (3, 3), (6, 4)])
        r = rng.randint(0, min(R, C, 2))
        ty = rng.choice(['moore', 'vn'])
        k = rng.choice([2, 3])
        style = rng.choice(STYLES)
        g = _grid(rng, R, C, style, k)
        if i % 5 < 3:
            # ONE rule object for all the calls of the process (run_impl honours 'share_rule'); consecutive calls differ
            # in neighbourhood type and/or radius on the same or a slightly changed grid: anything kept per rule
            # object across calls (stale blocks / table entries computed under another mask or radius) shows up.
            # A Lin2 with (2*rmax+1)^2 non-uniform weights is pure and legitimate for every r <= rmax.
            rmax = min(R, C, 2)
            w = (2 * rmax + 1) ** 2
            ws = [rng.randint(0, 2) for _ in range(w)]
            ws[0], ws[1] = 1, 2                      # never uniform: Moore and von Neumann results differ
            rule = {'fam': 'lin', 'ws': ws, 'm': k}
            if rng.random() < 1.0 / 3:
                rule = {'fam': 'aff', 'ws': ws, 'b': rng.randint(1, k - 1), 'm': k}
            memo = rng.choice(['true', 'rec_lit', 'rec_join', None])      # None: mixed modes
            calls = []
            cur_ty, cur_r, cur_g = ty, r, g
            for j in range(rng.randint(2, 4)):
                if j > 0:
                    how = rng.random()
                    if how < 0.5 or rmax == 0:
                        cur_ty = 'vn' if cur_ty == 'moore' else 'moore'
                    elif how < 0.8:
                        cur_r = rng.choice([x for x in range(rmax + 1) if x != cur_r])
                    else:
                        cur_ty = 'vn' if cur_ty == 'moore' else 'moore'
                        cur_r = rng.randint(0, rmax)
                    if rng.random() < 0.3:           # similar contents: one cell changed
                        cur_g = [row[:] for row in cur_g]
                        a, b = rng.randrange(R), rng.randrange(C)
                        cur_g[a][b] = (cur_g[a][b] + 1) % k
                calls.append(_call(R, C, cur_r, cur_ty, [cur_g], rule, memo or rng.choice(MEMOIZED),
                                   rng.choice([{'fixed': 2}, {'fixed': 3}, {'fixed': 4}, {'lt': 3}])))
            yield {'kind': 'sequence/shared_rule', 'share_rule': True, 'calls': calls}
            continue
        calls = []
        for j in range(rng.randint(2, 5)):
            which = rng.random()
            if which < 0.35:      # same state, another rule
                calls.append(_call(R, C, r, ty, [g], _lin(rng, r, k), rng.choice(MEMOIZED), _ts(rng)))
            elif which < 0.55:    # transposed shape with the same flat contents (3x4 vs 4x3)
                flat = [x for row in g for x in row]
                gt = [flat[a * R:(a + 1) * R] for a in range(C)]
                r2 = min(r, R, C)
                calls.append(_call(C, R, r2, ty, [gt], _lin(rng, r2, k), rng.choice(MEMOIZED), _ts(rng)))
            elif which < 0.7:     # same rule as the previous call, another dtype
                prev = calls[-1] if calls else _call(R, C, r, ty, [g], _lin(rng, r, k), 'true', _ts(rng))
                rule = prev['rule'] if prev['rule']['fam'] in PURE else _lin(rng, prev['r'], k)
                calls.append(dict(prev, rule=rule, dtype=rng.choice(['int32', 'uint8', 'int64']), memo=rng.choice(MEMOIZED)))
            elif which < 0.85:    # another state of the same shape, unmemoized rule that reads c and t
                g2 = _grid(rng, R, C, rng.choice(STYLES), k)
                calls.append(_call(R, C, r, ty, [g2], _lin(rng, r, k, 'linct'), 'false', _ts(rng)))
            else:
                g2 = _grid(rng, R, C, rng.choice(STYLES), k)
                calls.append(_call(R, C, r, ty, [g, g2], _lin(rng, r, k), rng.choice(MODES3 + ['rec_join']), _ts(rng)))
        yield {'kind': 'sequence', 'calls': calls}
    # -- value space: what reaches the byte keys and the dtype casts.  Negative states and weights, large magnitudes
    #    (999999 = NumPy's integer fill value of masked arrays, 2**40), int64 / uint64 states above 2**53 (not
    #    representable in a float64 scratch array), bool and float64 automata with integer-valued states, rules that
    #    return NumPy scalars.  Results are always representable in the automaton's dtype.
    n_val = 25 if tier == 'quick' else 250
    for i in range(n_val):
        for kind in ('negative', 'large', 'above2^53', 'bool', 'float64', 'npscalar'):
            R, C = rng.choice([(1, 1), (2, 3), (3, 3), (3, 4), (4, 4), (5, 3), (6, 6), (1, 5), (4, 1)])
            r = rng.randint(0, min(R, C, 2))
            ty = rng.choice(['moore', 'vn'])
            w = (2 * r + 1) ** 2
            ret = None
            if kind == 'negative':
                dtype = rng.choice(['int64', 'int32', 'int8'])
                vals = [-3, -2, -1, 0, 0, 1, 2]
                m = rng.choice([2, 3, 5])
                rule = {'fam': rng.choice(['lin', 'aff']), 'ws': [rng.randint(-2, 2) for _ in range(w)], 'm': m}
            elif kind == 'large':
                dtype = 'int64'
                vals = [0, 0, 1, 999999, 2 ** 40, -2 ** 40, -999999]
                rule = {'fam': 'aff', 'ws': [rng.randint(0, 2) for _ in range(w)], 'm': 2 ** 62}
            elif kind == 'above2^53':
                dtype = rng.choice(['int64', 'uint64'])
                vals = [0, 0, 1, 2 ** 53 + 1, 2 ** 60 + 7, 2 ** 61 + 12345] + ([2 ** 63 + 5] if dtype == 'uint64' else [])
                rule = {'fam': 'aff', 'ws': [rng.randint(0, 2) for _ in range(w)], 'm': 2 ** 62 if dtype == 'int64' else 2 ** 64}
                rule['ws'][w // 2] = 1                                   # the centre cell always counts
                ret = rng.choice([None, None, 'uint64' if dtype == 'uint64' else 'int64'])
            elif kind == 'bool':
                dtype = 'bool'
                vals = [0, 1]
                rule = {'fam': rng.choice(['lin', 'aff']), 'ws': [rng.randint(0, 1) for _ in range(w)], 'm': 2}
                ret = rng.choice([None, 'bool_', 'int64'])
            elif kind == 'float64':
                dtype = 'float64'
                vals = [0, 0, 1, -1, 2, 999999, -2 ** 40, 2 ** 40]
                rule = {'fam': 'aff', 'ws': [rng.randint(-2, 2) for _ in range(w)], 'm': rng.choice([3, 2 ** 50])}
                ret = rng.choice([None, 'float64', 'int64'])
            else:
                dtype = rng.choice(['int64', 'int32', 'uint8'])
                vals = [0, 0, 1, 2]
                rule = {'fam': rng.choice(['lin', 'aff']), 'ws': [rng.randint(0, 2) for _ in range(w)], 'm': 3}
                ret = rng.choice(['int64', 'int32', 'uint8', 'int64'])
            if rule['fam'] == 'aff':
                rule['b'] = rng.randint(1, min(rule['m'], 1000) - 1)
            style = rng.choice(['random', 'random', 'rows', 'sparse'])
            if style == 'random':
                g = [[rng.choice(vals) for _ in range(C)] for _ in range(R)]
            elif style == 'rows':
                a, b = rng.choice(vals), rng.choice(vals)
                g = [[(a if x % 2 else b) for _ in range(C)] for x in range(R)]
            else:
                g = [[0] * C for _ in range(R)]
                g[rng.randrange(R)][rng.randrange(C)] = rng.choice([v for v in vals if v != 0])
            ts = {'fixed': rng.choice([2, 3, 4])} if kind == 'above2^53' or rng.random() < 0.7 else {'lt': rng.randint(2, 4)}
            calls = [dict(_call(R, C, r, ty, [g], rule, m_, ts, dtype), ret=ret) for m_ in MODES3]
            yield {'kind': 'values/%s' % kind, 'calls': calls}
    # -- round 5 (bigr: see _gen_bigr / generate) ------------------------------------------------------------------
    # floatret: integer automata, content-only rules returning NON-integral floats (q + frac / -(q) - frac): every mode
    # must apply the same (truncating) cast
    n_fr = 20 if tier == 'quick' else 200
    for i in range(n_fr):
        for neg in (False, True):
            R, C = rng.choice([(2, 3), (3, 3), (3, 4), (4, 4), (5, 3), (1, 4)])
            r = rng.randint(0, min(R, C, 2))
            ty = rng.choice(['moore', 'vn'])
            k = rng.choice([3, 4, 5])
            dtype = rng.choice(['int64', 'int32', 'int8'] if neg else ['int64', 'int32', 'uint8'])
            rule = _lin(rng, r, k)
            fret = {'frac': rng.choice([0.5, 0.5, 0.75, 0.25]), 'neg': neg, 'np': rng.random() < 0.4}
            g = _grid(rng, R, C, rng.choice(STYLES), k)
            if neg:
                g = [[-x if rng.random() < 0.5 else x for x in row] for row in g]
            ts = rng.choice([{'fixed': 2}, {'fixed': 3}, {'fixed': 4}, {'lt': 3}])
            calls = [dict(_call(R, C, r, ty, [g], rule, m_, ts, dtype), fret=fret) for m_ in MODES3]
            yield {'kind': 'floatret/%s/frac=%s' % ('neg' if neg else 'pos', fret['frac']), 'neg': neg, 'calls': calls}
    # dress: the rule callable (and the timesteps predicate) handed over in every shape of twins.RULE_DRESSINGS; the
    # dressing is the outermost wrapper and changes no behaviour; the Coq side ignores it
    reps = 2 if tier == 'quick' else 8
    for di, how in enumerate(twins.RULE_DRESSINGS):
        for j in range(reps):
            for ty in ('moore', 'vn'):
                R, C = rng.choice([(2, 3), (3, 3), (3, 4), (4, 4), (4, 2)])
                r = rng.randint(0, min(R, C, 2))
                k = rng.choice([2, 3])
                dyn = (j + di) % 2 == 1
                ts = rng.choice([{'lt': 3}, {'script': [True, True, False]}, {'ufplt': 4}]) if dyn else {'fixed': rng.choice([2, 3])}
                pd = twins.PRED_DRESSINGS[(di + j) % len(twins.PRED_DRESSINGS)] if dyn else None
                rule = _lin(rng, r, k)
                g = _grid(rng, R, C, rng.choice(STYLES), k)
                calls = [dict(_call(R, C, r, ty, [g], rule, m_, ts), dress=how, pdress=pd) for m_ in MODES3]
                yield {'kind': 'dress/%s/%s/%s' % (how, ty, 'callable' if dyn else 'fixed'), 'calls': calls}
    # layout: the same logical history handed over as a non-C-contiguous array
    n_lay = 6 if tier == 'quick' else 40
    for how in ('fortran', 'transposed', 'negstride'):
        for j in range(n_lay):
            R, C = rng.choice([(2, 3), (3, 4), (4, 3), (4, 4), (5, 2), (1, 4)])
            r = rng.randint(0, min(R, C, 2))
            ty = 'moore' if j % 2 else 'vn'
            k = rng.choice([2, 3])
            H = rng.choice([1, 2, 3])
            hist = [_grid(rng, R, C, 'random', k) for _ in range(H)]
            ts = {'fixed': rng.choice([2, 3])} if j % 3 else {'lt': 3}
            rule = _lin(rng, r, k)
            calls = [dict(_call(R, C, r, ty, hist, rule, m_, ts, rng.choice(['int64', 'int32', 'float64'])), layout=how)
                     for m_ in MODES3]
            yield {'kind': 'layout/%s/%s' % (how, ty), 'calls': calls}
    # -- round 6 ---------------------------------------------------------------------------------------------------
    # reentrant: the rule (or the timesteps callable) itself runs a complete MEMOIZED evolve2d with another rule on the
    # same grid / r / neighbourhood / dtype: nothing cached by the nested call may reach the outer one
    n_re = 8 if tier == 'quick' else 60
    for i in range(n_re):
        for where in ('rule', 'rule', 'pred'):
            R, C = rng.choice([(2, 2), (2, 3), (3, 3), (3, 4), (4, 3)])
            r = rng.randint(0, min(R, C, 1)) if where == 'rule' else rng.randint(0, min(R, C, 2))
            ty = rng.choice(['moore', 'vn'])
            k = rng.choice([2, 3])
            w = (2 * r + 1) ** 2
            ws = [rng.randint(0, 2) for _ in range(w)]
            b1, b2 = rng.sample(range(k), 2)
            rule = {'fam': 'aff', 'ws': ws, 'b': b1, 'm': k} if b1 else {'fam': 'lin', 'ws': ws, 'm': k}
            other = {'fam': 'aff', 'ws': ws, 'b': b2, 'm': k} if b2 else {'fam': 'lin', 'ws': ws, 'm': k}
            g = _grid(rng, R, C, rng.choice(STYLES), k)
            ts = {'lt': rng.randint(2, 4)} if where == 'pred' else rng.choice([{'fixed': 2}, {'fixed': 3}, {'lt': 3}])
            reent = {'where': where, 'memo': 'true' if i % 2 else 'rec_lit', 'rule': other}
            calls = [dict(_call(R, C, r, ty, [g], rule, m_, ts), reent=reent) for m_ in MODES3]
            yield {'kind': 'reentrant/%s/nested=%s/%s' % (where, reent['memo'], ty), 'calls': calls}
    # inplace: pure rules that write into the neighbourhood they were handed (InPlace, twins.Scribble)
    n_ip = 8 if tier == 'quick' else 50
    for i in range(n_ip):
        for how in ('blank_data', 'blank_ma', 'sortsum', 'scribble0', 'scribble77'):
            for ty in ('moore', 'vn'):
                if how == 'sortsum' and ty == 'vn':
                    continue
                R, C = rng.choice([(3, 3), (3, 4), (4, 4), (5, 4), (6, 6), (5, 5), (4, 6)])
                r = rng.randint(1 if how.startswith('blank') else 0, min(R, C, 2))
                k = rng.choice([2, 2, 3])
                if how.startswith('blank') and i % 4:
                    r, k = 1, 2              # small windows over two states: blanked contents recur as real contents
                wd = 2 * r + 1
                unm = [(a, b) for a in range(wd) for b in range(wd) if ty == 'moore' or abs(a - r) + abs(b - r) <= r]
                ws = [1] * len(unm) if how == 'sortsum' else [rng.randint(0, 2) for _ in unm]
                if how.startswith('blank'):
                    ws[unm.index((r, r))] = rng.randint(1, k - 1)       # the (blanked) centre always counts
                rule = {'fam': 'lin', 'ws': ws, 'm': k}
                if how == 'scribble0' and rng.random() < 0.7:
                    rule = {'fam': 'aff', 'ws': ws, 'b': rng.randint(1, k - 1), 'm': k}
                g = _grid(rng, R, C, rng.choice(['random', 'random', 'sparse', 'checker', 'rowstripes']), k)
                ts = rng.choice([{'fixed': 4}, {'fixed': 5}, {'fixed': 6}, {'lt': 5}])
                calls = [dict(_call(R, C, r, ty, [g], rule, m_, ts, rng.choice(['int64', 'int32'])), inplace=how)
                         for m_ in MODES3]
                yield {'kind': 'inplace/%s/%s' % (how, ty), 'calls': calls}
    # retview: the rule returns an entry of its block as a zero-dimensional VIEW of the argument (twins.ProjView2);
    # model = one-hot Lin with a modulus above every state
    n_rv = 12 if tier == 'quick' else 80
    for i in range(n_rv):
        R, C = rng.choice([(2, 3), (3, 3), (3, 4), (4, 4), (5, 3)])
        r = rng.randint(0, min(R, C, 2))
        ty = 'vn' if i % 2 else 'moore'
        wd = 2 * r + 1
        unm = [(a, b) for a in range(wd) for b in range(wd) if ty == 'moore' or abs(a - r) + abs(b - r) <= r]
        pi, pj = rng.choice(unm)
        ws = [1 if ab == (pi, pj) else 0 for ab in unm]
        rule = {'fam': 'lin', 'ws': ws, 'm': 1000}
        g = [[rng.randint(0, 9) for _ in range(C)] for _ in range(R)]
        ts = rng.choice([{'fixed': 2}, {'fixed': 3}, {'fixed': 4}, {'lt': 3}])
        calls = [dict(_call(R, C, r, ty, [g], rule, m_, ts, rng.choice(['int64', 'int32', 'uint8'])), projview=[pi, pj])
                 for m_ in MODES3]
        yield {'kind': 'retview/%s' % ty, 'calls': calls}
    # callform: evolve2d called with its arguments positionally, by keyword, mixed (twins.invoke)
    for npos in range(0, 7):
        for j in range(2 if tier == 'quick' else 10):
            R, C = rng.choice([(2, 3), (3, 3), (3, 4), (4, 2)])
            r = rng.randint(0, min(R, C, 2))
            ty = rng.choice(['moore', 'vn'])
            k = rng.choice([2, 3])
            ts = rng.choice([{'fixed': 3}, {'lt': 3}])
            rule = _lin(rng, r, k)
            g = _grid(rng, R, C, rng.choice(STYLES), k)
            calls = [dict(_call(R, C, r, ty, [g], rule, m_, ts), npos=npos) for m_ in MODES3]
            yield {'kind': 'callform/npos=%d' % npos, 'calls': calls}
    # -- random larger shapes (not only powers of two), small radii
    n_rand = 60 if tier == 'quick' else 1200
    for _ in range(n_rand):
        R, C = rng.randint(1, 9), rng.randint(1, 9)
        r = rng.randint(0, min(R, C, 2))
        k = rng.choice([2, 3])
        yield {'kind': 'random/<=9x9', 'calls': _triple(rng, R, C, r, rng.choice(['moore', 'vn']), rng.choice(STYLES), k,
                                                       _ts(rng), H=rng.choice([1, 2]))}


def _gen_bigr(rng, tier):
    """windows of more than 1000 cells (r = 16, 17: 33x33 / 35x35; the domain r <= min(R, C) needs R, C >= 16; the window
    wraps around the torus twice), rule with distinct weights so that neighbourhoods are told apart; T = 2.
    Coq cost of one 16x16 call: False 2 s, True 6.5 s, 'recursive' 16 s — so in the quick tier only one process runs
    all three modes, the others False + True (True is where the key of a big window is formed)."""
    bigs = [(16, 16, 16, 'vn', {'fixed': 2}, MODES3), (16, 18, 16, 'vn', {'fixed': 2}, MODES3[:2]),
            (17, 17, 17, 'vn', {'fixed': 2}, MODES3[:2]), (18, 17, 16, 'vn', {'lt': 2}, MODES3[:2]),
            (17, 16, 16, 'moore', {'fixed': 2}, MODES3[:2]), (17, 17, 17, 'moore', {'fixed': 2}, ['false', 'rec_lit'])]
    if tier != 'quick':
        bigs = [(R_, C_, r_, ty_, ts_, MODES3) for (R_, C_, r_, ty_, ts_, _) in bigs]
        bigs += [(R_, C_, r_, ty_, {'fixed': 3}, MODES3) for (R_, C_, r_, ty_, _, _) in bigs] + [(20, 19, 17, 'vn', {'fixed': 2}, MODES3)]
    for R, C, r, ty, ts, modes in bigs:
        w = (2 * r + 1) ** 2
        rule = {'fam': 'lin', 'ws': [rng.randint(1, 6) for _ in range(w)], 'm': 7}
        g = [[rng.randint(0, 2) for _ in range(C)] for _ in range(R)]
        yield {'kind': 'bigr/%s/r=%d' % (ty, r), 'calls': [_call(R, C, r, ty, [g], rule, m_, ts) for m_ in modes]}


def generate(rng, tier):
    """the bigr processes are expensive for Coq: they are spread over the stream so that they land in different shards"""
    import random
    big = list(_gen_bigr(random.Random(rng.getrandbits(32)), tier))
    for i, c in enumerate(_generate_main(rng, tier)):
        if big and i % 230 == 100:
            yield big.pop(0)
        yield c
    yield from big


def _timesteps(ts, pdress=None, nested=None):
    import cellpylib as cpl
    if 'fixed' in ts:
        return ts['fixed']
    if nested is not None:
        return twins.dress_pred(ReentPred(PredLt(ts['lt']), nested), pdress)
    if 'lt' in ts:
        return twins.dress_pred(PredLt(ts['lt']), pdress)
    if 'script' in ts:
        return twins.dress_pred(PredScript(list(ts['script'])), pdress)
    k = ts['ufplt']
    ufp = cpl.until_fixed_point()
    return twins.dress_pred(lambda history_arg, count_arg: count_arg < k and ufp(history_arg, count_arg), pdress)


def _grids(out):
    out = np.asarray(out)
    return [[[int(x) for x in row] for row in g] for g in out.tolist()]


def _run_one(cpl, c, memo_value, rule=None):
    ca = _layout(np.array(c['hist'], dtype=np.dtype(c['dtype'])), c.get('layout'))
    handed = rule
    if rule is None:
        rule, handed = _build_rule(c)
    n0 = rule.n
    nb = 'Moore' if c['ty'] == 'moore' else 'von Neumann'
    nested = _nested(c) if c.get('reent') and c['reent']['where'] == 'pred' else None
    names = ['cellular_automaton', 'timesteps', 'apply_rule', 'r', 'neighbourhood', 'memoize']
    values = [ca, _timesteps(c['ts'], c.get('pdress'), nested), handed, c['r'], nb, memo_value]
    res = call_impl(lambda: twins.invoke(cpl.evolve2d, names, values, c.get('npos', 0)))
    if res[0] != 'ok':
        return list(res), rule.n - n0
    return ['ok', _grids(res[1])], rule.n - n0


def run_impl(case):
    import cellpylib as cpl
    obs = []
    # 'share_rule': the very same callable object is passed to every call of the process (as a user who defines
    # one rule and evolves several automata with it does); the reference runs below use fresh objects
    shared = Counting(make_rule(case['calls'][0]['rule'], dim=2)) if case.get('share_rule') else None
    for c in case['calls']:
        res, n = _run_one(cpl, c, OPTIONS[c['memo']][0](), shared)
        o = {'res': res, 'entries': n}
        if c['memo'] in MEMOIZED_ALL:
            ref, nref = _run_one(cpl, c, False)          # the property's reference: the unmemoized evolution
            o['plain'] = ref
            o['plain_entries'] = nref
            if res[0] == 'ok':
                STATS['memo_calls'] += 1
                STATS['memo_rule_entries'] += n
                STATS['memo_cells'] += nref
        obs.append(o)
    return obs


def _cts(ts):
    if 'fixed' in ts:
        return '(TFixed %s)' % cnat(ts['fixed'])
    if 'lt' in ts:
        return '(TLt %s)' % cnat(ts['lt'])
    if 'script' in ts:
        return '(TScript %s)' % clist(ts['script'], cbool)
    return '(TUntilFixedLt %s)' % cnat(ts['ufplt'])


def _ccall(c):
    return '(mkCall2 %s %s %s %s %s %s)' % (coq_rule_spec(c['rule']), OPTIONS[c['memo']][1], cnat(c['r']),
                                            'Moore' if c['ty'] == 'moore' else 'VonNeumann', chist(c['hist']), _cts(c['ts']))


def to_coq(case, obs):
    return '(%s %s %s)' % ('CProcNeg' if case.get('neg') else 'CProc', clist(case['calls'], _ccall),
                          clist([o['res'] for o in obs], lambda r: cres(r, chist)))


def nontrivial(case, obs):
    return any(c['memo'] in MEMOIZED_ALL and o['res'][0] == 'ok' and o['entries'] < o.get('plain_entries', 0)
               for c, o in zip(case['calls'], obs))


def oracle(case, obs):
    """The property itself on the implementation: a memoized call returns what the unmemoized call returns;
    an option equal to "recursive" / True / False is accepted."""
    for i, (c, o) in enumerate(zip(case['calls'], obs)):
        if c['memo'] in MEMOIZED_ALL:
            if o['res'][0] != 'ok':
                if o['plain'][0] == 'ok':
                    return 'call %d: memoize=%r raised %s where memoize=False returns an array' % (
                        i, OPTIONS[c['memo']][0](), o['res'][1])
            elif o['plain'][0] != 'ok':
                return 'call %d: memoize=False raised %s where memoize=%r returns an array' % (
                    i, o['plain'][1], OPTIONS[c['memo']][0]())
            elif o['res'][1] != o['plain'][1]:
                return 'call %d: memoize=%r returns an array different from memoize=False (R=%d C=%d r=%d %s)' % (
                    i, OPTIONS[c['memo']][0](), c['R'], c['C'], c['r'], c['ty'])
    return None


def extra_checks(ctx):
    if STATS['memo_cells']:
        yield {'info': True, 'what': 'cache hit rate over the memoized calls of this run: %d rule entries for %d cell updates '
               '(%.1f%% of the updates were served from a cache) in %d calls' % (
                   STATS['memo_rule_entries'], STATS['memo_cells'],
                   100.0 * (1 - STATS['memo_rule_entries'] / STATS['memo_cells']), STATS['memo_calls'])}


def shrink(case):
    calls = case['calls']
    if len(calls) > 1:
        for i in range(len(calls)):
            yield dict(case, calls=[calls[i]])
        yield dict(case, calls=calls[1:])
        yield dict(case, calls=calls[:-1])
    for i, c in enumerate(calls):
        def sub(**kw):
            return dict(case, calls=calls[:i] + [dict(c, **kw)] + calls[i + 1:])
        if len(c['hist']) > 1:
            yield sub(hist=c['hist'][-1:])
        if 'fixed' not in c['ts']:
            yield sub(ts={'fixed': 3})
        elif c['ts']['fixed'] > 2:
            yield sub(ts={'fixed': c['ts']['fixed'] - 1})
        if c['dtype'] != 'int64':
            yield sub(dtype='int64')
        if c.get('dress') or c.get('pdress'):
            yield sub(dress=None, pdress=None)
        if c.get('layout'):
            yield sub(layout=None)
        if any(w != 1 for w in c['rule']['ws']) and not case.get('share_rule'):
            yield sub(rule=dict(c['rule'], ws=[1] * len(c['rule']['ws'])))


# ------------------------------------------------------------------ source tie (appended; harness/translate.py)
# pre(): regenerate coq/gen/GenFuns_C04.v from the Python source of the tree under test and, if it changed, re-prove
# GenProps/GenFunsEquivC04.v, GenProps/C04Src.v and Properties/C04.v (theorem C04_source_tie) by hand.
# extra_checks(): report a failed translation / equivalence proof (theorem names, translator or coqc error).
from harness import translate as _translate
_prev_pre = globals().get('pre')
_prev_extra_checks = globals().get('extra_checks')
TRUSTED = list(globals().get('TRUSTED', [])) + [_translate.TRUSTED_NOTE]
NOTES = list(globals().get('NOTES', [])) + [
    'coq/gen/GenFuns_C04.v is regenerated from the Python source at the start of every run; theorem C04_source_tie '
    'proves the regenerated definitions equal to the hand-written model for all inputs']


def pre(ctx):
    if _prev_pre is not None:
        _prev_pre(ctx)
    _translate.pre_hook(ctx, 'C04')


def extra_checks(ctx):
    out = list(_prev_extra_checks(ctx)) if _prev_extra_checks is not None else []
    return out + _translate.extra_hook(ctx, 'C04')
