"""C13 — ReversibleRule is second-order, time-reversible, and does not alias its input:
correspondence generators and runners.

A 'run' case is the documented call pattern on the real library:
    rule = cpl.ReversibleRule(init_state, R); out = cpl.evolve(ca, T, rule, r=1)
with init_state passed in one of the ways named by `way`:
    'list'      a Python list (a separate object)              -> Coq: ArgList 1
    'array'     a fresh np.array (a separate object)           -> Coq: ArgArray 1
    'view'      ca[row], a row VIEW of the automaton evolved   -> Coq: ArgView 0 row
    'viewother' other[row], a row view of another 2D array     -> Coq: ArgView 1 row
Observed: the returned array and every object the caller holds, after the call.
A 'retrace' case runs forward T steps and then backward from the last two rows.
"""
import itertools
import numpy as np
from harness.driver import call_impl, cnat, cN, czlist, cgrid, clist, cres

ID = 'C13'
COQ_IMPORTS = 'From CPL Require Import Model.Base Model.Reversible Corr.C13.\nOpen Scope Z_scope.'
NONTRIVIAL_RULE = ('non-trivial = the call returned and made at least one step (T >= 2); distinct = distinct case '
                   'dicts. Sweep: all 256 rules x every binary (prev, init) pair on rings N <= 3 (quick) / N <= 4 '
                   '(thorough), ways of passing init_state rotated over list / array / row view, plus the documented '
                   'pattern ReversibleRule(ca[0], R); evolve(ca, ..) for every rule and every state N <= 3 (4); '
                   'random N <= 30 with histories; forward-then-backward runs')
EXHAUSTIVE = {'quick': False, 'thorough': False}
NOTES = ['exhaustive over (rule, prev, init) for N <= 3 in the quick tier and N <= 4 in the thorough tier at one fixed '
         'T; rings N = 5, 6 and N <= 30 are sampled; T is sampled']
ASSUMPTIONS = ['states are 0/1 ints in int64 automata (the property speaks of binary states; the theorems hold for '
               'arbitrary integers with ^ = Z.lxor)',
               'r = 1, R < 256, len(init_state) = number of cells: outside this domain the real code raises or '
               'ignores surplus entries; the model has the error branches but they are not compared',
               'memoize=False, integer timesteps']


def _bits(N):
    return [list(p) for p in itertools.product((0, 1), repeat=N)]


def _run(kind, ca, way, R, T, prev=None, row=0, other=None):
    c = {'kind': kind, 'op': 'run', 'ca': ca, 'way': way, 'R': R, 'T': T}
    if way in ('list', 'array'):
        c['prev'] = prev
    else:
        c['row'] = row
    if way == 'viewother':
        c['other'] = other
    return c


def generate(rng, tier):
    thorough = tier == 'thorough'
    nmax = 4 if thorough else 3
    T_sweep = 5 if thorough else 4
    ways3 = ('list', 'array', 'view')
    # ---- every rule x every (prev, init) on small rings; the way of passing init_state rotates
    i = 0
    for N in range(1, nmax + 1):
        states = _bits(N)
        for R in range(256):
            for prev in states:
                for init in states:
                    way = ways3[i % 3]
                    i += 1
                    if way == 'view':
                        # ca = [prev, init]: init_state = ca[0] is a view of the automaton that is evolved
                        yield _run('sweep/N%d/view_hist' % N, [prev, init], 'view', R, T_sweep, row=0)
                    else:
                        yield _run('sweep/N%d/%s' % (N, way), [init], way, R, T_sweep, prev=prev)
    # ---- the documented pattern: ReversibleRule(ca[0], R); evolve(ca, T): every rule, every state
    for N in range(1, nmax + 1):
        for R in range(256):
            for init in _bits(N):
                yield _run('documented/N%d' % N, [init], 'view', R, T_sweep, row=0)
    # ---- every way for all rules on N <= 2, T = 1, 2, 3 (T = 1: no rule call at all)
    for N in (1, 2):
        states = _bits(N)
        for R in range(0, 256, 3 if thorough else 17):
            for prev in states:
                for init in states:
                    for T in (1, 2, 3):
                        yield _run('ways/list', [init], 'list', R, T, prev=prev)
                        yield _run('ways/array', [init], 'array', R, T, prev=prev)
                        yield _run('ways/view_hist', [prev, init], 'view', R, T, row=0)
                        yield _run('ways/viewother', [init], 'viewother', R, T, row=1, other=[init, prev])
    # ---- N = 5, 6: all rules, sampled states
    for N in (5, 6):
        for R in range(256):
            for _ in range(4 if thorough else 1):
                prev = [rng.randint(0, 1) for _ in range(N)]
                init = [rng.randint(0, 1) for _ in range(N)]
                way = rng.choice(ways3)
                T = rng.randint(3, 7)
                if way == 'view':
                    yield _run('rules/N%d/view_hist' % N, [prev, init], 'view', R, T, row=0)
                else:
                    yield _run('rules/N%d/%s' % (N, way), [init], way, R, T, prev=prev)
    # ---- random larger rings, histories, all ways incl. ca[-1] of a longer history
    for _ in range(4000 if thorough else 500):
        N = rng.randint(1, 30)
        H = rng.choice([1, 1, 2, 3, 4])
        T = rng.choice([1, 2, 3, rng.randint(2, 12)])
        R = rng.choice([30, 37, 90, 150, 214, rng.randrange(256), rng.randrange(256)])
        ca = [[rng.randint(0, 1) for _ in range(N)] for _ in range(H)]
        prev = [rng.randint(0, 1) for _ in range(N)]
        way = rng.choice(['list', 'array', 'view0', 'viewlast', 'viewany', 'viewother'])
        if way in ('list', 'array'):
            yield _run('random/%s' % way, ca, way, R, T, prev=prev)
        elif way == 'view0':
            yield _run('random/view_row0', ca, 'view', R, T, row=0)
        elif way == 'viewlast':
            yield _run('random/view_last', ca, 'view', R, T, row=H - 1)
        elif way == 'viewany':
            yield _run('random/view_any', ca, 'view', R, T, row=rng.randrange(H))
        else:
            other = [[rng.randint(0, 1) for _ in range(N)] for _ in range(rng.randint(1, 3))]
            yield _run('random/viewother', ca, 'viewother', R, T, row=rng.randrange(len(other)), other=other)
    # ---- forward then backward
    for N in ((1, 2, 3) if thorough else (1, 2)):
        states = _bits(N)
        for R in range(256):
            for prev in states:
                for init in states:
                    yield {'kind': 'retrace/sweep/N%d' % N, 'op': 'retrace', 'prev': prev, 'init': init, 'R': R, 'T': 5}
    for _ in range(2000 if thorough else 300):
        N = rng.randint(1, 16)
        yield {'kind': 'retrace/random', 'op': 'retrace',
               'prev': [rng.randint(0, 1) for _ in range(N)], 'init': [rng.randint(0, 1) for _ in range(N)],
               'R': rng.choice([30, 90, 150, 37, rng.randrange(256), rng.randrange(256)]),
               'T': rng.choice([2, 3, rng.randint(2, 10)])}


def _ints(rows):
    return [[int(x) for x in row] for row in rows]


def run_impl(c):
    import cellpylib as cpl
    R, T = c['R'], c['T']
    if c['op'] == 'retrace':
        def go():
            prev = list(c['prev'])
            out1 = cpl.evolve(np.array([c['init']]), T, cpl.ReversibleRule(prev, R), r=1)
            out1l = _ints(out1.tolist())
            out2 = cpl.evolve(np.array([out1l[-2]]), T, cpl.ReversibleRule(np.array(out1l[-1]), R), r=1)
            return [out1l, _ints(out2.tolist())]
        return list(call_impl(go))

    def go():
        ca = np.array(c['ca'])
        way = c['way']
        if way == 'list':
            obj = list(c['prev'])
            init_state = obj
        elif way == 'array':
            obj = np.array(c['prev'])
            init_state = obj
        elif way == 'view':
            obj = None
            init_state = ca[c['row']]
        else:
            obj = np.array(c['other'])
            init_state = obj[c['row']]
        rule = cpl.ReversibleRule(init_state, R)
        out = cpl.evolve(ca, T, rule, r=1)
        after = [_ints(ca.tolist())]
        if way == 'list':
            after.append([[int(x) for x in obj]])
        elif way == 'array':
            after.append([[int(x) for x in obj.tolist()]])
        elif way == 'viewother':
            after.append(_ints(obj.tolist()))
        return [_ints(out.tolist()), after]
    return list(call_impl(go))


def _heap(c):
    h = [c['ca']]
    if c['way'] in ('list', 'array'):
        h.append([c['prev']])
    elif c['way'] == 'viewother':
        h.append(c['other'])
    return h


def _arg(c):
    w = c['way']
    if w == 'list':
        return '(ArgList 1%nat)'
    if w == 'array':
        return '(ArgArray 1%nat)'
    if w == 'view':
        return '(ArgView 0%%nat %s)' % cnat(c['row'])
    return '(ArgView 1%%nat %s)' % cnat(c['row'])


def to_coq(c, obs):
    if c['op'] == 'retrace':
        o = cres(obs, lambda v: '(%s, %s)' % (cgrid(v[0]), cgrid(v[1])))
        return '(CRetrace %s %s %s %s %s)' % (czlist(c['prev']), czlist(c['init']), cN(c['R']), cnat(c['T']), o)
    o = cres(obs, lambda v: '(%s, %s)' % (cgrid(v[0]), clist(v[1], cgrid)))
    return '(CRun %s 0%%nat %s %s %s %s)' % (clist(_heap(c), cgrid), _arg(c), cN(c['R']), cnat(c['T']), o)


def nontrivial(c, obs):
    return obs[0] == 'ok' and c['T'] >= 2


def _f(R, s):
    """the elementary rule R on the ring, straight from the NKS definition"""
    N = len(s)
    return [(R >> (4 * (1 if s[(i - 1) % N] else 0) + 2 * (1 if s[i] else 0) + (1 if s[(i + 1) % N] else 0))) & 1
            for i in range(N)]


def _prev_of(c):
    if c['way'] in ('list', 'array'):
        return c['prev']
    if c['way'] == 'view':
        return c['ca'][c['row']]
    return c['other'][c['row']]


def oracle(c, obs):
    """The property itself on the implementation's output: prefix intact, caller's objects intact,
    second-order recurrence; for retrace cases: the backward run is the forward run reversed + prev."""
    if obs[0] != 'ok':
        return 'the call raised %s on an input of the domain' % obs[1]
    R, T = c['R'], c['T']
    if c['op'] == 'retrace':
        out1, out2 = obs[1]
        if out2 != out1[:-1][::-1] + [c['prev']]:
            return 'backward run does not retrace the forward run'
        return None
    out, after = obs[1]
    H = len(c['ca'])
    if len(out) != H + T - 1:
        return 'result has %d rows, expected %d' % (len(out), H + T - 1)
    if out[:H] != c['ca']:
        return 'the first %d rows of the result are not the automaton that was given (row 0 = %r)' % (H, out[0])
    if after != _heap(c):
        return "the caller's arrays changed during the call"
    before, cur = _prev_of(c), c['ca'][-1]
    for t in range(1, T):
        nxt = [a ^ b for a, b in zip(_f(R, cur), before)]
        if out[H - 1 + t] != nxt:
            return 'row %d is not f_R(row %d) xor row %d' % (H - 1 + t, H - 2 + t, H - 3 + t)
        before, cur = cur, nxt
    return None


def shrink(c):
    if c['T'] > 2:
        yield dict(c, T=c['T'] - 1)
    if c['R'] not in (90, 150):
        yield dict(c, R=90)
    if c['op'] == 'retrace':
        if len(c['init']) > 1:
            yield dict(c, prev=c['prev'][:-1], init=c['init'][:-1])
        return
    N = len(c['ca'][0])
    if N > 1:
        d = dict(c, ca=[row[:-1] for row in c['ca']])
        if 'prev' in c:
            d['prev'] = c['prev'][:-1]
        if 'other' in c:
            d['other'] = [row[:-1] for row in c['other']]
        yield d
    if len(c['ca']) > 1 and c['way'] != 'view':
        yield dict(c, ca=c['ca'][-1:])


# ------------------------------------------------------------------ source tie (appended; harness/translate.py)
# pre(): regenerate coq/gen/GenFuns.v from the Python source of the tree under test and, if it changed, re-prove
# GenProps/GenFunsEquivC13.v, GenProps/C13Src.v and Properties/C13.v (theorem C13_source_tie) by hand.
# extra_checks(): report a failed translation / equivalence proof (theorem names, translator or coqc error).
from harness import translate as _translate
_prev_pre = globals().get('pre')
_prev_extra_checks = globals().get('extra_checks')
TRUSTED = list(globals().get('TRUSTED', [])) + [_translate.TRUSTED_NOTE]
NOTES = list(globals().get('NOTES', [])) + [
    'coq/gen/GenFuns.v is regenerated from the Python source at the start of every run; theorem C13_source_tie proves '
    'the regenerated definitions equal to the hand-written model for all inputs']


def pre(ctx):
    if _prev_pre is not None:
        _prev_pre(ctx)
    _translate.pre_hook(ctx, 'C13')


def extra_checks(ctx):
    out = list(_prev_extra_checks(ctx)) if _prev_extra_checks is not None else []
    return out + _translate.extra_hook(ctx, 'C13')
