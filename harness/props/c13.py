"""C13 — ReversibleRule is second-order, time-reversible, and does not alias its input:
correspondence generators and runners.

A 'run' case is the documented call pattern on the real library:
    rule = cpl.ReversibleRule(init_state, R); out = cpl.evolve(ca, T, rule, r=1)
with init_state passed in one of the ways named by `way`:
    'list'      a separate Python list or tuple (`pkind`)            -> Coq: ArgList 1
    'array'     a separate fresh np.array of dtype `pkind`           -> Coq: ArgArray 1
    'view'      ca[row], a row VIEW of the automaton evolved         -> Coq: ArgView 0 row
    'viewother' other[row], a row view of another 2D array           -> Coq: ArgView 1 row
`dtype` is the dtype of the automaton (default int64; np.array([[0, 1, ..]]) of Python ints IS int64 here),
`odtype` that of the other array.  Observed: the returned array (or the exception) and every object the
caller holds after the call (also when the call raised).
A 'retrace' case runs forward T steps and then backward from the last two rows.
A 'continue' case evolves T1 steps and then evolves the result T2 more steps with the SAME rule object;
the rule's own previous-state vector is observed after each call.

extra_checks also runs an AST gate on ReversibleRule.__init__ of the tree under test (fail-closed): the
no-alias theorems speak about `mk_reversible`, which allocates a fresh copy by definition; the source line
that must do the same is `self._previous_state = np.array(init_state)`.
"""
import ast
import glob
import itertools
import json
import os
import re
import time
import numpy as np
from harness.driver import call_impl, cnat, cN, cbool, czlist, cgrid, clist, cres

ID = 'C13'
COQ_IMPORTS = 'From CPL Require Import Model.Base Model.Reversible Corr.C13.\nOpen Scope Z_scope.'
NONTRIVIAL_RULE = ('non-trivial = the call returned and made at least one step (T >= 2); distinct = distinct case '
                   'dicts. Sweep: all 256 rules x every binary (prev, init) pair on rings N <= 3 (quick) / N <= 4 '
                   '(thorough), ways of passing init_state rotated over list / array / row view, plus the documented '
                   'pattern ReversibleRule(ca[0], R); evolve(ca, ..) for every rule and every state N <= 3 (4); '
                   'dtype bucket (int64 / int32 / uint8 / bool automata and views of them, list / tuple / arrays of '
                   'those dtypes and float64 as init_state, T >= 3); random N <= 30 with histories; '
                   'forward-then-backward runs; runs continued with the same rule object')
EXHAUSTIVE = {'quick': False, 'thorough': False}
NOTES = ['exhaustive over (rule, prev, init) for N <= 3 in the quick tier and N <= 4 in the thorough tier at one fixed '
         'T; rings N = 5, 6 and N <= 30 are sampled; T is sampled',
         'AST gate on ReversibleRule.__init__ (fail-closed): self._previous_state must be assigned a whitelisted '
         'copying expression of the init_state parameter']
ASSUMPTIONS = ['states are 0/1 values in int64 / int32 / uint8 / bool automata (the property speaks of binary states; '
               'the theorems hold for arbitrary integers with ^ = Z.lxor)',
               'float64 init_state / automata are outside the domain (`^` raises TypeError): there an exception is '
               'accepted, the caller\'s objects must still be intact and a returned array must be the model\'s',
               'r = 1, R < 256, len(init_state) = number of cells: outside this domain the real code raises or '
               'ignores surplus entries; the model has the error branches but they are not compared',
               'memoize=False, integer timesteps',
               'the continue/* bucket reads the private attribute rule._previous_state']

_DT = {'int64': np.int64, 'int32': np.int32, 'int8': np.int8, 'uint8': np.uint8, 'bool': np.bool_, 'float64': np.float64}
# the rule NUMBER as the NumPy scalars that iterating np.arange(256) / an integer array gives ('int' = Python int)
_RT = {'int': int, 'uint8': np.uint8, 'int64': np.int64, 'intp': np.intp, 'uint16': np.uint16, 'int32': np.int32}
# Python-sequence forms of init_state (way 'list'); the unchanged library accepts every one of them
# except floats (`^` raises TypeError -> lenient)
_SEQ = {'list': lambda p: list(p), 'tuple': lambda p: tuple(p),
        'list_npint64': lambda p: [np.int64(x) for x in p], 'list_npuint8': lambda p: [np.uint8(x) for x in p],
        'list_npbool': lambda p: [np.bool_(x) for x in p], 'list_bool': lambda p: [bool(x) for x in p],
        'tuple_npint64': lambda p: tuple(np.int64(x) for x in p), 'list_float': lambda p: [float(x) for x in p]}


def _rule_number(c):
    return _RT[c.get('rtype', 'int')](c['R'])


def _vector(prev, pkind, readonly=False):
    """a separate init_state object of the form `pkind` holding the values `prev`"""
    if pkind in _SEQ:
        return _SEQ[pkind](prev)
    a = np.array(prev, dtype=_DT[pkind])
    if readonly:
        a.flags.writeable = False
    return a


def _bits(N):
    return [list(p) for p in itertools.product((0, 1), repeat=N)]


def _run(kind, ca, way, R, T, prev=None, row=0, other=None, dtype=None, pkind=None, odtype=None, op='run', T2=None):
    c = {'kind': kind, 'op': op, 'ca': ca, 'way': way, 'R': R, 'T': T}
    if way in ('list', 'array'):
        c['prev'] = prev
    else:
        c['row'] = row
    if way == 'viewother':
        c['other'] = other
    if dtype:
        c['dtype'] = dtype
    if pkind:
        c['pkind'] = pkind
    if odtype:
        c['odtype'] = odtype
    if T2 is not None:
        c['T2'] = T2
    return c


def _rand_way(rng, kind, N, R, T, H=None, op='run', T2=None, dtypes=('int64',)):
    """one case with a random way of passing init_state (and random dtypes out of `dtypes`)"""
    H = H or rng.choice([1, 1, 2, 3])
    ca = [[rng.randint(0, 1) for _ in range(N)] for _ in range(H)]
    prev = [rng.randint(0, 1) for _ in range(N)]
    dt = rng.choice(dtypes)
    way = rng.choice(['list', 'tuple', 'array', 'view0', 'viewlast', 'viewany', 'viewother'])
    kw = dict(op=op, T2=T2, dtype=dt)
    if way in ('list', 'tuple'):
        return _run('%s/%s/%s' % (kind, dt, way), ca, 'list', R, T, prev=prev, pkind=way, **kw)
    if way == 'array':
        pk = rng.choice(dtypes)
        return _run('%s/%s/array_%s' % (kind, dt, pk), ca, 'array', R, T, prev=prev, pkind=pk, **kw)
    if way == 'view0':
        return _run('%s/%s/view_row0' % (kind, dt), ca, 'view', R, T, row=0, **kw)
    if way == 'viewlast':
        return _run('%s/%s/view_last' % (kind, dt), ca, 'view', R, T, row=H - 1, **kw)
    if way == 'viewany':
        return _run('%s/%s/view_any' % (kind, dt), ca, 'view', R, T, row=rng.randrange(H), **kw)
    other = [[rng.randint(0, 1) for _ in range(N)] for _ in range(rng.randint(1, 3))]
    od = rng.choice(dtypes)
    return _run('%s/%s/viewother_%s' % (kind, dt, od), ca, 'viewother', R, T, row=rng.randrange(len(other)),
                other=other, odtype=od, **kw)


def generate(rng, tier):
    thorough = tier == 'thorough'
    nmax = 4 if thorough else 3
    T_sweep = 5 if thorough else 4
    ways3 = ('list', 'array', 'view')
    # ---- every rule x every (prev, init) on small rings; the way of passing init_state rotates
    i = 0
    for N in range(1, nmax + 1):
        states = _bits(N)
        for R in range(256):
            for prev in states:
                for init in states:
                    way = ways3[i % 3]
                    i += 1
                    if way == 'view':
                        # ca = [prev, init]: init_state = ca[0] is a view of the automaton that is evolved
                        yield _run('sweep/N%d/view_hist' % N, [prev, init], 'view', R, T_sweep, row=0)
                    else:
                        yield _run('sweep/N%d/%s' % (N, way), [init], way, R, T_sweep, prev=prev)
    # ---- the documented pattern: ReversibleRule(ca[0], R); evolve(ca, T): every rule, every state
    for N in range(1, nmax + 1):
        for R in range(256):
            for init in _bits(N):
                yield _run('documented/N%d' % N, [init], 'view', R, T_sweep, row=0)
    # ---- every way for all rules on N <= 2, T = 1, 2, 3 (T = 1: no rule call at all)
    for N in (1, 2):
        states = _bits(N)
        for R in range(0, 256, 3 if thorough else 17):
            for prev in states:
                for init in states:
                    for T in (1, 2, 3):
                        yield _run('ways/list', [init], 'list', R, T, prev=prev)
                        yield _run('ways/array', [init], 'array', R, T, prev=prev)
                        yield _run('ways/view_hist', [prev, init], 'view', R, T, row=0)
                        yield _run('ways/viewother', [init], 'viewother', R, T, row=1, other=[init, prev])
    # ---- dtypes: int64 / int32 / uint8 / bool automata, views of them, lists, tuples, arrays of those dtypes
    #      (T >= 3 so that a write through an alias becomes visible in row 0 and in the caller's object)
    ints = ('int64', 'int32', 'uint8', 'bool')
    for dt in ints:          # the documented pattern on every integer dtype, all states N <= 3, a few rules
        for N in (1, 2, 3):
            for init in _bits(N):
                for R in (90, 150, 30, rng.randrange(256)):
                    yield _run('dtype/%s/documented' % dt, [init], 'view', R, rng.randint(3, 5), row=0, dtype=dt)
    for _ in range(6000 if thorough else 900):
        yield _rand_way(rng, 'dtype', rng.randint(1, 8), rng.choice([30, 90, 150, 105, rng.randrange(256)]),
                        rng.randint(3, 7), dtypes=ints)
    # float64 init_state / float64 automaton: outside the domain (lenient)
    for _ in range(600 if thorough else 120):
        N = rng.randint(1, 6)
        R = rng.choice([90, 150, rng.randrange(256)])
        T = rng.randint(3, 6)
        prev = [rng.randint(0, 1) for _ in range(N)]
        ca = [[rng.randint(0, 1) for _ in range(N)] for _ in range(rng.choice([1, 2]))]
        pick = rng.randrange(3)
        if pick == 0:
            yield _run('dtype/float64/array', ca, 'array', R, T, prev=prev, pkind='float64')
        elif pick == 1:
            yield _run('dtype/float64/view_row0', ca, 'view', R, T, row=0, dtype='float64')
        else:
            yield _run('dtype/float64/viewother', ca, 'viewother', R, T, row=0, other=[prev], odtype='float64')
    # ---- N = 5, 6: all rules, sampled states
    for N in (5, 6):
        for R in range(256):
            for _ in range(4 if thorough else 1):
                prev = [rng.randint(0, 1) for _ in range(N)]
                init = [rng.randint(0, 1) for _ in range(N)]
                way = rng.choice(ways3)
                T = rng.randint(3, 7)
                if way == 'view':
                    yield _run('rules/N%d/view_hist' % N, [prev, init], 'view', R, T, row=0)
                else:
                    yield _run('rules/N%d/%s' % (N, way), [init], way, R, T, prev=prev)
    # ---- random larger rings, histories, all ways incl. ca[-1] of a longer history
    for _ in range(4000 if thorough else 500):
        yield _rand_way(rng, 'random', rng.randint(1, 30),
                        rng.choice([30, 37, 90, 150, 214, rng.randrange(256), rng.randrange(256)]),
                        rng.choice([1, 2, 3, rng.randint(2, 12)]), H=rng.choice([1, 1, 2, 3, 4]))
    # ---- forward then backward
    for N in ((1, 2, 3) if thorough else (1, 2)):
        states = _bits(N)
        for R in range(256):
            for prev in states:
                for init in states:
                    yield {'kind': 'retrace/sweep/N%d' % N, 'op': 'retrace', 'prev': prev, 'init': init, 'R': R, 'T': 5}
    for _ in range(2000 if thorough else 300):
        N = rng.randint(1, 16)
        yield {'kind': 'retrace/random', 'op': 'retrace',
               'prev': [rng.randint(0, 1) for _ in range(N)], 'init': [rng.randint(0, 1) for _ in range(N)],
               'R': rng.choice([30, 90, 150, 37, rng.randrange(256), rng.randrange(256)]),
               'T': rng.choice([2, 3, rng.randint(2, 10)])}
    # ---- paramtypes: the rule NUMBER as NumPy integer scalars, init_state in every accepted input form
    #      (mirrors what the unchanged library does: all accepted, except float values -> TypeError and a
    #      (1, n) matrix with n >= 2 -> IndexError, which are lenient); every rule number appears in quick
    rtypes = ('uint8', 'int64', 'intp', 'uint16', 'int32')
    forms = [('list', 'list'), ('list', 'tuple'), ('list', 'list_npint64'), ('list', 'list_npuint8'),
             ('list', 'list_npbool'), ('list', 'list_bool'), ('list', 'tuple_npint64'),
             ('array', 'int8'), ('array', 'int64'), ('array', 'uint8'), ('array', 'bool'),
             ('array', 'ro_int64'), ('array', 'ro_uint8'), ('view', 'last'), ('view', 'last_roca'),
             ('view', 'row2d'), ('array', 'float64'), ('list', 'list_float')]
    j = 0
    for rep_ in range(6 if thorough else 1):
        for R in range(256):
            for k in range(2):
                way, form = forms[j % len(forms)]
                rt = rtypes[(j // len(forms) + j) % len(rtypes)]
                j += 1
                N = (1 if rng.random() < 0.6 else rng.randint(2, 5)) if form == 'row2d' else rng.randint(1, 6)
                T = rng.randint(3, 6)
                H = rng.choice([1, 2, 3])
                ca = [[rng.randint(0, 1) for _ in range(N)] for _ in range(H)]
                prev = [rng.randint(0, 1) for _ in range(N)]
                kind = 'paramtypes/run/%s/%s' % (rt, form)
                if way == 'view':
                    c = _run(kind, ca, 'view', R, T, row=H - 1)
                    if form == 'last_roca':
                        c['ca_readonly'] = True
                    if form == 'row2d':
                        c['row2d'] = True
                elif form.startswith('ro_'):
                    c = _run(kind, ca, 'array', R, T, prev=prev, pkind=form[3:])
                    c['readonly'] = True
                else:
                    c = _run(kind, ca, way, R, T, prev=prev, pkind=form)
                c['rtype'] = rt
                yield c
            # forward then backward with the same parameter forms (accepted forms only)
            way, form = forms[(3 * R + rep_) % 13]
            c = {'kind': 'paramtypes/retrace/%s/%s' % (rtypes[R % len(rtypes)], form if R % 4 else 'bview'),
                 'op': 'retrace', 'R': R, 'T': rng.randint(2, 6), 'rtype': rtypes[R % len(rtypes)]}
            N = rng.randint(1, 7)
            c['prev'] = [rng.randint(0, 1) for _ in range(N)]
            c['init'] = [rng.randint(0, 1) for _ in range(N)]
            if R % 4 == 0:
                c['bview'] = True
            elif form.startswith('ro_'):
                c['pkind'], c['readonly'] = form[3:], True
            else:
                c['pkind'] = form
            yield c
    # ---- continue: evolve T1 steps, then T2 more with the SAME rule object; the rule's vector is observed
    for N in (1, 2):
        states = _bits(N)
        for R in range(0, 256, 1 if thorough else 7):
            for prev in states:
                for init in states:
                    T1, T2 = rng.choice([(1, 2), (2, 1), (2, 2), (2, 3), (3, 2), (3, 3)])
                    yield _run('continue/sweep/N%d' % N, [init], 'list', R, T1, prev=prev, op='continue', T2=T2)
    for _ in range(3000 if thorough else 500):
        yield _rand_way(rng, 'continue', rng.randint(1, 12), rng.choice([30, 90, 150, 45, rng.randrange(256)]),
                        rng.randint(1, 6), op='continue', T2=rng.randint(1, 6), dtypes=('int64', 'int64', 'int32', 'bool'))


def _ints(rows):
    return [[int(x) for x in row] for row in rows]


def _vec(v):
    return [int(x) for x in v]


def _setup(c):
    """the caller's objects: (ca, obj or None, init_state)"""
    ca = np.array(c['ca'], dtype=_DT[c.get('dtype', 'int64')])
    if c.get('ca_readonly'):
        ca.flags.writeable = False
    way = c['way']
    if way == 'list':
        obj = _vector(c['prev'], c.get('pkind', 'list'))
        return ca, obj, obj
    if way == 'array':
        obj = _vector(c['prev'], c.get('pkind', 'int64'), c.get('readonly', False))
        return ca, obj, obj
    if way == 'view':
        if c.get('row2d'):          # ca[-1:], a (1, n) row matrix sharing the automaton's memory
            return ca, None, ca[c['row']:c['row'] + 1]
        return ca, None, ca[c['row']]
    obj = np.array(c['other'], dtype=_DT[c.get('odtype', 'int64')])
    return ca, obj, obj[c['row']]


def _after(c, ca, obj):
    after = [_ints(ca.tolist())]
    if c['way'] in ('list', 'array'):
        after.append([_vec(obj)])
    elif c['way'] == 'viewother':
        after.append(_ints(obj.tolist()))
    return after


def run_impl(c):
    import cellpylib as cpl
    R, T = _rule_number(c), c['T']
    if c['op'] == 'retrace':
        pk = c.get('pkind', 'list')

        def go():
            prev = _vector(c['prev'], pk, c.get('readonly', False))
            out1 = cpl.evolve(np.array([c['init']]), T, cpl.ReversibleRule(prev, R), r=1)
            if c.get('bview'):
                # the natural way back: the last two rows of the forward result, as VIEWS of it; the forward
                # result is read off afterwards, so a write through the views shows up in out1
                out2 = cpl.evolve(out1[-2:-1], T, cpl.ReversibleRule(out1[-1], R), r=1)
                return [_ints(out1.tolist()), _ints(out2.tolist())]
            out1l = _ints(out1.tolist())
            prev2 = _vector(out1l[-1], pk if 'pkind' in c else 'int64', c.get('readonly', False))
            out2 = cpl.evolve(np.array([out1l[-2]]), T, cpl.ReversibleRule(prev2, R), r=1)
            return [out1l, _ints(out2.tolist())]
        return list(call_impl(go))

    ca, obj, init_state = _setup(c)
    if c['op'] == 'continue':
        def go():
            rule = cpl.ReversibleRule(init_state, R)
            out1 = cpl.evolve(ca, T, rule, r=1)
            o1, p1 = _ints(out1.tolist()), _vec(rule._previous_state)
            out2 = cpl.evolve(out1, c['T2'], rule, r=1)
            return [[o1, p1], [_ints(out2.tolist()), _vec(rule._previous_state)]]
    else:
        def go():
            rule = cpl.ReversibleRule(init_state, R)
            return _ints(cpl.evolve(ca, T, rule, r=1).tolist())
    r = list(call_impl(go))
    try:
        r.append(_after(c, ca, obj))        # observed also when the call raised
    except Exception:                        # noqa
        r.append([])
    return r


def _heap(c):
    h = [c['ca']]
    if c['way'] in ('list', 'array'):
        h.append([c['prev']])
    elif c['way'] == 'viewother':
        h.append(c['other'])
    return h


def _arg(c):
    w = c['way']
    if w == 'list':
        return '(ArgList 1%nat)'
    if w == 'array':
        return '(ArgArray 1%nat)'
    if w == 'view':
        return '(ArgView 0%%nat %s)' % cnat(c['row'])
    return '(ArgView 1%%nat %s)' % cnat(c['row'])


def _lenient(c):
    # outside the domain on the unchanged library: float values (`^` raises TypeError) and a (1, n) row matrix
    # on a ring of n >= 2 cells (IndexError; a (1, 1) matrix on a one-cell ring IS accepted and is strict)
    return ('float64' in (c.get('dtype'), c.get('pkind'), c.get('odtype')) or c.get('pkind') == 'list_float'
            or (bool(c.get('row2d')) and len(c['ca'][0]) >= 2))


def to_coq(c, obs):
    if c['op'] == 'retrace':
        o = cres(obs, lambda v: '(%s, %s)' % (cgrid(v[0]), cgrid(v[1])))
        return '(CRetrace %s %s %s %s %s)' % (czlist(c['prev']), czlist(c['init']), cN(c['R']), cnat(c['T']), o)
    heap, after = clist(_heap(c), cgrid), clist(obs[2], cgrid)
    if c['op'] == 'continue':
        o = cres(obs, lambda v: '((%s, %s), (%s, %s))' % (cgrid(v[0][0]), czlist(v[0][1]), cgrid(v[1][0]), czlist(v[1][1])))
        return '(CContinue %s 0%%nat %s %s %s %s %s %s)' % (heap, _arg(c), cN(c['R']), cnat(c['T']), cnat(c['T2']), o, after)
    return '(CRun %s %s 0%%nat %s %s %s %s %s)' % (cbool(_lenient(c)), heap, _arg(c), cN(c['R']), cnat(c['T']),
                                                  cres(obs, cgrid), after)


def nontrivial(c, obs):
    return obs[0] == 'ok' and c['T'] + c.get('T2', 1) - 1 >= 2


def _f(R, s):
    """the elementary rule R on the ring, straight from the NKS definition"""
    N = len(s)
    return [(R >> (4 * (1 if s[(i - 1) % N] else 0) + 2 * (1 if s[i] else 0) + (1 if s[(i + 1) % N] else 0))) & 1
            for i in range(N)]


def _prev_of(c):
    if c['way'] in ('list', 'array'):
        return c['prev']
    if c['way'] == 'view':
        return c['ca'][c['row']]
    return c['other'][c['row']]


def _seq(c, steps):
    """s_{-1}, s_0, ..., s_steps of the recurrence, computed independently"""
    R = c['R']
    rows = [_prev_of(c), c['ca'][-1]]
    for _ in range(steps):
        rows.append([a ^ b for a, b in zip(_f(R, rows[-1]), rows[-2])])
    return rows


def _check_rows(c, out, T, H, base):
    """out = base (H rows) followed by s_1..s_{T-1}"""
    if len(out) != H + T - 1:
        return 'result has %d rows, expected %d' % (len(out), H + T - 1)
    if out[:H] != base:
        return 'the first %d rows of the result are not the automaton that was given (row 0 = %r)' % (H, out[0])
    return None


def oracle(c, obs):
    """The property itself on the implementation's output: prefix intact, caller's objects intact,
    second-order recurrence; for retrace cases: the backward run is the forward run reversed + prev;
    for continue cases: the two runs with one rule object are one long run."""
    R, T = c['R'], c['T']
    if c['op'] == 'retrace':
        if obs[0] != 'ok':
            return 'the call raised %s on an input of the domain' % obs[1]
        out1, out2 = obs[1]
        if out2 != out1[:-1][::-1] + [c['prev']]:
            return 'backward run does not retrace the forward run'
        return None
    if obs[2] != _heap(c):
        return "the caller's arrays changed during the call"
    if obs[0] != 'ok':
        return None if _lenient(c) else 'the call raised %s on an input of the domain' % obs[1]
    H = len(c['ca'])
    if c['op'] == 'continue':
        (out1, p1), (out2, p2) = obs[1]
        T2 = c['T2']
        s = _seq(c, T + T2 - 2)          # s[k+1] = s_k
        m = _check_rows(c, out1, T, H, c['ca']) or _check_rows(c, out2, T2, len(out1), out1)
        if m:
            return m
        if out2[H - 1:] != s[1:]:
            return 'continuing with the same rule object is not the run of %d steps' % (T + T2 - 1)
        if p1 != s[T - 1] or p2 != s[T + T2 - 2]:
            return "the rule's previous-state vector is not the row before the last one"
        return None
    out = obs[1]
    m = _check_rows(c, out, T, H, c['ca'])
    if m:
        return m
    s = _seq(c, T - 1)
    for t in range(1, T):
        if out[H - 1 + t] != s[t + 1]:
            return 'row %d is not f_R(row %d) xor row %d' % (H - 1 + t, H - 2 + t, H - 3 + t)
    return None


def shrink(c):
    if c['T'] > 2:
        yield dict(c, T=c['T'] - 1)
    if c.get('T2', 1) > 1:
        yield dict(c, T2=c['T2'] - 1)
    if c['R'] not in (90, 150):
        yield dict(c, R=90)
    if c['op'] == 'retrace':
        if len(c['init']) > 1:
            yield dict(c, prev=c['prev'][:-1], init=c['init'][:-1])
        return
    N = len(c['ca'][0])
    if N > 1:
        d = dict(c, ca=[row[:-1] for row in c['ca']])
        if 'prev' in c:
            d['prev'] = c['prev'][:-1]
        if 'other' in c:
            d['other'] = [row[:-1] for row in c['other']]
        yield d
    if len(c['ca']) > 1 and c['way'] != 'view':
        yield dict(c, ca=c['ca'][-1:])


# ------------------------------------------------------------------ AST gate on ReversibleRule.__init__
# The no-alias theorems are about `mk_reversible`, which allocates a fresh copy BY DEFINITION; the source
# line that has to do the same is `self._previous_state = np.array(init_state)`.  The gate parses the tree
# under test and requires every assignment of the attribute `self._previous_state` in class ReversibleRule to
# be one of a small whitelist of expressions that copy the constructor's parameter.  Fail-closed: anything
# else (np.asarray, bare assignment, copy=False, a helper call, a second assignment elsewhere) is a finding.
_gate_t0 = [0.0]


def _is_name(e, name):
    return isinstance(e, ast.Name) and e.id == name


def _is_np(e, fn):
    return (isinstance(e, ast.Attribute) and e.attr == fn and isinstance(e.value, ast.Name)
            and e.value.id in ('np', 'numpy'))


def _copying(e, param):
    """is `e` one of: np.array(param[, dtype=..][, copy=True]) | np.copy(param) | list(param) | param.copy()"""
    if not isinstance(e, ast.Call):
        return False
    kws = {k.arg: k.value for k in e.keywords}
    if None in kws:
        return False
    if _is_np(e.func, 'array'):
        if len(e.args) != 1 or not _is_name(e.args[0], param) or not set(kws) <= {'dtype', 'copy'}:
            return False
        cp = kws.get('copy')
        return cp is None or (isinstance(cp, ast.Constant) and cp.value is True)
    if _is_np(e.func, 'copy') or _is_name(e.func, 'list'):
        return len(e.args) == 1 and _is_name(e.args[0], param) and not kws
    if isinstance(e.func, ast.Attribute) and e.func.attr == 'copy' and _is_name(e.func.value, param):
        return not e.args and not kws
    return False


def ast_gate(repo):
    """None if ReversibleRule.__init__ provably copies init_state; else a description of what was found"""
    path = os.path.join(repo, 'cellpylib', 'ca_functions.py')
    try:
        tree = ast.parse(open(path).read())
    except (OSError, SyntaxError) as e:
        return 'cannot parse %s: %s' % (path, e)
    cls = [n for n in tree.body if isinstance(n, ast.ClassDef) and n.name == 'ReversibleRule']
    if len(cls) != 1:
        return 'class ReversibleRule not found exactly once at module level'
    init = [n for n in cls[0].body if isinstance(n, ast.FunctionDef) and n.name == '__init__']
    if len(init) != 1 or len(init[0].args.args) < 2 or init[0].args.args[0].arg != 'self':
        return 'ReversibleRule.__init__(self, init_state, ...) not found'
    param = init[0].args.args[1].arg

    def targets_attr(t):
        return (isinstance(t, ast.Attribute) and t.attr == '_previous_state' and _is_name(t.value, 'self'))

    found = []
    for fn in ast.walk(cls[0]):
        if isinstance(fn, (ast.Assign, ast.AugAssign, ast.AnnAssign, ast.NamedExpr, ast.Delete, ast.For, ast.With)):
            tg = (fn.targets if isinstance(fn, (ast.Assign, ast.Delete)) else
                  [fn.target] if isinstance(fn, (ast.AugAssign, ast.AnnAssign, ast.NamedExpr, ast.For)) else
                  [i.optional_vars for i in fn.items if i.optional_vars is not None])
            flat = []
            for t in tg:
                flat.extend(t.elts if isinstance(t, (ast.Tuple, ast.List)) else [t])
            if any(targets_attr(t) for t in flat):
                found.append(fn)
    inits = [n for n in ast.walk(init[0]) if n in found]
    if not inits:
        return 'no assignment of self._previous_state in __init__'
    for n in found:
        ok = (isinstance(n, ast.Assign) and len(n.targets) == 1 and targets_attr(n.targets[0])
              and n in inits and _copying(n.value, param))
        if not ok:
            return 'line %d: `%s` is not a whitelisted copy of `%s`' % (n.lineno, ast.unparse(n), param)
    # the parameter must not be rebound before the copy, and setattr/__dict__ tricks are not in the subset
    for n in ast.walk(cls[0]):
        if isinstance(n, ast.Name) and n.id in ('setattr', '__dict__', 'vars', 'object'):
            return 'line %d: `%s` used in class ReversibleRule' % (n.lineno, n.id)
        if isinstance(n, ast.Attribute) and n.attr in ('__dict__', '__setattr__'):
            return 'line %d: `%s` used in class ReversibleRule' % (n.lineno, n.attr)
    for n in ast.walk(init[0]):
        if isinstance(n, ast.Name) and n.id == param and isinstance(n.ctx, (ast.Store, ast.Del)):
            return 'line %d: parameter `%s` is rebound in __init__' % (n.lineno, param)
    return None


def pre(ctx):
    _gate_t0[0] = time.time()


def extra_checks(ctx):
    from harness import driver
    msg = ast_gate(driver.REPO)
    info = {'info': True, 'what': 'AST gate on ReversibleRule.__init__ (self._previous_state must be a copy)',
            'result': msg or 'ok: whitelisted copying expression'}
    if msg is None:
        return [info]
    detail = {'theorems': ['C13_reversible_no_alias', 'C13_no_alias_view_of_row0', 'C13_reversible_frame'],
              'gate': msg,
              'meaning': 'the no-alias theorems speak about mk_reversible (fresh copy); ReversibleRule.__init__ of the '
                         'tree under test no longer assigns a whitelisted copying expression, so the theorems are no '
                         'longer tied to this source line'}
    # replays with a concrete failing input that the correspondence / the oracle wrote in this run
    hit = []
    for p in sorted(glob.glob(os.path.join(driver.VERIF, driver.REPLAY_DIR, 'C13-%d-*.json' % ctx.seed))):
        base = os.path.basename(p)
        if not re.match(r'^C13-\d+-(corr|oracle)\d+\.json$', base) or os.path.getmtime(p) < _gate_t0[0]:
            continue
        try:
            rp = json.load(open(p))
            if rp.get('failing'):          # a 'no-failing-input-found' replay of the correspondence
                continue
            rp['ast_gate'] = detail
            json.dump(rp, open(p, 'w'), indent=1, default=str)
            hit.append(base)
        except (OSError, ValueError):
            pass
    if hit:
        info['gate_failed'] = detail
        info['failing_input_replays'] = hit
        return [info]
    return [info, dict(detail, what='AST gate: ReversibleRule.__init__ does not provably copy init_state: ' + msg,
                       case={}, suffix=' no-failing-input-found')]


# ------------------------------------------------------------------ source tie (appended; harness/translate.py)
# pre(): regenerate coq/gen/GenFuns.v from the Python source of the tree under test and, if it changed, re-prove
# GenProps/GenFunsEquivC13.v, GenProps/C13Src.v and Properties/C13.v (theorem C13_source_tie) by hand.
# extra_checks(): report a failed translation / equivalence proof (theorem names, translator or coqc error).
from harness import translate as _translate
_prev_pre = globals().get('pre')
_prev_extra_checks = globals().get('extra_checks')
TRUSTED = list(globals().get('TRUSTED', [])) + [_translate.TRUSTED_NOTE]
NOTES = list(globals().get('NOTES', [])) + [
    'coq/gen/GenFuns.v is regenerated from the Python source at the start of every run; theorem C13_source_tie proves '
    'the regenerated definitions equal to the hand-written model for all inputs']


def pre(ctx):
    if _prev_pre is not None:
        _prev_pre(ctx)
    _translate.pre_hook(ctx, 'C13')


def extra_checks(ctx):
    out = list(_prev_extra_checks(ctx)) if _prev_extra_checks is not None else []
    return out + _translate.extra_hook(ctx, 'C13')
