#!/venv/bin/python
"""Re-export the CTRBL rule tables of LangtonsLoop, SDSRLoop and Evoloop from the working tree of the
library into coq/gen/GenTables.v (C15, "regenerated data").

    cd /verif && /venv/bin/python harness/gen_tables.py

* the library is imported from $CELLPYLIB_REPO or /repo (put first on sys.path), MPLBACKEND=Agg;
* the *_table definitions come from the public `rule_table` property of freshly constructed objects
  (dict order = insertion order);
* the *_literal definitions are the dict literals as they stand in the source (read from the AST, entries in
  source order, duplicate keys kept), `*_add_rotations` the keyword passed next to them, `sdsr_extra` the
  hand-written `self._rule_table[...] = ...` statements of SDSRLoop.__init__;
* cross-check (also re-done inside Coq by the theorems *_table_is_closure): the rotation closure of the literal,
  plus the hand-written SDSR entries, must be the exported rule_table;
* GenTables.v is written only if its content changed, so `make` does not rebuild needlessly.

`main()` returns a status dict (also written to coq/gen/GenTables.status.json).
"""
import ast
import hashlib
import json
import os
import sys

VERIF = os.path.dirname(os.path.dirname(os.path.abspath(__file__)))
OUT = os.path.join(VERIF, 'coq', 'gen', 'GenTables.v')
STATUS = os.path.join(VERIF, 'coq', 'gen', 'GenTables.status.json')
BAD_VALUE = -1          # stands for a table image that is not an int (None, str, ...) ; outside 0..8 on purpose


def repo_dir():
    return os.environ.get('CELLPYLIB_REPO', '/repo')


def _fresh_cellpylib():
    """Import cellpylib from the repo under test (first on sys.path)."""
    os.environ.setdefault('MPLBACKEND', 'Agg')
    repo = repo_dir()
    if not sys.path or sys.path[0] != repo:
        sys.path.insert(0, repo)
    import cellpylib
    here = os.path.realpath(os.path.dirname(cellpylib.__file__))
    want = os.path.realpath(os.path.join(repo, 'cellpylib'))
    if here != want:
        raise RuntimeError('cellpylib imported from %s, expected %s' % (here, want))
    return cellpylib


# ------------------------------------------------------------------ AST side
def _find_class(tree, name):
    for node in ast.walk(tree):
        if isinstance(node, ast.ClassDef) and node.name == name:
            return node
    return None


def _find_init(cls):
    for node in cls.body:
        if isinstance(node, ast.FunctionDef) and node.name == '__init__':
            return node
    return None


def _is_key_tuple(node):
    return isinstance(node, ast.Tuple) and len(node.elts) == 5


def _dict_items(d):
    """entries of an ast.Dict in source order, duplicates kept; None if it is not a literal table"""
    items = []
    for k, v in zip(d.keys, d.values):
        if k is None or not _is_key_tuple(k):
            return None
        try:
            items.append((tuple(ast.literal_eval(k)), ast.literal_eval(v)))
        except Exception:
            return None
    return items


def literal_of_class(path, clsname):
    """(items, add_rotations) of the table literal handed to CTRBLRule.__init__ in class `clsname`, or None."""
    tree = ast.parse(open(path).read())
    cls = _find_class(tree, clsname)
    if cls is None:
        return None
    init = _find_init(cls)
    scope = init if init is not None else cls
    best = None
    for call in ast.walk(scope):
        if not isinstance(call, ast.Call):
            continue
        cands = [a for a in call.args if isinstance(a, ast.Dict)]
        cands += [kw.value for kw in call.keywords if kw.arg == 'rule_table' and isinstance(kw.value, ast.Dict)]
        for d in cands:
            items = _dict_items(d)
            if items is None or not items:
                continue
            add_rot = False
            for kw in call.keywords:
                if kw.arg == 'add_rotations':
                    try:
                        add_rot = bool(ast.literal_eval(kw.value))
                    except Exception:
                        return None
            # positional add_rotations
            if len(call.args) >= 2 and call.args[0] is d:
                try:
                    add_rot = bool(ast.literal_eval(call.args[1]))
                except Exception:
                    return None
            if best is None or len(items) > len(best[0]):
                best = (items, add_rot)
    return best


def sdsr_extra_of_class(path, clsname='SDSRLoop'):
    """the `self._rule_table[(c,t,r,b,l)] = v` statements of __init__, in order; None if the shape is unknown"""
    tree = ast.parse(open(path).read())
    cls = _find_class(tree, clsname)
    if cls is None:
        return None
    init = _find_init(cls)
    if init is None:
        return None
    out = []
    for st in init.body:
        if isinstance(st, ast.Assign) and len(st.targets) == 1 and isinstance(st.targets[0], ast.Subscript):
            tg = st.targets[0]
            base = tg.value
            if isinstance(base, ast.Attribute) and base.attr == '_rule_table' and _is_key_tuple(tg.slice):
                try:
                    out.append((tuple(ast.literal_eval(tg.slice)), ast.literal_eval(st.value)))
                except Exception:
                    return None
            else:
                return None
        elif isinstance(st, ast.Expr):
            continue        # docstring, super().__init__()
        else:
            return None
    return out


def rot(k):
    c, t, r, b, l = k
    return (c, l, t, r, b)


def closure(items, add_rot):
    """what the property says the constructor builds: dict of the literal, then every quarter-turn of each key"""
    d = {}
    for k, v in items:          # dict-literal semantics: last value wins
        d[k] = v
    out = {}
    for k, v in d.items():
        out[k] = v
        if add_rot:
            kk = k
            for _ in range(3):
                kk = rot(kk)
                out[kk] = v
    return out


# ------------------------------------------------------------------ Coq emitters
def _is_int(x):
    return isinstance(x, int) and not isinstance(x, bool) or (hasattr(x, 'dtype') and 'int' in str(x.dtype) and x.shape == ())


def _z(x):
    x = int(x)
    return '(%d)' % x if x < 0 else '%d' % x


def _entries(items, notes, label):
    out = []
    for k, v in items:
        if not (isinstance(k, tuple) and len(k) == 5 and all(_is_int(x) for x in k)):
            notes.append('%s: key %r is not a 5-tuple of ints; entry left out' % (label, k))
            continue
        if not _is_int(v):
            notes.append('%s: image %r of key %r is not an int; exported as %d' % (label, v, k, BAD_VALUE))
            v = BAD_VALUE
        out.append('(%s)' % ','.join(_z(x) for x in list(k) + [v]))
    return out


def _coq_table(name, items, notes):
    ents = _entries(items, notes, name)
    lines = ['Definition %s : list (Z*Z*Z*Z*Z*Z) := [' % name]
    row = []
    for i, e in enumerate(ents):
        row.append(e + (';' if i + 1 < len(ents) else ''))
        if len(row) == 6:
            lines.append('  ' + ' '.join(row))
            row = []
    if row:
        lines.append('  ' + ' '.join(row))
    lines.append('].')
    return '\n'.join(lines)


def _digest(items):
    return hashlib.sha256(repr(sorted((tuple(int(x) if _is_int(x) else repr(x) for x in k), repr(v))
                                      for k, v in items)).encode()).hexdigest()[:16]


# ------------------------------------------------------------------ main
def build():
    cpl = _fresh_cellpylib()
    repo = repo_dir()
    notes = []
    status = {'repo': repo, 'crosscheck': {}, 'sizes': {}, 'digests': {}, 'notes': notes}

    lang = cpl.LangtonsLoop()
    sdsr = cpl.SDSRLoop()
    evo = cpl.Evoloop()
    tables = {
        'langton': list(lang.rule_table.items()),
        'sdsr': list(sdsr.rule_table.items()),
        'evoloop': list(evo.rule_table.items()),
    }
    for k, v in tables.items():
        status['sizes'][k] = len(v)
        status['digests'][k] = _digest(v)

    src = {n: os.path.join(repo, 'cellpylib', f) for n, f in
           (('langton', 'langtons_loop.py'), ('sdsr', 'sdsr_loop.py'), ('evoloop', 'evoloop.py'))}
    lit = {}
    for name, cls in (('langton', 'LangtonsLoop'), ('evoloop', 'Evoloop')):
        try:
            got = literal_of_class(src[name], cls)
        except Exception as e:      # unreadable source
            got = None
            notes.append('%s: source not parsed (%s)' % (name, type(e).__name__))
        if got is None:
            # the literal is not where we look for it (refactored source): the cross-check is skipped and the
            # "literal" is taken to be the exported table itself, without rotations (closure theorem trivial)
            notes.append('%s: table literal not found in the AST of %s; AST cross-check skipped' % (name, src[name]))
            lit[name] = (tables[name], False, False)
        else:
            lit[name] = (got[0], got[1], True)
    try:
        extra = sdsr_extra_of_class(src['sdsr'])
    except Exception as e:
        extra = None
    sdsr_found = extra is not None and lit['langton'][2]
    if not sdsr_found:
        notes.append('sdsr: hand-written entries not recognised in the AST of %s; AST cross-check skipped' % src['sdsr'])

    # cross-check in Python (independent of the Coq model)
    def diff(a, b):
        keys = sorted(set(a) | set(b), key=repr)
        return [[list(k), a.get(k, 'absent'), b.get(k, 'absent')] for k in keys if a.get(k, 'absent') != b.get(k, 'absent')]
    for name in ('langton', 'evoloop'):
        items, add_rot, found = lit[name]
        if found:
            d = diff(closure(items, add_rot), dict(tables[name]))
            status['crosscheck'][name] = {'ok': not d, 'first_differences': d[:3], 'literal_entries': len(items),
                                          'add_rotations': add_rot}
        else:
            status['crosscheck'][name] = {'ok': None}
    if sdsr_found:
        want = closure(lit['langton'][0], lit['langton'][1])
        for k, v in extra:
            want[k] = v
        d = diff(want, dict(tables['sdsr']))
        status['crosscheck']['sdsr'] = {'ok': not d, 'first_differences': d[:3], 'extra_entries': len(extra)}
        sdsr_base, sdsr_extra, sdsr_rot = lit['langton'][0], extra, lit['langton'][1]
    else:
        status['crosscheck']['sdsr'] = {'ok': None}
        sdsr_base, sdsr_extra, sdsr_rot = tables['sdsr'], [], False

    parts = [
        '(* GENERATED by harness/gen_tables.py from the cellpylib working tree; regenerated on every C15 run.',
        '   Do not edit. Tables: (C,T,R,B,L,image). *_table = public rule_table of a fresh object;',
        '   *_literal = the dict literal in the source (AST, source order, duplicates kept). *)',
        'From Coq Require Import ZArith List.',
        'Import ListNotations.',
        'Local Open Scope Z_scope.',
        '',
        _coq_table('langton_literal', lit['langton'][0], notes),
        'Definition langton_add_rotations : bool := %s.' % ('true' if lit['langton'][1] else 'false'),
        _coq_table('langton_table', tables['langton'], notes),
        '',
        _coq_table('sdsr_base_literal', sdsr_base, notes),
        'Definition sdsr_base_add_rotations : bool := %s.' % ('true' if sdsr_rot else 'false'),
        _coq_table('sdsr_extra', sdsr_extra, notes),
        _coq_table('sdsr_table', tables['sdsr'], notes),
        '',
        _coq_table('evoloop_literal', lit['evoloop'][0], notes),
        'Definition evoloop_add_rotations : bool := %s.' % ('true' if lit['evoloop'][1] else 'false'),
        _coq_table('evoloop_table', tables['evoloop'], notes),
        '',
    ]
    return '\n'.join(parts), status


def main(out=OUT, quiet=False):
    text, status = build()
    os.makedirs(os.path.dirname(out), exist_ok=True)
    old = open(out).read() if os.path.exists(out) else None
    changed = old != text
    if changed:
        tmp = out + '.tmp%d' % os.getpid()
        open(tmp, 'w').write(text)
        os.replace(tmp, out)
    status['changed'] = changed
    status['path'] = out
    try:
        json.dump(status, open(STATUS, 'w'), indent=1, default=str)
    except OSError:
        pass
    if not quiet:
        cc = status['crosscheck']
        print('gen_tables: %s %s (langton %d, sdsr %d, evoloop %d entries; AST cross-check: %s)' % (
            out, 'rewritten' if changed else 'unchanged', status['sizes']['langton'], status['sizes']['sdsr'],
            status['sizes']['evoloop'], ', '.join('%s=%s' % (k, cc[k]['ok']) for k in sorted(cc))))
        for n in status['notes']:
            print('gen_tables: note: ' + n)
    return status


if __name__ == '__main__':
    main()
