"""Regenerates MANIFEST.json from harness/manifest_entries.json (claimed checks) and
properties.jsonl (everything not claimed is listed under not_applicable with its reason)."""
import json, os
HERE = os.path.dirname(os.path.dirname(os.path.abspath(__file__)))
entries = json.load(open(os.path.join(HERE, 'harness', 'manifest_entries.json')))
props = [json.loads(l)['id'] for l in open(os.path.join(HERE, 'properties.jsonl'))]
checks = []
for pid in props:
    e = entries['claimed'].get(pid)
    if not e:
        continue
    checks.append({
        'property_id': pid,
        'quick_cmd': './check %s --tier quick' % pid,
        'thorough_cmd': './check %s --tier thorough' % pid,
        'replay_cmd_template': './check %s --replay {path}' % pid,
        'evidence_file': 'evidence/%s.json' % pid,
        'engine': 'coq-model',
        'level_claimed': {'category': 'proof', 'text': e['text'], 'design_ref': e.get('design_ref', 'DESIGN.md section 6, ' + pid)},
        'level_note': e['note'],
        'technique': e.get('technique', 'machine-checked proof in Coq 8.16 about a hand-written executable Gallina model + per-run correspondence check (model evaluated by vm_compute on the inputs the real code was run on)'),
    })
na = [{'property_id': pid, 'reason': entries['not_applicable'].get(pid, 'not yet covered by a registered check')}
      for pid in props if pid not in entries['claimed']]
m = {
    'version': 1,
    'setup_cmd': './setup.sh clean',
    'hooks': {
        'guard': 'CELLPYLIB_VERIF',
        'enable': 'no instrumentation of /repo is needed: every observable is reachable through the public API (rule / predicate callables are ours, randomness is scripted by patching random / np.random inside the harness process). The guard name is reserved; checks set CELLPYLIB_VERIF=1.',
        'baseline_off_cmd': 'cd /repo && /venv/bin/python -m pytest -ra -q -p no:cacheprovider --timeout=900 --continue-on-collection-errors',
        'source_commits': [],
        'add_only': True,
    },
    'engines': [
        {'name': 'coq-model', 'path': 'coq/', 'serves_properties': [c['property_id'] for c in checks],
         'kind_free_text': 'Coq 8.16.1 development: executable Gallina models (Model/), lemmas (Proofs/), property theorems (Properties/), in-Coq comparison of model and implementation (Corr/)'},
        {'name': 'harness', 'path': 'harness/', 'serves_properties': [c['property_id'] for c in checks],
         'kind_free_text': 'Python: seeded generators, runners of the real cellpylib from /repo, cases_*.v writer, shrinker, replay, evidence'},
    ],
    'checks': checks,
    'notes': entries.get('notes', ''),
    'not_applicable': na,
}
json.dump(m, open(os.path.join(HERE, 'MANIFEST.json'), 'w'), indent=1)
print('MANIFEST.json: %d checks, %d not_applicable' % (len(checks), len(na)))
