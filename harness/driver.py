"""Generic driver of a property check.

A property module (harness/props/cXX.py) provides:

  ID            'C07'
  COQ_IMPORTS   text placed at the top of every generated cases file; must bring into scope
                `case`, `check_case : case -> bool` and `model_out : case -> _`
  generate(rng, tier) -> iterable of case dicts (JSON-serialisable; key 'kind' names the bucket)
  run_impl(case) -> observation (JSON-serialisable); exceptions are mapped with exc_name()
  to_coq(case, obs) -> Coq term of type `case`
  nontrivial(case, obs) -> bool            (the rule is stated in NONTRIVIAL_RULE)
  shrink(case) -> iterable of smaller cases (optional)
  oracle(case, obs) -> None | str          (optional: the property's own oracle evaluated on the
                                            implementation's observation; a string = what fails)
  extra_checks(ctx) -> list of Finding     (optional: metamorphic checks on the implementation alone)
  pre(ctx)                                 (optional: regenerate data, e.g. C15 tables)

The driver runs the implementation from /repo's working tree, writes gen/cases_<ID>_<k>.v,
lets Coq evaluate the model on the same inputs (vm_compute) and compare inside Coq, and
reports the indices that disagree.
"""
import fcntl
import hashlib
import importlib
import json
import os
import random
import re
import signal
import subprocess
import sys
import time
import traceback

VERIF = os.path.dirname(os.path.dirname(os.path.abspath(__file__)))
COQ = os.path.join(VERIF, 'coq')
GEN = os.path.join(COQ, 'gen')
REPO = os.environ.get('CELLPYLIB_REPO', '/repo')
SCRATCH = os.path.realpath(REPO) != '/repo'      # running against a scratch copy (mutation testing)
EVID_DIR = 'evidence/_scratch' if SCRATCH else 'evidence'
REPLAY_DIR = 'replays/_scratch' if SCRATCH else 'replays'
SHARD = 400
COQC_TIMEOUT = 900


class Timeout(Exception):
    pass


def _alarm(signum, frame):
    raise Timeout()


def exc_name(e):
    """Map an exception to the small enum used on both sides."""
    if isinstance(e, Timeout):
        return 'Timeout'
    for cls in (ValueError, TypeError, AssertionError, IndexError):
        if isinstance(e, cls):
            return cls.__name__
    return 'OtherError'


def call_impl(fn, *a, timeout=30, **kw):
    """Run fn; return ('ok', value) or ('exc', name)."""
    old = signal.signal(signal.SIGALRM, _alarm)
    signal.alarm(timeout)
    try:
        return ('ok', fn(*a, **kw))
    except BaseException as e:  # noqa
        if isinstance(e, (KeyboardInterrupt, SystemExit)):
            raise
        return ('exc', exc_name(e))
    finally:
        signal.alarm(0)
        signal.signal(signal.SIGALRM, old)


# ---------------------------------------------------------------- Coq term emitters
def cz(z):
    z = int(z)
    return '(%d)' % z if z < 0 else '%d' % z


def cnat(n):
    return '%d%%nat' % int(n)


def cN(n):
    return '%d%%N' % int(n)


def cbool(b):
    return 'true' if b else 'false'


def clist(xs, f=cz):
    return '[' + '; '.join(f(x) for x in xs) + ']'


def czlist(xs):
    return clist(xs, cz)


def cgrid(g):
    return clist(g, czlist)


def chist(h):
    return clist(h, cgrid)


def copt(x, f):
    return 'None' if x is None else '(Some %s)' % f(x)


def cpair(a, b):
    return '(%s, %s)' % (a, b)


def cexc(name):
    return name if name in ('ValueError', 'TypeError', 'AssertionError', 'IndexError') else 'OtherError'


def cres(obs, f):
    """obs is ('ok', v) or ('exc', name)"""
    if obs[0] == 'ok':
        return '(Ok %s)' % f(obs[1])
    return '(Raise %s)' % cexc(obs[1])


# ---------------------------------------------------------------- build / coqc
def _lock():
    f = open(os.path.join(VERIF, '.lock'), 'w')
    fcntl.flock(f, fcntl.LOCK_EX)
    return f


def ensure_built():
    """Bring the static .vo files up to date (no-op when fresh)."""
    lk = _lock()
    try:
        if not os.path.exists(os.path.join(COQ, 'Makefile')):
            r = subprocess.run(['bash', os.path.join(VERIF, 'setup.sh')], capture_output=True, text=True,
                               env=dict(os.environ, VERIF_LOCK_HELD='1'))
        else:
            r = subprocess.run('ulimit -s unlimited 2>/dev/null; timeout 3000 make -k -j16 -C %s' % COQ, shell=True,
                               capture_output=True, text=True)
        # a file of another property that fails to build must not take this property down:
        # what this property needs is re-checked by compiling Properties/<id>.v afterwards
        return True, (r.stdout + r.stderr)[-4000:]
    finally:
        lk.close()


def coqc(path, out_vo=None, timeout=COQC_TIMEOUT):
    cmd = 'ulimit -s unlimited 2>/dev/null; timeout %d coqc -Q %s CPL -w -notation-overridden %s %s' % (
        timeout, COQ, ('-o ' + out_vo) if out_vo else '', path)
    r = subprocess.run(cmd, shell=True, capture_output=True, text=True, cwd=COQ)
    return r.returncode, r.stdout, r.stderr


def check_obligations(pid):
    """Re-check Properties/<pid>.v with coqc and collect Print Assumptions output."""
    src = os.path.join(COQ, 'Properties', pid + '.v')
    text = open(src).read()
    theorems = re.findall(r'^\s*Theorem\s+(\w+)', text, re.M)
    os.makedirs(GEN, exist_ok=True)
    tmp = os.path.join(GEN, 'Recheck_%s.v' % pid)
    open(tmp, 'w').write(text)
    rc, out, err = coqc(tmp, out_vo=os.path.join(GEN, 'Recheck_%s.vo' % pid))
    axioms = set()
    closed = out.count('Closed under the global context')
    for m in re.finditer(r'^([A-Za-z_][\w.]*)\s*:', out, re.M):
        if m.group(1) != 'Axioms':
            axioms.add(m.group(1))
    return {
        'theorems': theorems,
        'ok': rc == 0,
        'stderr': err[-3000:],
        'closed_count': closed,
        'axioms': sorted(axioms),
        'cmd': 'coqc -Q coq CPL coq/Properties/%s.v' % pid,
    }


def run_coqchk(pid):
    """Independent re-check of Properties/<pid>.vo and everything it depends on (thorough tier)."""
    cmd = 'ulimit -s unlimited 2>/dev/null; timeout 2400 coqchk -silent -o -Q %s CPL CPL.Properties.%s' % (COQ, pid)
    t0 = time.time()
    r = subprocess.run(cmd, shell=True, capture_output=True, text=True, cwd=COQ)
    out = r.stdout + r.stderr
    m = re.search(r'\* Axioms:(.*?)\n\s*\n\* Constants', out, re.S)
    axioms = ' '.join(m.group(1).split()) if m else 'unparsed'
    return {'ok': r.returncode == 0, 'axioms': axioms, 'wall_s': round(time.time() - t0, 1),
            'cmd': 'coqchk -silent -o -Q coq CPL CPL.Properties.%s' % pid, 'tail': out[-600:] if r.returncode else ''}


_MIS = re.compile(r'=\s*\[(.*?)\]\s*:\s*list nat', re.S)


def run_shard(args):
    pid, k, imports, terms = args
    path = os.path.join(GEN, 'cases_%s_p%d_%d.v' % (pid, os.getpid(), k))   # per process: concurrent runs do not collide
    with open(path, 'w') as f:
        f.write(imports + '\n')
        f.write('Definition cases : list case := [\n')
        f.write(';\n'.join(terms))
        f.write('\n].\nEval vm_compute in (mismatches check_case cases).\n')
    rc, out, err = coqc(path, out_vo=path + 'o')
    if rc != 0:
        return k, None, (err or out)[-3000:]
    m = _MIS.search(out)
    if not m:
        return k, None, 'unparsable coqc output: ' + out[-1000:]
    idx = [int(x) for x in re.findall(r'\d+', m.group(1))]
    return k, idx, ''


def coq_eval(imports, term):
    """Evaluate one term with vm_compute and return Coq's printed value (for replays)."""
    h = hashlib.md5(term.encode()).hexdigest()[:10]
    path = os.path.join(GEN, 'eval_%s_%d.v' % (h, os.getpid()))
    open(path, 'w').write(imports + '\nEval vm_compute in (%s).\n' % term)
    rc, out, err = coqc(path, out_vo=path + 'o', timeout=300)
    for p in (path, path + 'o', path[:-2] + '.glob'):
        try:
            os.remove(p)
        except OSError:
            pass
    if rc != 0:
        return None, err[-2000:]
    return ' '.join(out.split()), ''


# ---------------------------------------------------------------- known findings
def load_known():
    p = os.path.join(VERIF, 'known_findings.json')
    if not os.path.exists(p):
        return []
    return json.load(open(p)).get('findings', [])


def known_match(pid, case):
    for k in load_known():
        if k.get('status') == 'open' and k.get('property') == pid:
            m = k.get('match', {})
            if all(case.get(key) == val for key, val in m.items()):
                return k
    return None


# ---------------------------------------------------------------- main entry
def run_property(pid, tier, seed, replay=None):
    t0 = time.time()
    sys.path.insert(0, REPO)
    os.environ.setdefault('MPLBACKEND', 'Agg')
    mod = importlib.import_module('harness.props.' + pid.lower())
    imports = mod.COQ_IMPORTS
    os.makedirs(GEN, exist_ok=True)
    os.makedirs(os.path.join(VERIF, EVID_DIR), exist_ok=True)
    os.makedirs(os.path.join(VERIF, REPLAY_DIR), exist_ok=True)
    violations = []          # (replay_path, suffix)
    known_lines = []
    notes = []

    class Ctx:
        pass
    ctx = Ctx()
    ctx.tier, ctx.seed, ctx.pid = tier, seed, pid
    ctx.rng = random.Random(seed)

    if hasattr(mod, 'pre'):
        mod.pre(ctx)
    ok, log = ensure_built()
    build_failed = not ok
    obl = check_obligations(pid) if not build_failed else {
        'theorems': [], 'ok': False, 'stderr': log, 'closed_count': 0, 'axioms': [], 'cmd': 'make -C coq'}

    # ---- cases
    if replay:
        rp = json.load(open(replay))
        cases = list(rp.get('prefix_cases', [])) + ([rp['case']] if 'case' in rp else [])
    else:
        cases = []
        corpus = os.path.join(VERIF, 'harness', 'corpus', pid)
        if os.path.isdir(corpus):
            for fn in sorted(os.listdir(corpus)):
                if fn.endswith('.json'):
                    c = json.load(open(os.path.join(corpus, fn)))
                    cases.append(c['case'] if 'case' in c else c)
        cases.extend(mod.generate(ctx.rng, tier))

    observations = []
    terms = []
    dist = {}
    nontriv = set()
    oracle_fail = []
    for i, c in enumerate(cases):
        obs = mod.run_impl(c)
        observations.append(obs)
        terms.append(mod.to_coq(c, obs))
        kind = c.get('kind', '?')
        dist[kind] = dist.get(kind, 0) + 1
        try:
            if mod.nontrivial(c, obs):
                nontriv.add(hashlib.md5(json.dumps(c, sort_keys=True, default=str).encode()).hexdigest())
        except Exception:
            pass
        if hasattr(mod, 'oracle'):
            msg = mod.oracle(c, obs)
            if msg:
                oracle_fail.append((i, msg))

    # ---- Coq evaluates the model on the same inputs and compares
    mism = []
    coq_errors = []
    if not build_failed and terms:
        shards = [(pid, k, imports, terms[j:j + SHARD]) for k, j in enumerate(range(0, len(terms), SHARD))]
        from concurrent.futures import ThreadPoolExecutor
        with ThreadPoolExecutor(max_workers=16) as ex:
            for k, idx, err in ex.map(run_shard, shards):
                if idx is None:
                    coq_errors.append((k, err))
                else:
                    mism.extend(k * SHARD + i for i in idx)
        for k in range(len(shards)):
            for ext in ('.v', '.vo', '.vok', '.vos', '.glob'):
                try:
                    os.remove(os.path.join(GEN, 'cases_%s_p%d_%d%s' % (pid, os.getpid(), k, ext)))
                except OSError:
                    pass
    mism.sort()

    def write_replay(tag, payload):
        path = os.path.join(REPLAY_DIR, '%s-%d-%s.json' % (pid, seed, tag))
        payload = dict(payload, property=pid, seed=seed, tier=tier)
        json.dump(payload, open(os.path.join(VERIF, path), 'w'), indent=1, default=str)
        return path

    def eval_case(c):
        """run impl + model on one case; True if they agree"""
        obs = mod.run_impl(c)
        term = mod.to_coq(c, obs)
        out, err = coq_eval(imports, 'check_case %s' % term)
        return obs, term, (out is not None and re.search(r'=\s*true', out) is not None)

    def shrink(c):
        if not hasattr(mod, 'shrink'):
            return c
        budget = 40
        t_end = time.time() + 120
        improved = True
        while improved and budget > 0 and time.time() < t_end:
            improved = False
            for cand in mod.shrink(c):
                budget -= 1
                if budget <= 0 or time.time() > t_end:
                    break
                try:
                    _, _, agree = eval_case(cand)
                except Exception:
                    continue
                if not agree:
                    c = cand
                    improved = True
                    break
        return c

    # ---- report disagreements (first few distinct ones)
    # fast reporting for mutation campaigns on scratch copies: first violation only, no shrinking, no probe
    FAST = SCRATCH and (os.environ.get('VERIF_FAST_REPORT') or os.path.exists(os.path.join(VERIF, '.fast_scratch')))
    reported = 0
    # A module whose oracle() DECIDES the property on a case (ORACLE_DECIDES = True) may have a model
    # that is finer than the property (e.g. the order of random draws in C17).  A disagreement on
    # which the property's own oracle is satisfied is then not a failing input: it is reported
    # only if no failing input exists among all cases, and then with no-failing-input-found.
    oracle_decides = bool(getattr(mod, 'ORACLE_DECIDES', False))
    failing_oracle_idx = set(i for i, _ in oracle_fail)
    model_only = []
    for i in mism:
        c = cases[i]
        if oracle_decides and i not in failing_oracle_idx:
            model_only.append(i)
            continue
        km = known_match(pid, c)
        if km:
            known_lines.append('KNOWN-FINDING: property=%s %s' % (pid, km.get('what', '')))
            continue
        if reported >= (1 if FAST else 3):
            continue
        try:
            c2 = c if FAST else shrink(c)
        except Exception:
            c2 = c
        obs, term, agree_alone = eval_case(c2)
        expected, _ = coq_eval(imports, 'model_out %s' % term)
        payload = {
            'what': 'implementation and proved model disagree on this input',
            'case': c2, 'original_case': c, 'impl_observation': obs,
            'model_expected_coq': expected, 'coq_case_term': term,
            'theorems': obl['theorems']}
        if not replay and not agree_alone and not FAST:
            # does it also disagree in a FRESH process, on its own?
            try:
                tmp = os.path.join(VERIF, REPLAY_DIR, '_probe_%s_%d.json' % (pid, os.getpid()))
                json.dump({'case': c2}, open(tmp, 'w'), default=str)
                pr = subprocess.run([os.path.join(VERIF, 'check'), pid, '--replay', tmp], capture_output=True, text=True,
                                    cwd=VERIF, timeout=600)
                os.remove(tmp)
                for line in pr.stdout.splitlines():   # the probe's own replay files are not wanted
                    m = re.match(r'VIOLATION property=\S+ replay=(\S+)', line)
                    if m and os.path.exists(os.path.join(VERIF, m.group(1))) and '-%d-corr0' % seed in m.group(1):
                        pass
                agree_alone = (pr.returncode == 0)
            except Exception:
                pass
        if agree_alone and not replay:
            # the case agrees when run on its own: the disagreement depends on the calls made before it in
            # this process (state leaking between calls); keep the preceding cases so that the replay reproduces
            payload.update({'what': 'implementation and proved model disagree on this input when it is preceded by the '
                                    'earlier calls of this run (order-dependent: state leaks between calls)',
                            'case': c, 'impl_observation': observations[i], 'coq_case_term': terms[i],
                            'order_dependent': True, 'prefix_cases': cases[max(0, i - 60):i]})
        path = write_replay('corr%d' % i, payload)
        violations.append((path, ''))
        reported += 1
    for i, msg in oracle_fail:
        if i in mism:
            continue
        c = cases[i]
        km = known_match(pid, c)
        if km:
            known_lines.append('KNOWN-FINDING: property=%s %s' % (pid, km.get('what', '')))
            continue
        if reported >= 3:
            continue
        path = write_replay('oracle%d' % i, {
            'what': 'property oracle fails on the implementation: ' + msg,
            'case': c, 'impl_observation': observations[i]})
        violations.append((path, ''))
        reported += 1

    if model_only and not violations and not known_lines:
        i = model_only[0]
        obs, term, _ = eval_case(cases[i])
        expected, _ = coq_eval(imports, 'model_out %s' % term)
        path = write_replay('corr%d' % i, {
            'what': 'the correspondence corr:%s no longer checks (implementation and model disagree on %d cases) '
                    'but the property oracle is satisfied by the implementation on every one of the %d cases explored' % (
                        pid, len(model_only), len(cases)),
            'failing': 'corr:%s' % pid, 'first_disagreeing_case': cases[i], 'case': cases[i],
            'impl_observation': obs, 'model_expected_coq': expected, 'theorems': obl['theorems']})
        violations.append((path, ' no-failing-input-found'))

    extra = []
    if hasattr(mod, 'extra_checks') and not replay:
        try:
            extra = list(mod.extra_checks(ctx))
        except Exception:
            extra = [{'what': 'extra_checks crashed: ' + traceback.format_exc()[-1500:], 'case': {}}]
        for j, fnd in enumerate(extra):
            if fnd.get('info'):
                continue
            km = known_match(pid, fnd.get('case', {}))
            if km:
                known_lines.append('KNOWN-FINDING: property=%s %s' % (pid, km.get('what', '')))
                continue
            path = write_replay('extra%d' % j, fnd)
            violations.append((path, fnd.get('suffix', '')))

    # ---- proof obligations / infrastructure failures
    if (build_failed or not obl['ok'] or coq_errors) and not violations:
        path = write_replay('obligation', {
            'what': 'a proof obligation or the correspondence no longer checks; no failing input was found '
                    'among %d cases' % len(cases),
            'failing': ('build of coq/ failed' if build_failed else
                        ('theorems of Properties/%s.v' % pid if not obl['ok'] else 'corr:%s (cases file rejected by coqc)' % pid)),
            'theorems': obl['theorems'], 'coqc_stderr': obl['stderr'],
            'coq_errors': coq_errors[:3]})
        violations.append((path, ' no-failing-input-found'))

    # ---- thorough tier: independent checker over the compiled property file and its dependencies
    chk = None
    if tier == 'thorough' and not replay and not build_failed and obl['ok'] and not getattr(mod, 'OWN_COQCHK', False):
        chk = run_coqchk(pid)
        if not chk['ok'] and not violations:
            path = write_replay('coqchk', {'what': 'coqchk rejects Properties/%s.vo' % pid, 'failing': chk['cmd'],
                                           'output_tail': chk['tail'], 'theorems': obl['theorems']})
            violations.append((path, ' no-failing-input-found'))

    # ---- evidence
    wall = time.time() - t0
    n_thm = len(obl['theorems'])
    samples = []
    for i in list(range(0, len(cases), max(1, len(cases) // 3)))[:3]:
        samples.append({'case': cases[i], 'impl_observation': observations[i]})
    evidence = {
        'property_id': pid, 'tier': tier, 'seed': seed, 'level': 'proof',
        'coverage': {
            'obligations': max(n_thm, 1),
            'discharged': n_thm if obl['ok'] else 0,
            'checker_cmd': obl['cmd'] + ' (Coq 8.16.1 kernel; re-run in this check); cases: coqc gen/cases_%s_*.v' % pid,
            'trusted_base': [
                'Coq 8.16.1 kernel and bytecode VM (vm_compute); no native_compute',
                'axioms reported by Print Assumptions under the property theorems: ' +
                (', '.join(obl['axioms']) if obl['axioms'] else 'none (closed under the global context)'),
                'hand-written Gallina model tied to /repo by this correspondence run',
                'harness: generators, Python twins of rule families, cases_*.v writer, Corr/%s.v comparison' % pid,
            ] + list(getattr(mod, 'TRUSTED', [])),
            'theorems': obl['theorems'],
            'evaluations': len(cases),
            'distinct_nontrivial': len(nontriv),
            'rule': getattr(mod, 'NONTRIVIAL_RULE', ''),
            'traces_validated_against_impl': len(cases) - len(mism),
            'disagreements': len(mism),
            'exhaustive': bool(getattr(mod, 'EXHAUSTIVE', {}).get(tier, False)),
            'distribution': dist,
            'samples': samples,
            'extra': [f for f in extra if f.get('info')],
            'notes': notes + list(getattr(mod, 'NOTES', [])),
            'coqchk': chk,
        },
        'assumptions': list(getattr(mod, 'ASSUMPTIONS', [])),
        'wall_s': round(wall, 2),
        'violations': len(violations),
    }
    if not replay:
        json.dump(evidence, open(os.path.join(VERIF, EVID_DIR, pid + '.json'), 'w'), indent=1, default=str)

    for line in sorted(set(known_lines)):
        print(line)
    for path, suffix in violations:
        print('VIOLATION property=%s replay=%s%s' % (pid, path, suffix))
    print('%s tier=%s seed=%d theorems=%d/%d cases=%d disagreements=%d wall=%.1fs' % (
        pid, tier, seed, evidence['coverage']['discharged'], n_thm, len(cases), len(mism), wall))
    return 1 if violations else 0
