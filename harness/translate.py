#!/venv/bin/python
"""Fail-closed translator: a small, explicit subset of Python (read with `ast`) -> Gallina text.

    cd /verif && /venv/bin/python harness/translate.py

The second kind of tie between /verif and the library: for the branch-heavy pure functions of cellpylib the
Gallina definition `src_<name>` is REGENERATED FROM THE PYTHON SOURCE of $CELLPYLIB_REPO (or /repo) on every run
into coq/gen/GenFuns_<Cxx>.v, and coq/GenProps/GenFunsEquiv<Cxx>.v proves it equal, for all inputs, to the hand-written
model the property theorems speak about.  A change of the source that alters behaviour then breaks a proof
obligation of the property (theorem Cxx_source_tie), not only the sampled correspondence.

FAIL CLOSED.  Every construct that is not listed below raises TranslationError; nothing is guessed.  A function
whose translation fails is left out of GenFuns.v (a comment records the error), so the theorems about it no longer
compile and the property's obligations fail.

THE SUBSET (values are Z; None is option Z exactly where the source uses it)

  statements   docstring; `x = e` (local name); `x += e`, `x -= e` (x : Z); `if/elif/else`; `return [e]`;
               `raise ValueError(<str> [% names])` (message not modelled);
               `for x in <list/tuple literal | local bound to one>:` with a body that has no return/raise and
                   assigns exactly one local w            ->  let w := fold_left (fun w x => body) [..] w
               `for g in self._grain_additions: if <test>: return <e>` (e does not mention g)
                                                          ->  if existsb (fun g => test) adds then e else <rest>
                   (the loop returns at the first element satisfying the test, and e does not depend on which one
                   it is; elements are _GrainAddition(cell_index, timestep) = ((row, col), timestep), checked
                   against the class and add_grain in the same file; g.cell_index = fst g, g.timestep = snd g)
               `self._previous_state[c] = e`              ->  let st := vec_write st c e   (top level of the body only)
               the dictionary idiom, as the last two statements of a body:
                   `if key not in self._rule_table: BODY` / `return self._rule_table[key]`
                                                          ->  match self_rule_table (k0,..,k4) with
                                                              | None => BODY | Some v => v end
                   (the dict is a partial map key -> option Z: `k in d` <-> Some, `d[k]` = the value); BODY must
                   return or raise on every path; for SDSRLoop / Evoloop BODY becomes a definition of its own
                   over (current_activity, top, right, bottom, left) and may read nothing else.
  an `if` that contains a return is translated with its continuation in both branches; an `if` without one
  becomes  let w := if c then .. else ..  (a tuple pattern for several assigned locals).
  Falling off the end of a function is `None` (the result type is then option Z).

  expressions  int literals, True/False, None; locals; + - * on Z; `^` -> Z.lxor; `% k`, `// k` with k a non-zero
               literal or class constant (Z.modulo / Z.div: floor, sign of the divisor, as Python);
               unary minus; == != < <= > >= on Z, chained comparisons (a op b op c = (a op b) && (b op c));
               == != on cells (pairs); and / or / not on booleans only; `is None`, `is not None` on an option;
               `x in (..)`, `x not in (..)` on a tuple literal of ints or a local bound to one (e.g. trbl);
               `A if C else B`;
               n[i][j], i, j in {0,1,2}, on the 3x3 neighbourhood       ->  src_nb n i j = nth j (nth i n []) 0
               c[0], c[1] on the cell index (a pair)                      ->  fst c, snd c
               self._attr: a constructor parameter stored by `self._attr = <param>` in __init__ and assigned nowhere
               else (becomes a parameter of src_<name>), or a literal int constant assigned once in __init__
               self._method(args) where the method is itself translated   ->  src_<..> <its attributes> args
               np.sum(n) on the 3x3 block                                 ->  zsum (concat n)
               np.any([E for i in (tuple literal)])                       ->  existsb (fun i => E) [..]
               nks_rule(n, self._rule_number)                             ->  the MODEL's nks_rule n R : res Z
               self._previous_state[c] (read)                             ->  vec_read st c (None = IndexError)
               n[len(n) // 2] on the 1D neighbourhood                     ->  nth (length n / 2) n 0
               len(ca) > k  etc.                                          ->  Z.of_nat (length ca)
               ca[-k] on the list of states                               ->  py_get ca (-k) : res C (IndexError)
               (A == B).all() on two states                               ->  cfg_eqb A B
  Operations that can raise (nks_rule, vec_read, py_get) are sequenced with `bind` in source order; they are
  rejected inside short-circuit positions (right operands of and/or, branches of a conditional expression).

EXTENSIONS (second round; each an explicit rule, everything else still raises TranslationError)

  loops        `for x in range(a[, b[, s]])` (s a positive literal), `for i, x in enumerate(seq)`,
               `for x in <list-valued expression>` with a body without return / raise / while
                   ->  let acc := fold_left (fun acc x => body) <list> acc     (acc: the locals assigned in the body that
                   exist before the loop, a tuple pattern for several; locals FIRST assigned in the body are temporaries
                   of one iteration: reading one before its assignment, or after the loop, fails as an unknown name)
                   over  src_range a b = [a; a+1; ..; b-1],  src_range_step a b s,
                   src_enumerate l = combine [0; 1; ..] l  (loop target `i, x` is the lambda pattern '(i, x))
               a loop whose body contains `break` / `continue` or an operation that can raise
                   ->  bind (src_for (fun acc x => body) <list> acc) (fun acc => rest)
                   with body : res (Next acc | Break acc); `break` = Ok (Break acc), end of body / `continue` =
                   Ok (Next acc); src_for stops at the first Break or exception
               `name.append(e)` on a local bound to a list literal  ->  let name := name ++ [e]
               `assert c`  ->  if c then rest else Raise AssertionError
               `if x:` on an int x is  negb (x =? 0)
               an `if` whose branches FIRST assign a local is translated with its continuation in both branches
  expressions  `[e for x in seq]` -> map, `[e for x in seq if c]` -> map over filter (seq: range / enumerate / list)
               slices with bounds syntactically known to be >= 0 (literals, len(..), indices of range / enumerate,
               sums, `// k`): l[:k] = firstn, l[k:] = skipn, l[a:b] = firstn (b - a) (skipn a l); l[::-1] = rev;
               l[:-1] = removelast; `+` on Python lists (literals, comprehensions, slices, locals bound to one) = ++
               `a << b`, `a ** b` with b syntactically >= 0 -> Z.shiftl, Z.pow; abs -> Z.abs; max / min of two
               `a % b`, `a // b` with a divisor that is not a literal -> bind (src_mod a b) / (src_div a b)
                   (ZeroDivisionError modelled as an exception); int(e) on an integer value is e
               l[i] on a list of ints / a binary string / a list of cells -> bind (py_get l i) (negative index and
                   IndexError as Python); len(e) on any list-valued expression
               `f(args)` where f is a translated module-level function of the same file -> src_f args (bind if it
                   can raise)
               C07 idioms: list(map(int, bin(num)[2:])) -> the model's bin_digits num;  np.pad(l, (k, 0), 'constant')
                   -> src_pad_left k l (ValueError for k < 0);  a.dot(b) -> the model's dot;  `scheme == 'nks'` on
                   the scheme tag;  `if powers_of_two is None` / `if isinstance(rule, (list, np.ndarray))` ->
                   match on the tagged argument (None | Some l;  RBits l | RInt n), the name re-bound in each branch
               C18 idioms: a binary string is list bool; string[i] -> py_get; int(ch) the bit; `^` on two such ints
                   -> xorb; ''.join([str(x) for x in bits]) -> the list of bits itself
               `len(n.shape) == k` is decided at translation time from the declared type of n (the dead branch is
                   not translated); n[n.shape[0]//2][n.shape[1]//2] -> the centre of a 2D array (nth, like
                   n[len(n)//2])
  objects      a class whose methods READ AND WRITE attributes (GROUPS): the object is a generated record
               src_<g>_state of the declared fields (+ the number of shuffles drawn, + the state of the wrapped
               rule); `self._x` -> src_<g>_get_x st; `self._x = e`, `self._x += e` -> let st := src_<g>_set_x st ..;
               a method that only reads is  st -> args -> result, one without a return value that writes is
               st -> args -> st, one that writes and returns is  st -> args -> st * result  (in `res` if it can raise);
               `self._m(args)` of a read-only method is an expression, of a writing method a statement;
               `self._apply_rule(n, c, t)` (the wrapped rule, a state machine St -> .. -> St * Z) threads its state
               through the record; `self._shuffle_update_order()` -- whose body must be
               np.random.shuffle(self._update_order) -- is the ORACLE HOOK  st.order := shuffle (st.shuffles) st.order;
               every other writer of an attribute must be on the declared constructor side.

THIRD ROUND (each again an explicit rule)

  fragments    a target with `locate` translates ONE EXPRESSION inside a function as a function of its declared free
               locals (reading any other name fails as unknown).  The locator checks the statement shape around the
               expression and raises otherwise (e.g. `C = [<count> / (N - m + 1.0) for x_i in x]`, `if not (<guard>):
               raise ValueError`); facts the fragment relies on are declared and justified by the locator (`positive`:
               temporal_distance > 0 because the guard statement precedes and the name is not re-bound).  A free local
               whose name is a template identifier is renamed py_<name> (N -> py_N).
  nested defs  `nested=[..]`: a closure defined directly in the enclosing function (not re-bound there); its free
               variables must be its parameters; it can be called from fragments of the same enclosing function.
  attributes   `attr_locals`: a method without return value that (re)builds an attribute: `self._W = np.zeros((a, b),
               dtype=..)` -> let self_W := repeat (repeat 0 b) a;  `self._W[i, j] = e`, `self._W[i, j] += e` ->
               bind (src_mat_upd self_W i j f) (NumPy indexing, IndexError); the result of the method is self_W.
               `from .sibling import *` provides np when sibling.py has `import numpy as np` and no __all__.
  expressions  P[0] / l[i] on a list of rows -> py_get;  zip(a, b) -> combine a b (loop / comprehension source);
               max(l) -> bind (src_max_list l) (ValueError when empty);  comprehensions whose condition / element can
               raise -> bind (src_filterm ..) / bind (src_mapm ..) (evaluated in order, first exception wins);
               l[:-d] with d declared > 0 -> firstn (length l - d) l;
               an array seen through its size and sum (ARRVIEW): x.size -> size_of_x, np.sum(x) -> sum_of_x (two
               parameters); natural-number arguments (N) in arithmetic -> Z.of_N;
               C08 idioms: np.base_repr(rule, base=k).zfill(w) -> zfill w (model's base_repr rule k) (ValueError for
               a base outside 2..36), s[i] on the digit string -> py_get, int(ch, k) -> the model's int_base;
               C16 idioms (symbols: any type with decidable equality): dict.fromkeys(list(s)) -> the model's keys,
               s.count(x) -> count_occ, == on symbols -> the decision procedure.

FOURTH ROUND: the engine index code (each again an explicit rule)

  statement    a target with `locate_stmts` translates a RANGE OF CONSECUTIVE STATEMENTS of one block as a function of
  ranges       its declared free locals returning the named locals (`returns`; a tuple for several).  The locator
               returns the statements after checking their surroundings (e.g. that the locals are not re-bound outside
               the range, that the loop body ends with the dict store); no return / raise inside the range.
  slices       l[lo:hi] with a bound that is not syntactically >= 0  ->  src_slice l lo hi: Python's saturating slice
               (a negative bound counts from the end, every bound is clipped to 0..len).  `-window_size // 2 + 1`
               parses as ((-window_size) // 2) + 1 and `//` is Z.div (floor), as in Python.
               X[i][lo:hi] = 0 | 1 | False | True on a local boolean matrix  ->  bind (src_row_upd X i (fun row =>
               src_fill_slice row lo hi v)): Python indexing of the row (IndexError), saturating slice, scalar
               broadcast, the row keeps its length.
  NumPy        np.concatenate((a, b, c)) on 1-D int arrays -> a ++ b ++ c;  np.arange(n) -> src_range 0 n;
               np.zeros((a, b), dtype=bool) -> repeat (repeat false b) a;  np.absolute -> Z.abs;
               a.take(idx, mode='wrap') -> bind (src_take_wrap a idx) (element i mod len(a); IndexError for a
               non-empty take from an empty array);
               the sliding-window idiom, three statements checked syntactically:
                   shape = X.shape[:-1] + (X.shape[-1] - W + 1, W); strides = X.strides + (X.strides[-1],)
                   return np.lib.stride_tricks.as_strided(X, shape=shape, strides=strides)
               on a 1-D X  ->  bind (src_as_strided_windows X W): row i is X[i : i + W], i = 0 .. len(X) - W
               (ValueError for a negative count or width).
  ranges       range(..) as a value / list(range(..)) -> the list it enumerates; range(a, b, s) with s a local declared
               > 0;  a Python local named like a Coq keyword (`end`) is the binder py_end.

FIFTH ROUND: rules added after the false-alarm campaign (behaviour-preserving refactorings must re-prove)

  helpers      `f(args)` where f is a module-level function of the same file that is NOT a declared target (a helper
               extracted from a target): translated on the fly with the parameter types of the call site as an
               auxiliary definition src_h_<f> (positional arguments only, no defaults / decorators / recursion); the
               equivalence proofs unfold these (Hint Unfold .. : src_helpers).  A statement-range fragment may consist
               of the single assignment `X = helper(..)`.
  locators     the fragment locators are structural, not by local name: they find the statements by what they compute
               (`.take(.., mode='wrap')`, `dict.fromkeys(list(string))`, the lists handed to _update_state, the lists
               between which the time loop alternates, ...) and rename the locals they return / the free locals.
  control      `if c: continue` (no else) followed by REST in a loop body  ==  `if not c: REST`;
               bare `return` in a method that writes the object leaves the object as it is;
               `if A and B:` / `if A or B:` where B can raise: the short-circuit is made explicit (nested ifs);
               `if key in self.D: return self.D[key]` followed by REST  ==  the table idiom with REST as the
               `not in` branch (REST must return on every path);
               a loop over a literal tuple of int constants whose body returns is unrolled.
  expressions  `not x` on an int (x == 0);  | and & on ints (Z.lor, Z.land), `x |= e`;
               builtin any([..]) / any(.. for ..) over a boolean comprehension (existsb);
               sum(1 for v in l if c) and sum(c for v in l) with c boolean (the number of elements that satisfy c);
               ''.join(map(str, bits));  [int(d) for d in bin(num)[2:]] (the model's bin_digits);
               np.base_repr(rule, base=k) and .zfill(w) as separate steps;
               binary_rule(n, R, scheme='nks') outside C07 (the model's nks_rule n R);
               `not isinstance(..)` on the tagged rule argument.

SIXTH ROUND

  threaded     a module-level function with a dict parameter it mutates and a rule callable (`threaded=`; used for
  parameters   _get_memoized): translated as a state-passing function  rs_ -> args -> table -> ((rs_', table'), result)
               over an association list; the rule is the generic parameter apply_rule : St -> NB -> cell -> nat -> St * Z
               whose state rs_ is threaded (`apply_rule(n, c, t)` -> let '(rs_, v) := apply_rule rs_ n c t);
               n.tobytes() -> nb_key n, a generic parameter: the TRUSTED abstraction of the cache key (for one dtype and
               one shape, byte equality is equality of the cell values; a MaskedArray is filled before it is serialised);
               `if K in D: A else: B` / `K not in D` / `not K in D` -> match src_dict_lookup K D with Some v => A | None => B;
               D[K] is only translated where its value is known (inside the Some branch: v; after `D[K] = e`: e);
               `D[K] = e` -> src_dict_set K e D (replaces or adds, so that len(D) is the number of entries);
               `X = D.get(K, S); if X is S: A else: B` with S a module-level `object()` sentinel -> the same match.
  constants    NAME = <integer constant expression> at module level, bound exactly once (also through
               `from .sibling import NAME`): its value.
  methods      `self._m(args)` where _m is a method of the same class that is not a declared target and writes nothing:
               translated on the fly like a module-level helper (src_h_<m>, with the attributes of the calling target);
               self._grain_additions may be ITERATED by any method (pure read), only add_grain may change it;
               any(<test> for g in self._grain_additions) -> existsb.
  C17          ''.join(str(x) for x in nb) on a neighbourhood of non-negative ints -> the model's state_repr; a table with
               string keys is the model's association list with its lookup (same membership rules as above).
  names        a local / parameter named like a template identifier (key, table, lookup, state_repr, N, ...) or a Coq
               keyword is the binder py_<name>.

SEVENTH ROUND

  augmented    x |= e, x &= e, x ^= e  ->  Z.lor / Z.land / Z.lxor (two's complement, as Python ints);
  assignments  x <<= e, x >>= e (and `a >> b`) with a count that is syntactically >= 0  ->  Z.shiftl / Z.shiftr.
  pairs        a 2-tuple whose components are not both ints is a pair; `a, b = <pair-valued expression>` (e.g. a helper
               that returns two lists) is  let '(a, b) := .. ;  `return (A, B)`.
  C10 locator  the block index construction may live in a private helper: `O, E = helper(len(initial_conditions),
               block_size)` (the helper is inlined); the time loop may alternate between decorated lists
               `P = [(v, <anything>) for v in L]` whose first component is the block itself: the construction under the
               tie is L (what the second component is -- e.g. a gather array -- is not under the tie).
  C14          the list of scheduled grain additions may be handed to a module-level helper as an argument; the scan
               `for g in <that parameter>: if <test>: return <e>` is translated as for the attribute.

The parameter types of each target (which name is the 3x3 block, which the cell index, ...) are declared in TARGETS
below: they are assumptions about how the library calls the function, not read from the source.

`main()` writes coq/gen/GenFuns_<Cxx>.v, one file per property, each ONLY IF its content changed (the text holds no
path, hash or line number: an unchanged translation is byte-identical whatever tree it came from), the constant
GenFuns_Prelude.v and the constant re-export GenFuns.v, plus GenFuns_<Cxx>.status.json (sha256 of the sources).
`pre_hook` / `extra_hook` are the run-time glue used by harness/props/c{06,11,13,14,15}.py.

EIGHTH ROUND (R9 refactorings, C16 / C18 / C19)
  `_`          an unused loop variable / tuple component named `_` is a wildcard pattern; it is never bound (a read
               of `_` is an unknown name)
  x = A if c else B   where a branch can raise: translated as the statement `if c: x = A else: x = B`
  operator.index(e)   on an int: e
  helpers      the inlined module-level helpers / methods are cached per (module, property): a helper used by two
               targets of one property is defined once in gen/GenFuns_Cxx.v (twice was a compile error)
  closures     a declared `nested` closure not found in its enclosing function is looked up as the module-level
               function `name` / `_name`: exactly one def, the name bound nowhere else in the module, reachable from the
               enclosing function by plain calls; a call of it from a fragment resolves to the translated target
  C16 locators the append-loop form of the probabilities, the two-generator comprehension over set(X) x set(Y), the
               shape read by two statements, a fresh name bound once to operator.index(temporal_distance) after the
               guard, and `P = list(zip(X, Y))` bound once and used only as the iterable of the indicator list
"""
import ast
import atexit
import glob
import hashlib
import json
import os
import re
import shutil
import sys
import time

VERIF = os.path.dirname(os.path.dirname(os.path.abspath(__file__)))
COQ = os.path.join(VERIF, 'coq')
GEN = os.path.join(COQ, 'gen')
OUT = os.path.join(GEN, 'GenFuns.v')
STATUS = os.path.join(GEN, 'GenFuns.status.json')

TRUSTED_NOTE = ('harness/translate.py: the Python-ast -> Gallina translator and its subset (fail-closed; a wrong '
                'translation rule could make a wrong source look right, which is why the correspondence check, '
                'which runs the real code, is kept next to it); the declared parameter types of the translated '
                'functions')


class TranslationError(Exception):
    pass


def repo_dir():
    return os.environ.get('CELLPYLIB_REPO', '/repo')


# ------------------------------------------------------------------------------------------------ types
Z, BOOL, OPTZ, CELL, ZLIST, NBHD, ZVEC, NNUM, HIST, CFG, ADDS, ADD, STORE, NATIDX, DICT5, UNUSED = (
    'Z', 'bool', 'optZ', 'cell', 'zlist', 'nbhd', 'zvec', 'N', 'hist', 'cfg', 'adds', 'add', 'store', 'natidx',
    'dict5', 'unused')
ACELL, ANB, TNAT, CELLLIST, STATE, INNERST, GRID2 = 'acell', 'anb', 'tnat', 'celllist', 'state', 'innerst', 'grid2'
COQ_TYPE = {GRID2: 'list (list Z)', ACELL: 'cell', ANB: 'NB', TNAT: 'nat', CELLLIST: 'list cell', INNERST: 'St', Z: 'Z', BOOL: 'bool', OPTZ: 'option Z', CELL: '(Z * Z)', ZLIST: 'list Z', NBHD: 'list (list Z)',
            ZVEC: 'list Z', NNUM: 'N', HIST: 'list C', CFG: 'C', ADDS: 'list ((Z * Z) * Z)', ADD: '((Z * Z) * Z)',
            NATIDX: 'nat', DICT5: '(Z * Z * Z * Z * Z -> option Z)', STORE: 'S'}

OPTZLIST, RULEFORM, SCHEME = 'optzlist', 'ruleform', 'scheme'
BIT, BITS, BITINT = 'bit', 'bits', 'bitint'
MATRIX = 'matrix'
ARRVIEW, DIGITS, DIGIT = 'arrview', 'digits', 'digit'
BOOLMATRIX = 'list:list:bool'
DICTK, CALLP = 'dictk', 'callp'
NATLIST, SKEY, SDICT = 'natlist', 'skey', 'sdict'
SYM, SYM2, SYMLIST, SYMLIST2 = 'sym', 'sym2', 'list:sym', 'list:sym2'
ROWS = 'list:zlist'            # a Python list (or array) of rows
COQ_TYPE.update({NATLIST: 'list nat', SKEY: 'key', SDICT: 'table', DICTK: 'list (list Z * Z)', 'bool': 'bool', SYM: 'A', SYM2: 'B', DIGITS: 'list N', DIGIT: 'N', MATRIX: 'list (list Z)', BIT: 'bool', BITS: 'list bool', BITINT: 'bool', 'list:bitint': 'list bool', OPTZLIST: 'option (list Z)', RULEFORM: 'rule_form', SCHEME: 'scheme', STATE: 'S'})


def elem_type(ty):
    """element type of a list-like type, or None"""
    if ty in (ZLIST, ZVEC):
        return Z
    if ty in (NBHD, GRID2):
        return ZLIST
    if ty == CELLLIST:
        return ACELL
    if ty == HIST:
        return CFG
    if ty == BITS:
        return BIT
    if ty == DIGITS:
        return DIGIT
    if isinstance(ty, str) and ty.startswith('list:'):
        return ty[5:]
    return None


def list_of(ty):
    if ty == Z:
        return ZLIST
    if ty in (ZLIST, ZVEC):
        return GRID2
    if ty == ACELL:
        return CELLLIST
    return 'list:' + ty


def pair_of(a, b):
    return 'pair:%s,%s' % (a, b)


def coq_type(ty):
    if ty in COQ_TYPE:
        return COQ_TYPE[ty]
    if ty.startswith('list:'):
        return 'list (%s)' % coq_type(ty[5:])
    if ty.startswith('pair:'):
        a, b = _split_pair(ty)
        return '(%s * %s)' % (coq_type(a), coq_type(b))
    raise TranslationError('no Coq type for %s' % ty)


def _split_pair(ty):
    body, depth = ty[5:], 0
    for i, ch in enumerate(body):
        if ch == ',' and depth == 0 and not body[:i].count('pair:') > body[:i].count(','):
            return body[:i], body[i + 1:]
    raise TranslationError('bad pair type %s' % ty)


COQ_KEYWORDS = set('as at cofix else end exists exists2 fix for forall fun if IF in let match mod return Set Prop '
                   'SProp Type then using where with'.split())
# identifiers that the templates emit: a Python local of that name would capture them
TEMPLATE_NAMES = set('state_repr lookup table key uniform tset Next Break xorb rev firstn skipn removelast filter map combine seq repeat hd nth length concat zsum fold_left existsb negb fst snd bind Ok Raise Some None true false '
                     'ValueError IndexError py_get Z N nat list option bool st vec_read vec_write cfg_eqb C S '
                     'nks_rule andb orb xorb'.split())

# ------------------------------------------------------------------------------------------------ targets
CLASS_ATTRS = {
    # attribute -> (type, constructor parameter it must be stored from)   |   constants are discovered in __init__
    'Sandpile': {'_rows': (Z, 'rows'), '_cols': (Z, 'cols'), '_is_closed_boundary': (BOOL, 'is_closed_boundary'),
                 '_grain_additions': (ADDS, None)},
    'SDSRLoop': {'_rule_table': (DICT5, None)},
    'Evoloop': {'_rule_table': (DICT5, None)},
    'CTRBLRule': {'_rule_table': (DICT5, None)},
    'ReversibleRule': {'_rule_number': (NNUM, 'rule_number'), '_previous_state': (STORE, None)},
    # '*': written once, in __init__ (any expression: the translated method sees its value as a parameter);
    # '@m': written only by method m (not translated here: the translated method sees the current value)
    'TotalisticRule': {'_k': (NNUM, 'k'), '_rule': (NNUM, 'rule')},
    'HopfieldNet': {'_r': (Z, '*'), '_W': (MATRIX, '@train')},
}

def _apen_phi_stmt(fn, name):
    """the single assignment `name = ...` in the body of apen.phi (fn is phi); also checks that the enclosing
    conventions hold: phi has the one parameter m"""
    ps = [a.arg for a in fn.args.args]
    if not ('m' in ps and set(ps) <= {'U', 'N', 'm', 'r'} and len(set(ps)) == len(ps)
            and not fn.args.vararg and not fn.args.kwarg and not fn.args.kwonlyargs):
        # round 8: phi moved out of apen takes its former free variables U, N, r as parameters, under those names
        raise TranslationError('phi does not have the parameter m (and at most its former free variables U, N, r)')
    hits = [s for s in fn.body if isinstance(s, ast.Assign) and len(s.targets) == 1
            and isinstance(s.targets[0], ast.Name) and s.targets[0].id == name]
    if len(hits) != 1:
        raise TranslationError('phi does not contain exactly one assignment to %s' % name)
    return hits[0].value


def _apen_locate_windows(fn):
    return _apen_phi_stmt(fn, 'x')


def _apen_locate_count(fn):
    v = _apen_phi_stmt(fn, 'C')
    # C = [<count> / (N - m + 1.0) for x_i in x]
    if not (isinstance(v, ast.ListComp) and len(v.generators) == 1 and not v.generators[0].ifs
            and isinstance(v.generators[0].target, ast.Name) and v.generators[0].target.id == 'x_i'
            and isinstance(v.generators[0].iter, ast.Name) and v.generators[0].iter.id == 'x'
            and isinstance(v.elt, ast.BinOp) and isinstance(v.elt.op, ast.Div)):
        raise TranslationError('C is not [<count> / <float> for x_i in x]')
    return v.elt.left


def _body(fn):
    return [s for s in fn.body if not (isinstance(s, ast.Expr) and isinstance(s.value, ast.Constant))]


def _assign_to(stmts, name):
    hits = [s for s in stmts if isinstance(s, ast.Assign) and len(s.targets) == 1
            and isinstance(s.targets[0], ast.Name) and s.targets[0].id == name]
    if len(hits) != 1:
        raise TranslationError('not exactly one top-level assignment to %s' % name)
    return hits[0].value


import copy


def _rename(node, mapping):
    """a copy of the AST node with local names renamed (the fragment targets declare fixed names for their free locals)"""
    node = copy.deepcopy(node)
    for n in ast.walk(node):
        if isinstance(n, ast.Name) and n.id in mapping:
            n.id = mapping[n.id]
    return node


def _c16_symbols_name(fn):
    hits = [s for s in _body(fn) if isinstance(s, ast.Assign) and len(s.targets) == 1
            and isinstance(s.targets[0], ast.Name) and ast.unparse(s.value) == 'dict.fromkeys(list(string))']
    if len(hits) != 1:
        raise TranslationError('not exactly one assignment `X = dict.fromkeys(list(string))`')
    return hits[0]


def _c16_symbols(fn):
    return _c16_symbols_name(fn).value


def _c16_count(fn):
    syms = _c16_symbols_name(fn).targets[0].id
    for st in _body(fn):
        v = st.value if isinstance(st, ast.Assign) else None
        # [float(<count>) / len(string) for <v> in <symbols>]
        if (isinstance(v, ast.ListComp) and len(v.generators) == 1 and not v.generators[0].ifs
                and isinstance(v.generators[0].target, ast.Name) and ast.unparse(v.generators[0].iter) == syms
                and isinstance(v.elt, ast.BinOp) and isinstance(v.elt.op, ast.Div)
                and ast.unparse(v.elt.right) == 'len(string)' and isinstance(v.elt.left, ast.Call)
                and ast.unparse(v.elt.left.func) == 'float' and len(v.elt.left.args) == 1):
            return _rename(v.elt.left.args[0], {v.generators[0].target.id: 'symbol'})
    # round 8: the same list built by a loop `for v in <symbols>: L.append(float(<count>) / len(string))`
    for st in _body(fn):
        if (isinstance(st, ast.For) and not st.orelse and isinstance(st.target, ast.Name)
                and ast.unparse(st.iter) == syms and len(st.body) == 1 and isinstance(st.body[0], ast.Expr)):
            c = st.body[0].value
            if (isinstance(c, ast.Call) and isinstance(c.func, ast.Attribute) and c.func.attr == 'append'
                    and isinstance(c.func.value, ast.Name) and len(c.args) == 1 and not c.keywords):
                e = c.args[0]
                if (isinstance(e, ast.BinOp) and isinstance(e.op, ast.Div) and ast.unparse(e.right) == 'len(string)'
                        and isinstance(e.left, ast.Call) and ast.unparse(e.left.func) == 'float'
                        and len(e.left.args) == 1 and not e.left.keywords):
                    return _rename(e.left.args[0], {st.target.id: 'symbol'})
    raise TranslationError('no [float(<count>) / len(string) for v in <symbols>] (comprehension or append loop) was found')


def _c16_indicator(fn):
    b = _body(fn)
    lx = [s for s in b if isinstance(s, ast.Assign) and ast.unparse(s.value) == 'list(stringX)']
    ly = [s for s in b if isinstance(s, ast.Assign) and ast.unparse(s.value) == 'list(stringY)']
    if len(lx) != 1 or len(ly) != 1:
        raise TranslationError('the assignments list(stringX) / list(stringY) were not found')
    X, Y = ast.unparse(lx[0].targets[0]), ast.unparse(ly[0].targets[0])
    loops = [s for s in b if isinstance(s, ast.For)]
    ok = (len(loops) == 1 and isinstance(loops[0].target, ast.Name) and ast.unparse(loops[0].iter) == 'set(%s)' % X
          and len(loops[0].body) == 1 and isinstance(loops[0].body[0], ast.For)
          and isinstance(loops[0].body[0].target, ast.Name) and ast.unparse(loops[0].body[0].iter) == 'set(%s)' % Y)
    if ok:
        x, y = loops[0].target.id, loops[0].body[0].target.id
        inner = loops[0].body[0].body
    else:
        # round 8: the same double loop as ONE comprehension  [.. for x in set(X) for y in set(Y)]
        comps = [s_.value for s_ in b if isinstance(s_, ast.Assign) and isinstance(s_.value, ast.ListComp)
                 and len(s_.value.generators) == 2
                 and all(isinstance(g.target, ast.Name) and not g.ifs and not g.is_async for g in s_.value.generators)
                 and ast.unparse(s_.value.generators[0].iter) == 'set(%s)' % X
                 and ast.unparse(s_.value.generators[1].iter) == 'set(%s)' % Y]
        if loops or len(comps) != 1:
            raise TranslationError('the double loop over set(X) x set(Y) was not found')
        x, y = comps[0].generators[0].target.id, comps[0].generators[1].target.id
        inner = [ast.Expr(value=comps[0].elt)]
    means = [n for st in inner for n in ast.walk(st) if isinstance(n, ast.Call) and ast.unparse(n.func) == 'np.mean']
    if len(means) != 1 or len(means[0].args) != 1:
        raise TranslationError('the inner loop does not contain exactly one np.mean(<indicator list>)')
    arg = means[0].args[0]
    if isinstance(arg, ast.Name):
        defs = [st for st in inner if isinstance(st, ast.Assign) and ast.unparse(st.targets[0]) == arg.id]
        if len(defs) != 1 or inner.index(defs[0]) != 0:
            raise TranslationError('the argument of np.mean is not the list built just before')
        arg = defs[0].value
    if not isinstance(arg, ast.ListComp):
        raise TranslationError('the argument of np.mean is not a list comprehension')
    # round 8: the pairs zipped once before the loops, `P = list(zip(X, Y))`, iterated as `for a, b in P`.  Iterating
    # the list of the pairs is iterating the pairs; P must be bound exactly once, at the top level between the
    # bindings of X, Y and the loops, and used ONLY as the iterable of this comprehension (so it cannot be mutated).
    if len(arg.generators) == 1 and isinstance(arg.generators[0].iter, ast.Name) \
            and arg.generators[0].iter.id not in (X, Y):
        P = arg.generators[0].iter.id
        occ = [n for n in ast.walk(fn) if isinstance(n, ast.Name) and n.id == P]
        defs = [s_ for s_ in b if isinstance(s_, ast.Assign) and len(s_.targets) == 1
                and isinstance(s_.targets[0], ast.Name) and s_.targets[0].id == P]
        if (len(defs) == 1 and len(occ) == 2 and ast.unparse(defs[0].value) == 'list(zip(%s, %s))' % (X, Y)
                and b.index(defs[0]) > max(b.index(lx[0]), b.index(ly[0]))
                and all(sum(1 for n in ast.walk(fn) if isinstance(n, ast.Name) and n.id == v
                            and isinstance(n.ctx, ast.Store)) == 1 for v in (X, Y))):
            arg = copy.deepcopy(arg)
            arg.generators[0].iter = defs[0].value.args[0]
        else:
            raise TranslationError('the iterable %s of the indicator list is not `list(zip(X, Y))` bound once' % P)
    return _rename(arg, {X: 'X', Y: 'Y', x: 'x', y: 'y'})


def _c16_ami_parts(fn):
    b = _body(fn)
    flat = lambda st: ast.unparse(st).replace(' ', '')
    if len(b) >= 2 and flat(b[0]) == 'num_timesteps,num_cols=(cellular_automaton.shape[0],cellular_automaton.shape[1])':
        gi = 1
    elif len(b) >= 3 and sorted([flat(b[0]), flat(b[1])]) == ['num_cols=cellular_automaton.shape[1]',
                                                            'num_timesteps=cellular_automaton.shape[0]']:
        gi = 2          # round 8: the two components bound by two statements
    else:
        raise TranslationError('num_timesteps, num_cols are not the two components of the shape')
    g = b[gi]
    if not (isinstance(g, ast.If) and not g.orelse and isinstance(g.test, ast.UnaryOp) and isinstance(g.test.op, ast.Not)
            and len(g.body) == 1 and isinstance(g.body[0], ast.Raise) and isinstance(g.body[0].exc, ast.Call)
            and ast.unparse(g.body[0].exc.func) == 'ValueError'):
        raise TranslationError('the second statement is not `if not (<guard>): raise ValueError(..)`')
    # round 6 (fix 139a98b): directly after the guard the distance may be normalised to a Python int with
    # `temporal_distance = operator.index(temporal_distance)`.  On the integers the fragments are typed over (Z) this is
    # the identity (operator.index returns the same integer value for every int-like object and raises TypeError for
    # everything else, which is outside the typed domain), so the statement is stepped over; any OTHER re-binding of
    # the name still fails closed.
    rest = b[gi + 1:]
    lag = None
    if rest and ast.unparse(rest[0]).replace(' ', '') == 'temporal_distance=operator.index(temporal_distance)':
        rest = rest[1:]
    elif (rest and isinstance(rest[0], ast.Assign) and len(rest[0].targets) == 1
          and isinstance(rest[0].targets[0], ast.Name)
          and ast.unparse(rest[0].value).replace(' ', '') == 'operator.index(temporal_distance)'):
        # round 8: the normalised distance under a NEW name bound once (`lag = operator.index(temporal_distance)`):
        # the same integer, so the name is read as temporal_distance in the fragments
        lag = rest[0].targets[0].id
        if sum(1 for n in ast.walk(fn) if isinstance(n, ast.Name) and n.id == lag and isinstance(n.ctx, ast.Store)) != 1 \
                or lag in [a_.arg for a_ in fn.args.args] or lag in ('num_timesteps', 'num_cols', 'cellular_automaton'):
            raise TranslationError('%s is bound more than once' % lag)
        rest = rest[1:]
    for s_ in rest:
        for n in ast.walk(s_):
            if isinstance(n, ast.Name) and n.id == 'temporal_distance' and isinstance(n.ctx, ast.Store):
                raise TranslationError('temporal_distance is re-bound after the guard')
    loops = [s_ for s_ in rest if isinstance(s_, ast.For)]
    if len(loops) != 1:
        raise TranslationError('not exactly one loop after the guard')
    body = loops[0].body
    calls = [n for st in body for n in ast.walk(st)
             if isinstance(n, ast.Call) and ast.unparse(n.func) == 'mutual_information']
    if len(calls) != 1 or len(calls[0].args) != 2:
        raise TranslationError('the loop does not contain exactly one mutual_information(<left>, <right>)')
    args = list(calls[0].args)
    # an argument that is a local: the expression it was bound to in the loop body (plain or tuple assignment)
    for k_, a in enumerate(args):
        if isinstance(a, ast.Name):
            found = None
            for st in body:
                if isinstance(st, ast.Assign) and len(st.targets) == 1:
                    tg = st.targets[0]
                    if isinstance(tg, ast.Name) and tg.id == a.id:
                        found = st.value
                    if isinstance(tg, ast.Tuple) and isinstance(st.value, ast.Tuple) and len(tg.elts) == len(st.value.elts):
                        for t_, v_ in zip(tg.elts, st.value.elts):
                            if isinstance(t_, ast.Name) and t_.id == a.id:
                                found = v_
            if found is None:
                raise TranslationError('the argument %s of mutual_information is not bound in the loop body' % a.id)
            args[k_] = found
    out = []
    for a in args:
        if not (isinstance(a, ast.Subscript) and isinstance(a.slice, ast.Slice) and isinstance(a.value, ast.Name)):
            raise TranslationError('an argument of mutual_information is not a slice of the series of the cell')
        if lag is not None and a.value.id in (lag, 'temporal_distance'):
            raise TranslationError('the sliced series is named like the distance')
        out.append(_rename(a, {a.value.id: 'cell_states_over_time', **({lag: 'temporal_distance'} if lag else {})}))
    if ast.unparse(args[0].value) != ast.unparse(args[1].value):
        raise TranslationError('the two arguments of mutual_information slice different series')
    return g.test.operand, out[0], out[1]


def _c16_ami_guard(fn):
    g = _c16_ami_parts(fn)[0]
    # the guard must bound temporal_distance from below by 0 (this is what licenses [:-temporal_distance] below)
    def lower_bound(c):
        return isinstance(c, ast.Compare) and (
            (ast.unparse(c.left) == '0' and isinstance(c.ops[0], ast.Lt)
             and ast.unparse(c.comparators[0]) == 'temporal_distance') or
            (len(c.ops) == 1 and ast.unparse(c.left) == 'temporal_distance' and isinstance(c.ops[0], ast.Gt)
             and ast.unparse(c.comparators[0]) == '0'))
    if not (lower_bound(g) or (isinstance(g, ast.BoolOp) and isinstance(g.op, ast.And)
                               and any(lower_bound(v) for v in g.values))):
        raise TranslationError('the guard does not contain the conjunct `0 < temporal_distance`')
    return g


def _c16_ami_left(fn):
    _c16_ami_guard(fn)
    return _c16_ami_parts(fn)[1]


def _c16_ami_right(fn):
    _c16_ami_guard(fn)
    return _c16_ami_parts(fn)[2]


def _c02_mask_stmts(fn):
    """von_neumann_mask = np.zeros(..) + the loop that fills it; or the single assignment
    von_neumann_mask = <helper>(r) when the construction was extracted into a module-level function"""
    b = _body(fn)

    def untouched_elsewhere(keep):
        for j, other in enumerate(b):
            if j not in keep:
                for n in ast.walk(other):
                    if isinstance(n, ast.Name) and n.id == 'von_neumann_mask' and isinstance(n.ctx, ast.Store):
                        raise TranslationError('von_neumann_mask is re-bound outside the statement range')
    for i, st in enumerate(b):
        if isinstance(st, ast.Assign) and ast.unparse(st.targets[0]) == 'von_neumann_mask':
            if i + 1 < len(b) and isinstance(b[i + 1], ast.For) and 'von_neumann_mask' in ast.unparse(b[i + 1].iter):
                untouched_elsewhere((i, i + 1))
                return [st, b[i + 1]]
            if isinstance(st.value, ast.Call) and isinstance(st.value.func, ast.Name) \
                    and [ast.unparse(a) for a in st.value.args] == ['r'] and not st.value.keywords:
                untouched_elsewhere((i,))
                return [st]
    raise TranslationError('the construction of von_neumann_mask (np.zeros + loop, or a helper called with r) was not found')


def _c02_axis_stmts(fn):
    """the body of `for row in range(rows): for col in range(cols):` up to the final store
    <dict>[(row, col)] = (A, B); returns (A, B), whatever they are called"""
    b = _body(fn)
    if [a.arg for a in fn.args.args] != ['rows', 'cols', 'r']:
        raise TranslationError('parameters are not (rows, cols, r)')
    loops = [st for st in b if isinstance(st, ast.For)]
    ok = (len(loops) == 1 and ast.unparse(loops[0].target) == 'row' and ast.unparse(loops[0].iter) == 'range(rows)'
          and len(loops[0].body) == 1 and isinstance(loops[0].body[0], ast.For)
          and ast.unparse(loops[0].body[0].target) == 'col' and ast.unparse(loops[0].body[0].iter) == 'range(cols)')
    if not ok:
        raise TranslationError('the double loop `for row in range(rows): for col in range(cols):` was not found')
    inner = loops[0].body[0].body
    last = inner[-1] if inner else None
    if not (len(inner) >= 2 and isinstance(last, ast.Assign) and len(last.targets) == 1
            and isinstance(last.targets[0], ast.Subscript) and isinstance(last.targets[0].value, ast.Name)
            and ast.unparse(last.targets[0].slice) == '(row, col)'
            and isinstance(last.value, ast.Tuple) and len(last.value.elts) == 2
            and all(isinstance(x, ast.Name) for x in last.value.elts)):
        raise TranslationError('the loop body does not end with <dict>[(row, col)] = (<row indices>, <col indices>)')
    return inner[:-1], [x.id for x in last.value.elts]


def _c10_alternation(b):
    """(O, E): the names of the lists the time loop uses at odd / even t, or None"""
    loops = [st for st in b if isinstance(st, ast.For) and ast.unparse(st.iter) == 'range(1, timesteps)']
    if len(loops) != 1:
        return None
    for st in loops[0].body:
        if isinstance(st, ast.Assign) and isinstance(st.value, ast.IfExp) and ast.unparse(st.value.test) == 't % 2 == 0' \
                and isinstance(st.value.body, ast.Name) and isinstance(st.value.orelse, ast.Name):
            return st.value.orelse.id, st.value.body.id
        if isinstance(st, ast.Assign) and isinstance(st.value, ast.Subscript) and ast.unparse(st.value.slice) == 't % 2' \
                and isinstance(st.value.value, ast.Tuple) and len(st.value.value.elts) == 2 \
                and all(isinstance(x, ast.Name) for x in st.value.value.elts):
            return st.value.value.elts[1].id, st.value.value.elts[0].id
        if isinstance(st, ast.If) and ast.unparse(st.test) == 't % 2 == 0' and len(st.body) == 1 and len(st.orelse) == 1 \
                and isinstance(st.body[0], ast.Assign) and isinstance(st.orelse[0], ast.Assign) \
                and ast.unparse(st.body[0].targets[0]) == ast.unparse(st.orelse[0].targets[0]) \
                and isinstance(st.body[0].value, ast.Name) and isinstance(st.orelse[0].value, ast.Name):
            return st.orelse[0].value.id, st.body[0].value.id
    return None


def _c10_block_stmts(fn):
    """from `X = list(range(len(initial_conditions)))` to the later of the two assignments of the index lists between
    which the time loop alternates (`S = E if t % 2 == 0 else O`, or the same as an if/else); returns (O, E)"""
    b = _body(fn)
    # (a) the construction extracted into a helper:  O, E = helper(len(initial_conditions), block_size)
    for i, st in enumerate(b):
        if isinstance(st, ast.Assign) and len(st.targets) == 1 and isinstance(st.targets[0], ast.Tuple) \
                and len(st.targets[0].elts) == 2 and all(isinstance(x, ast.Name) for x in st.targets[0].elts) \
                and isinstance(st.value, ast.Call) and isinstance(st.value.func, ast.Name) and not st.value.keywords \
                and sorted(ast.unparse(a) for a in st.value.args) == ['block_size', 'len(initial_conditions)']:
            names = [x.id for x in st.targets[0].elts]
            alt = _c10_alternation(b)
            if alt is not None and sorted(alt) == sorted(names):
                for k_, other in enumerate(b):
                    if k_ != i:
                        for n in ast.walk(other):
                            if isinstance(n, ast.Name) and n.id in names + ['block_size'] and isinstance(n.ctx, ast.Store):
                                raise TranslationError('%s is re-bound outside the statement range' % n.id)
                return [st], [alt[0], alt[1]]
    first = [i for i, st in enumerate(b) if isinstance(st, ast.Assign)
             and ast.unparse(st.value) == 'list(range(len(initial_conditions)))']
    loops = [st for st in b if isinstance(st, ast.For) and ast.unparse(st.iter) == 'range(1, timesteps)']
    even = odd = None
    # the schedule written as  S = itertools.cycle((O, E)); for t, strides in zip(range(1, timesteps), S):  -- the cycle
    # starts with O at t = 1, so O is used at odd t and E at even t, as in `E if t % 2 == 0 else O`
    cyc = [st for st in b if isinstance(st, ast.Assign) and len(st.targets) == 1 and isinstance(st.targets[0], ast.Name)
           and isinstance(st.value, ast.Call) and ast.unparse(st.value.func) == 'itertools.cycle'
           and len(st.value.args) == 1 and isinstance(st.value.args[0], ast.Tuple) and len(st.value.args[0].elts) == 2
           and all(isinstance(x, ast.Name) for x in st.value.args[0].elts)]
    if not loops and len(cyc) == 1:
        S = cyc[0].targets[0].id
        zl = [st for st in b if isinstance(st, ast.For) and ast.unparse(st.iter) == 'zip(range(1, timesteps), %s)' % S]
        uses = [n for n in ast.walk(ast.Module(body=b, type_ignores=[])) if isinstance(n, ast.Name) and n.id == S]
        if len(zl) == 1 and len(uses) == 2:
            odd, even = (x.id for x in cyc[0].value.args[0].elts)
            loops = zl
    if len(first) != 1 or len(loops) != 1:
        raise TranslationError('`X = list(range(len(initial_conditions)))` / the loop over range(1, timesteps) not found')
    for st in ([] if even is not None else loops[0].body):
        if isinstance(st, ast.Assign) and isinstance(st.value, ast.IfExp) and ast.unparse(st.value.test) == 't % 2 == 0' \
                and isinstance(st.value.body, ast.Name) and isinstance(st.value.orelse, ast.Name):
            even, odd = st.value.body.id, st.value.orelse.id
        # S = (E, O)[t % 2]: index 0 at even t
        if isinstance(st, ast.Assign) and isinstance(st.value, ast.Subscript) and ast.unparse(st.value.slice) == 't % 2' \
                and isinstance(st.value.value, ast.Tuple) and len(st.value.value.elts) == 2 \
                and all(isinstance(x, ast.Name) for x in st.value.value.elts):
            even, odd = (x.id for x in st.value.value.elts)
        if isinstance(st, ast.If) and ast.unparse(st.test) == 't % 2 == 0' and len(st.body) == 1 and len(st.orelse) == 1 \
                and isinstance(st.body[0], ast.Assign) and isinstance(st.orelse[0], ast.Assign) \
                and ast.unparse(st.body[0].targets[0]) == ast.unparse(st.orelse[0].targets[0]) \
                and isinstance(st.body[0].value, ast.Name) and isinstance(st.orelse[0].value, ast.Name):
            even, odd = st.body[0].value.id, st.orelse[0].value.id
    if even is None:
        raise TranslationError('the alternation `E if t % 2 == 0 else O` (or itertools.cycle((O, E))) was not found')

    def undecorate(name):
        # P = [(v, <anything>) for v in L]: the time loop alternates between lists of (block, gather array) pairs whose
        # first component is the block itself; the index construction under the tie is L
        hits = [st for st in b if isinstance(st, ast.Assign) and len(st.targets) == 1 and ast.unparse(st.targets[0]) == name]
        if len(hits) == 1 and isinstance(hits[0].value, ast.ListComp) and len(hits[0].value.generators) == 1:
            g = hits[0].value.generators[0]
            el = hits[0].value.elt
            if not g.ifs and isinstance(g.target, ast.Name) and isinstance(g.iter, ast.Name) and isinstance(el, ast.Tuple) \
                    and len(el.elts) == 2 and isinstance(el.elts[0], ast.Name) and el.elts[0].id == g.target.id:
                return g.iter.id
        return name
    even, odd = undecorate(even), undecorate(odd)

    def is_assign(st, name):
        return isinstance(st, ast.Assign) and len(st.targets) == 1 and ast.unparse(st.targets[0]) == name
    ie = [i for i, st in enumerate(b) if is_assign(st, even)]
    io = [i for i, st in enumerate(b) if is_assign(st, odd)]
    if len(ie) != 1 or len(io) != 1 or min(ie[0], io[0]) < first[0]:
        raise TranslationError('%s / %s are not assigned exactly once after the index list' % (odd, even))
    i, j = first[0], max(ie[0], io[0])
    if not all(isinstance(st, ast.Assign) for st in b[i:j + 1]):
        raise TranslationError('the statement range is not a sequence of assignments')
    for k, other in enumerate(b):
        if not i <= k <= j:
            for n in ast.walk(other):
                if isinstance(n, ast.Name) and n.id in (even, odd, 'block_size') and isinstance(n.ctx, ast.Store):
                    raise TranslationError('%s is re-bound outside the statement range' % n.id)
    return b[i:j + 1], [odd, even]


def _c03_key_stmts(fn):
    """the leading assignments of _update_state up to `X = curr_state.take(.., mode='wrap')`; returns (whatever they
    are called) the local bound to indices[0] and X"""
    b = _body(fn)
    params = [a.arg for a in fn.args.args]
    if params[:2] != ['indices', 'curr_state'] or 'r' not in params:
        raise TranslationError('parameters are not (indices, curr_state, .., r, ..)')
    idx = [i for i, st in enumerate(b) if isinstance(st, ast.Assign) and isinstance(st.value, ast.Call)
           and isinstance(st.value.func, ast.Attribute) and st.value.func.attr == 'take'
           and len(st.targets) == 1 and isinstance(st.targets[0], ast.Name)]
    if len(idx) != 1:
        raise TranslationError('not exactly one assignment `X = <array>.take(..)`')
    seg = b[:idx[0] + 1]
    if not all(isinstance(st, ast.Assign) and len(st.targets) == 1 and isinstance(st.targets[0], ast.Name) for st in seg):
        raise TranslationError('the statements before the take are not plain assignments')
    firsts = [st.targets[0].id for st in seg if ast.unparse(st.value) == 'indices[0]']
    if len(firsts) != 1:
        raise TranslationError('not exactly one local bound to indices[0]')
    names = (firsts[0], seg[-1].targets[0].id)
    for other in b[idx[0] + 1:]:
        for n in ast.walk(other):
            if isinstance(n, ast.Name) and n.id in names and isinstance(n.ctx, ast.Store):
                raise TranslationError('%s is re-bound after the statement range' % n.id)
    return seg, list(names)


def _c03_split_stmts(fn):
    """the leading assignments of _step and the two index lists handed to _update_state: two locals (whatever they
    are called), or the two elements of the tuple a `for h in (A, B): .. _update_state(h, ..)` loop runs over"""
    b = _body(fn)
    if [a.arg for a in fn.args.args][:1] != ['indices']:
        raise TranslationError('the first parameter is not indices')
    seg = []
    for st in b:
        if isinstance(st, ast.Assign) and len(st.targets) == 1 and isinstance(st.targets[0], ast.Name):
            seg.append(st)
        else:
            break
    rest = b[len(seg):]
    calls = [n for st in rest for n in ast.walk(st)
             if isinstance(n, ast.Call) and isinstance(n.func, ast.Name) and n.func.id == '_update_state' and n.args]
    firsts = [ast.unparse(c.args[0]) for c in calls]
    assigned = [st.targets[0].id for st in seg]
    if len(calls) == 2 and all(f in assigned for f in firsts) and firsts[0] != firsts[1]:
        return seg, firsts
    if len(calls) == 1 and len(rest) == 1 and isinstance(rest[0], ast.For) and isinstance(rest[0].target, ast.Name) \
            and rest[0].target.id == firsts[0] and isinstance(rest[0].iter, ast.Tuple) and len(rest[0].iter.elts) == 2:
        extra = []
        for nm, el in zip(('left_half_', 'right_half_'), rest[0].iter.elts):
            a = ast.Assign(targets=[ast.Name(id=nm, ctx=ast.Store())], value=el)
            ast.copy_location(a, rest[0]); ast.copy_location(a.targets[0], rest[0])
            a.end_lineno = rest[0].end_lineno
            extra.append(a)
        return seg + extra, ['left_half_', 'right_half_']
    raise TranslationError('the two halves handed to _update_state were not found')


_MEMOG = '{NB cell St : Type} (nb_key : NB -> list Z) (apply_rule : St -> NB -> cell -> nat -> St * Z)'
_SYMG = '{A : Type} (sym_dec : forall a b : A, {a = b} + {a <> b})'
_SYMG2 = _SYMG + ' {B : Type} (sym2_dec : forall a b : B, {a = b} + {a <> b})'

TARGETS = [
    dict(name='game_of_life_rule', prop='C11', file='ca_functions2d.py', cls=None, func='game_of_life_rule',
         params=[('neighbourhood', NBHD), ('c', UNUSED), ('t', UNUSED)], attrs=[]),
    dict(name='sandpile_is_in_boundary', prop='C14', file='sandpile.py', cls='Sandpile', func='_is_in_boundary',
         params=[('c', CELL)], attrs=['_rows', '_cols']),
    dict(name='sandpile_call', prop='C14', file='sandpile.py', cls='Sandpile', func='__call__',
         params=[('n', NBHD), ('c', CELL), ('t', Z)],
         attrs=['_rows', '_cols', '_is_closed_boundary', '_grain_additions']),
    dict(name='sdsr_is_in_tube', prop='C15', file='sdsr_loop.py', cls='SDSRLoop', func='_is_in_tube',
         params=[('top', Z), ('right', Z), ('bottom', Z), ('left', Z)], attrs=[]),
    dict(name='sdsr_call', prop='C15', file='sdsr_loop.py', cls='SDSRLoop', func='__call__',
         params=[('n', NBHD), ('c', UNUSED), ('t', UNUSED)], attrs=['_rule_table'],
         split_default='sdsr_default'),
    dict(name='evoloop_call', prop='C15', file='evoloop.py', cls='Evoloop', func='__call__',
         params=[('n', NBHD), ('c', UNUSED), ('t', UNUSED)], attrs=['_rule_table'],
         split_default='evoloop_default'),
    dict(name='ctrbl_call', prop='C15', file='ctrbl_rule.py', cls='CTRBLRule', func='__call__',
         params=[('n', NBHD), ('c', UNUSED), ('t', UNUSED)], attrs=['_rule_table']),
    dict(name='reversible_call', prop='C13', file='ca_functions.py', cls='ReversibleRule', func='__call__',
         params=[('n', ZVEC), ('c', NATIDX), ('t', UNUSED)], attrs=['_rule_number'], state='_previous_state',
         generic='{S : Type} (vec_read : S -> nat -> option Z) (vec_write : S -> nat -> Z -> S)'),
    dict(name='bits_to_int', prop='C07', file='ca_functions.py', cls=None, func='bits_to_int',
         params=[('bits', ZLIST)], attrs=[]),
    dict(name='int_to_bits', prop='C07', file='ca_functions.py', cls=None, func='int_to_bits',
         params=[('num', NNUM), ('num_digits', Z)], attrs=[], effects=True),
    dict(name='binary_rule', prop='C07', file='ca_functions.py', cls=None, func='binary_rule',
         params=[('neighbourhood', ZLIST), ('rule', RULEFORM), ('scheme', SCHEME), ('powers_of_two', OPTZLIST)],
         attrs=[], effects=True, none_defaults=True),
    dict(name='binary_derivative', prop='C18', file='bien.py', cls=None, func='binary_derivative',
         params=[('string', BITS)], attrs=[], effects=True),
    dict(name='cyclic_binary_derivative', prop='C18', file='bien.py', cls=None, func='cyclic_binary_derivative',
         params=[('string', BITS)], attrs=[], effects=True),
    dict(name='totalistic_rule', prop='C08', file='ca_functions.py', cls=None, func='totalistic_rule',
         params=[('neighbourhood', ARRVIEW), ('k', NNUM), ('rule', NNUM)], attrs=[], effects=True),
    dict(name='totalistic_rule_call', prop='C08', file='ca_functions.py', cls='TotalisticRule', func='__call__',
         params=[('n', ARRVIEW), ('c', UNUSED), ('t', UNUSED)], attrs=['_k', '_rule'], effects=True),
    dict(name='apen_maximum_distance', prop='C19', file='apen.py', cls=None, func='apen',
         nested=['maximum_distance'], params=[('x_i', ZLIST), ('x_j', ZLIST)], attrs=[], effects=True),
    dict(name='apen_windows', prop='C19', file='apen.py', cls=None, func='apen', nested=['phi'],
         locate=_apen_locate_windows, what='assigned to x', free=[('U', ZLIST), ('N', Z), ('m', Z)],
         nonneg=['m'], params=[], attrs=[], effects=True),
    dict(name='apen_count', prop='C19', file='apen.py', cls=None, func='apen', nested=['phi'],
         locate=_apen_locate_count, what='<count> of C = [<count> / (N - m + 1.0) for x_i in x]',
         free=[('x', GRID2), ('x_i', ZLIST), ('r', Z)], params=[], attrs=[], effects=True),
    dict(name='shannon_symbols', prop='C16', file='entropy.py', cls=None, func='shannon_entropy',
         locate=_c16_symbols, what='assigned to symbols', free=[('string', SYMLIST)], generic=_SYMG,
         params=[], attrs=[]),
    dict(name='shannon_count', prop='C16', file='entropy.py', cls=None, func='shannon_entropy',
         locate=_c16_count, what='<count> of [float(<count>) / len(string) for symbol in symbols]',
         free=[('string', SYMLIST), ('symbol', SYM)], generic=_SYMG, params=[], attrs=[]),
    dict(name='joint_indicator', prop='C16', file='entropy.py', cls=None, func='joint_shannon_entropy',
         locate=_c16_indicator, what='<l> of np.mean(<l>) in the double loop over set(X) x set(Y)',
         free=[('X', SYMLIST), ('Y', SYMLIST2), ('x', SYM), ('y', SYM2)], generic=_SYMG2, params=[], attrs=[]),
    dict(name='ami_guard', prop='C16', file='entropy.py', cls=None, func='average_mutual_information',
         locate=_c16_ami_guard, what='<g> of `if not (<g>): raise ValueError`',
         free=[('temporal_distance', Z), ('num_timesteps', Z)], params=[], attrs=[]),
    dict(name='ami_left', prop='C16', file='entropy.py', cls=None, func='average_mutual_information',
         locate=_c16_ami_left, what='first argument of mutual_information(..)', generic='{A : Type}',
         free=[('cell_states_over_time', SYMLIST), ('temporal_distance', Z)], positive=['temporal_distance'],
         pylists=['cell_states_over_time'], params=[], attrs=[]),
    dict(name='ami_right', prop='C16', file='entropy.py', cls=None, func='average_mutual_information',
         locate=_c16_ami_right, what='second argument of mutual_information(..)', generic='{A : Type}',
         free=[('cell_states_over_time', SYMLIST), ('temporal_distance', Z)], positive=['temporal_distance'],
         pylists=['cell_states_over_time'], params=[], attrs=[]),
    dict(name='index_strides', prop='C01', file='ca_functions.py', cls=None, func='_index_strides',
         params=[('arr', ZLIST), ('window_size', Z)], attrs=[], effects=True),
    dict(name='vn_mask', prop='C02', file='ca_functions2d.py', cls=None, func='evolve2d',
         locate_stmts=_c02_mask_stmts, what='that build von_neumann_mask', free=[('r', Z)], nonneg=['r'],
         returns=['von_neumann_mask'], params=[], attrs=[], effects=True),
    dict(name='axis_indices', prop='C02', file='ca_functions2d.py', cls=None, func='_get_neighbourhood_indices',
         locate_stmts=_c02_axis_stmts, what='of the body of the double loop (before the dict store)',
         free=[('row', Z), ('col', Z), ('r', Z), ('rows', Z), ('cols', Z)],
         returns=['row_indices', 'col_indices'], params=[], attrs=[]),
    dict(name='block_indices', prop='C10', file='ca_functions.py', cls=None, func='evolve_block',
         locate_stmts=_c10_block_stmts, what='that build block_indices_odd and block_indices_even',
         free=[('initial_conditions', ZLIST), ('block_size', Z)], positive=['block_size'],
         returns=['block_indices_odd', 'block_indices_even'], params=[], attrs=[], effects=True),
    dict(name='memo_key', prop='C03', file='ca_functions.py', cls=None, func='_update_state',
         locate_stmts=_c03_key_stmts, what='up to `neighbourhood = curr_state.take(.., mode=wrap)`',
         free=[('indices', ZLIST), ('curr_state', ZLIST), ('r', Z)],
         returns=['start', 'neighbourhood'], params=[], attrs=[], effects=True),
    dict(name='memo_split', prop='C03', file='ca_functions.py', cls=None, func='_step',
         locate_stmts=_c03_split_stmts, what='that split indices into left_indices and right_indices',
         free=[('indices', ZLIST)], returns=['left_indices', 'right_indices'], params=[], attrs=[]),
    dict(name='get_memoized', prop='C09', file='ca_functions.py', cls=None, func='_get_memoized',
         params=[('n', ANB), ('c', ACELL), ('t', TNAT), ('apply_rule', CALLP), ('memoization_table', DICTK)], attrs=[],
         generic=_MEMOG, threaded=dict(table='memoization_table', callable='apply_rule', sig=[ANB, ACELL, TNAT])),
    dict(name='get_memoized', prop='C03', file='ca_functions.py', cls=None, func='_get_memoized',
         params=[('n', ANB), ('c', ACELL), ('t', TNAT), ('apply_rule', CALLP), ('memoization_table', DICTK)], attrs=[],
         generic=_MEMOG, threaded=dict(table='memoization_table', callable='apply_rule', sig=[ANB, ACELL, TNAT])),
    dict(name='get_memoized', prop='C04', file='ca_functions2d.py', cls=None, func='_get_memoized',
         params=[('n', ANB), ('c', ACELL), ('t', TNAT), ('apply_rule', CALLP), ('memoization_table', DICTK)], attrs=[],
         generic=_MEMOG, threaded=dict(table='memoization_table', callable='apply_rule', sig=[ANB, ACELL, TNAT])),
    dict(name='get_memoized2d', prop='C09', file='ca_functions2d.py', cls=None, func='_get_memoized',
         params=[('n', ANB), ('c', ACELL), ('t', TNAT), ('apply_rule', CALLP), ('memoization_table', DICTK)], attrs=[],
         generic=_MEMOG, threaded=dict(table='memoization_table', callable='apply_rule', sig=[ANB, ACELL, TNAT])),
    dict(name='table_rule', prop='C17', file='rule_tables.py', cls=None, func='table_rule',
         params=[('neighbourhood', NATLIST), ('table', SDICT)], attrs=[], effects=True),
    dict(name='hopfield_train', prop='C20', file='hopfield_net.py', cls='HopfieldNet', func='train',
         params=[('P', ROWS)], attrs=[], effects=True, attr_locals={'_W': MATRIX}),
    dict(name='hopfield_rule', prop='C20', file='hopfield_net.py', cls='HopfieldNet', func='_rule',
         params=[('n', ZVEC), ('c', Z), ('t', UNUSED)], attrs=['_W', '_r'], effects=True),
    dict(name='async_current_cell_value_1d', prop='C12', file='ca_functions.py', cls='AsynchronousRule',
         func='_current_cell_value', params=[('n', ZVEC)], attrs=[]),
    dict(name='async_current_cell_value_2d', prop='C12', file='ca_functions.py', cls='AsynchronousRule',
         func='_current_cell_value', params=[('n', GRID2)], attrs=[]),
    dict(name='until_fixed_point_timesteps', prop='C06', file='ca_functions.py', cls=None,
         func='until_fixed_point', inner='_timesteps',
         params=[('ca', HIST), ('t', UNUSED)], attrs=[],
         generic='{C : Type} (cfg_eqb : C -> C -> bool)'),
]
GROUPS = [
    dict(name='async', prop='C12', file='ca_functions.py', cls='AsynchronousRule',
         context='Context (cell NB St : Type) (cell_eqb : cell -> cell -> bool) '
                 '(apply_rule : St -> NB -> cell -> nat -> St * Z) (shuffle : nat -> list cell -> list cell) '
                 '(current_cell_value : NB -> Z) (self_randomize_each_cycle : bool).',
         fields=[('_update_order', CELLLIST), ('_curr', Z), ('_num_applied', Z)],
         hidden=[('_shuffles', 'nat'), ('_apply_rule', 'St')],
         ro={'_randomize_each_cycle': (BOOL, 'randomize_each_cycle')},
         callable=('_apply_rule', 'apply_rule', [ANB, ACELL, TNAT]),
         oracle=('_shuffle_update_order', '_update_order'),
         abstract={'_current_cell_value': ('current_cell_value', [ANB], Z)},
         constructor_side=['__init__', '_init_update_order'],
         methods=[('_in_update_order', '_in_update_order', [('c', ACELL), ('n', ANB)]),
                  ('_should_update', '_should_update', [('c', ACELL), ('n', ANB)]),
                  ('_check_for_end_of_cycle', '_check_for_end_of_cycle', []),
                  ('__call__', '_call', [('n', ANB), ('c', ACELL), ('t', TNAT)])]),
]
DIMS = {ZVEC: 1, GRID2: 2, NBHD: 2}      # len(n.shape) for the declared array types
DEFAULT_PARAMS = ['current_activity', 'top', 'right', 'bottom', 'left']     # of the split default branches

PRELUDE = '''(* GENERATED by harness/translate.py (constant text): the fixed helpers of the translation templates. *)
From Coq Require Import ZArith List Bool.
From CPL Require Import Model.Base.
Import ListNotations.
Local Open Scope Z_scope.

(* auxiliary definitions src_h_<name> (helpers extracted from a target in the source) are unfolded by the proofs *)
Create HintDb src_helpers.
(* fixed helpers of the translation templates *)
Definition src_nb (n : list (list Z)) (i j : nat) : Z := nth j (nth i n []) 0.
Definition src_zin (x : Z) (l : list Z) : bool := existsb (Z.eqb x) l.
Definition src_cell_eqb (a b : Z * Z) : bool := (fst a =? fst b) && (snd a =? snd b).
Definition src_is_none (o : option Z) : bool := match o with None => true | Some _ => false end.
Definition src_index {A} (o : option A) : res A := match o with Some v => Ok v | None => Raise IndexError end.
(* W[a, b] on a matrix (list of rows), NumPy indexing *)
Definition src_mat_get (W : list (list Z)) (a b : Z) : res Z := bind (py_get W a) (fun row => py_get row b).
(* W[a, b] = f(W[a, b]) on a matrix, NumPy indexing *)
Fixpoint src_upd_nth {A} (l : list A) (k : nat) (f : A -> A) : list A :=
  match l, k with
  | [], _ => []
  | x :: l', O => f x :: l'
  | x :: l', S k' => x :: src_upd_nth l' k' f
  end.
Definition src_mat_upd (W : list (list Z)) (a b : Z) (f : Z -> Z) : res (list (list Z)) :=
  match py_index (length W) a with
  | None => Raise IndexError
  | Some i => match nth_error W i with
              | None => Raise IndexError
              | Some row => match py_index (length row) b with
                            | None => Raise IndexError
                            | Some j => Ok (src_upd_nth W i (fun r => src_upd_nth r j f))
                            end
              end
  end.
(* max(l) on a list of ints: ValueError when it is empty *)
Definition src_max_list (l : list Z) : res Z :=
  match l with [] => Raise ValueError | x :: l' => Ok (fold_left Z.max l' x) end.
(* comprehensions whose condition / element can raise: evaluated in order, the first exception wins *)
Fixpoint src_filterm {A} (f : A -> res bool) (l : list A) : res (list A) :=
  match l with
  | [] => Ok []
  | x :: l' => bind (f x) (fun b => bind (src_filterm f l') (fun r => Ok (if b then x :: r else r)))
  end.
Fixpoint src_mapm {A B} (f : A -> res B) (l : list A) : res (list B) :=
  match l with
  | [] => Ok []
  | x :: l' => bind (f x) (fun y => bind (src_mapm f l') (fun r => Ok (y :: r)))
  end.
(* l[lo:hi] with Python's saturating semantics: a negative bound counts from the end, bounds are clipped to 0..len *)
Definition src_clip (n : nat) (i : Z) : nat :=
  if i <? 0 then Z.to_nat (Z.max (i + Z.of_nat n) 0) else Nat.min (Z.to_nat i) n.
Definition src_slice {A} (l : list A) (lo hi : option Z) : list A :=
  let n := length l in
  let a := match lo with None => 0%nat | Some i => src_clip n i end in
  let b := match hi with None => n | Some i => src_clip n i end in
  firstn (b - a) (skipn a l).
(* row[lo:hi] = v (a scalar broadcast into the slice; the length of the row does not change) *)
Definition src_fill_slice {A} (row : list A) (lo hi : option Z) (v : A) : list A :=
  let n := length row in
  let a := match lo with None => 0%nat | Some i => src_clip n i end in
  let b := match hi with None => n | Some i => src_clip n i end in
  if (b <=? a)%nat then row else firstn a row ++ repeat v (b - a) ++ skipn b row.
(* m[i] = f(m[i]) on a list of rows, Python indexing *)
Definition src_row_upd {A} (m : list (list A)) (i : Z) (f : list A -> list A) : res (list (list A)) :=
  match py_index (length m) i with
  | None => Raise IndexError
  | Some k => Ok (src_upd_nth m k f)
  end.
(* np.lib.stride_tricks.as_strided(l, shape=(len(l) - w + 1, w), strides=(s, s)): all windows of width w *)
Definition src_as_strided_windows {A} (l : list A) (w : Z) : res (list (list A)) :=
  if (w <? 0) || (Z.of_nat (length l) - w + 1 <? 0) then Raise ValueError
  else Ok (map (fun i => firstn (Z.to_nat w) (skipn i l)) (seq 0 (Z.to_nat (Z.of_nat (length l) - w + 1)))).
(* a.take(idx, mode='wrap') on a 1-D array *)
Definition src_take_wrap (a idx : list Z) : res (list Z) :=
  if (length a =? 0)%nat && negb (length idx =? 0)%nat then Raise IndexError
  else Ok (map (fun i => nth (Z.to_nat (i mod Z.of_nat (length a))) a 0) idx).
(* a dict whose keys are byte strings (lists of cell values): `k in d` / `d[k]` = first match; `d[k] = v` replaces the
   entry of k or adds one (so that len(d) is the number of entries) *)
Fixpoint src_dict_lookup (k : list Z) (d : list (list Z * Z)) : option Z :=
  match d with
  | [] => None
  | (k', v) :: d' => if list_eqb Z.eqb k k' then Some v else src_dict_lookup k d'
  end.
Fixpoint src_dict_replace (k : list Z) (v : Z) (d : list (list Z * Z)) : list (list Z * Z) :=
  match d with
  | [] => []
  | (k', v') :: d' => if list_eqb Z.eqb k k' then (k', v) :: d' else (k', v') :: src_dict_replace k v d'
  end.
Definition src_dict_set (k : list Z) (v : Z) (d : list (list Z * Z)) : list (list Z * Z) :=
  match src_dict_lookup k d with Some _ => src_dict_replace k v d | None => (k, v) :: d end.
(* a loop whose body can raise, break or continue: the accumulator is threaded through the body *)
Inductive src_ctl (A : Type) := Next (a : A) | Break (a : A).
Arguments Next {A} a.
Arguments Break {A} a.
Fixpoint src_for {A B} (f : A -> B -> res (src_ctl A)) (l : list B) (a : A) : res A :=
  match l with
  | [] => Ok a
  | x :: l' => match f a x with
               | Raise e => Raise e
               | Ok (Break a') => Ok a'
               | Ok (Next a') => src_for f l' a'
               end
  end.
(* np.pad(l, (k, 0), 'constant') *)
Definition src_pad_left (k : Z) (l : list Z) : res (list Z) :=
  if k <? 0 then Raise ValueError else Ok (repeat 0 (Z.to_nat k) ++ l).
(* range(a, b), range(a, b, s) with s > 0, enumerate(l): the lists the loops fold over *)
Definition src_range (a b : Z) : list Z := map (fun k => a + Z.of_nat k) (seq 0 (Z.to_nat (b - a))).
Definition src_range_step (a b s : Z) : list Z :=
  map (fun k => a + s * Z.of_nat k) (seq 0 (Z.to_nat ((b - a + s - 1) / s))).
Definition src_enumerate {A} (l : list A) : list (Z * A) := combine (map Z.of_nat (seq 0 (length l))) l.
(* a % b, a // b with a divisor that is not known at translation time (ZeroDivisionError -> OtherError) *)
Definition src_mod (a b : Z) : res Z := if b =? 0 then Raise OtherError else Ok (Z.modulo a b).
Definition src_div (a b : Z) : res Z := if b =? 0 then Raise OtherError else Ok (Z.div a b).
'''


# ------------------------------------------------------------------------------------------------ helpers
def _err(node, msg):
    line = getattr(node, 'lineno', '?')
    raise TranslationError('line %s: %s' % (line, msg))


def _zlit(k):
    return '(%d)' % k if k < 0 else '%d' % k


def _is_int_const(node):
    return isinstance(node, ast.Constant) and isinstance(node.value, int) and not isinstance(node.value, bool)


def _is_self_attr(node, attr=None):
    return (isinstance(node, ast.Attribute) and isinstance(node.value, ast.Name) and node.value.id == 'self'
            and (attr is None or node.attr == attr))


def _contains(stmts, kinds):
    for s in stmts:
        for n in ast.walk(s):
            if isinstance(n, kinds):
                return True
    return False


_CUR_ATTR_LOCALS = {}     # during the translation of a target with `attr_locals`: attribute -> type


def _assigned(stmts, grp=None):
    """local names assigned anywhere in the statements (in first-occurrence order); writes to the object state of
    a class group (attribute stores, calls of methods that write it) count as assignments to `st`"""
    out = []
    for s in stmts:
        for n in ast.walk(s):
            tg = []
            if grp is not None:
                hit = False
                if isinstance(n, (ast.Assign, ast.AugAssign)):
                    for t in (n.targets if isinstance(n, ast.Assign) else [n.target]):
                        for sub in ast.walk(t):
                            if _is_self_attr(sub):
                                hit = True
                if isinstance(n, ast.Call) and _is_self_attr(n.func) and _group_call_mutates(grp, n.func.attr):
                    hit = True
                if hit and 'st' not in out:
                    out.append('st')
            if _CUR_ATTR_LOCALS and isinstance(n, (ast.Assign, ast.AugAssign)):
                for t in (n.targets if isinstance(n, ast.Assign) else [n.target]):
                    base = t.value if isinstance(t, ast.Subscript) else t
                    if _is_self_attr(base) and base.attr in _CUR_ATTR_LOCALS and 'self' + base.attr not in out:
                        out.append('self' + base.attr)
            if isinstance(n, (ast.Assign, ast.AugAssign)):
                for t in (n.targets if isinstance(n, ast.Assign) else [n.target]):
                    base = t
                    while isinstance(base, ast.Subscript):
                        base = base.value
                    if base is not t and isinstance(base, ast.Name) and base.id not in out:
                        out.append(base.id)           # element / slice write into a local array
            if isinstance(n, ast.Assign):
                tg = n.targets
            elif isinstance(n, ast.AugAssign):
                tg = [n.target]
            elif isinstance(n, ast.For):
                tg = [n.target]
            elif isinstance(n, ast.Expr) and isinstance(n.value, ast.Call) and isinstance(n.value.func, ast.Attribute) \
                    and n.value.func.attr == 'append' and isinstance(n.value.func.value, ast.Name):
                tg = [n.value.func.value]
            for t in tg:
                if isinstance(t, ast.Name) and t.id not in out:
                    out.append(t.id)
    return out


def _group_call_mutates(grp, meth):
    if meth == grp.get('oracle', (None,))[0] or meth == grp.get('callable', (None,))[0]:
        return True
    if meth in grp.get('abstract', {}):
        return False
    d = grp['done'].get(meth)
    return d is None or d['kind'] != 'ro'


def _names_in(node):
    return {n.id for n in ast.walk(node) if isinstance(n, ast.Name)}


def _check_ident(node, name):
    if name in COQ_KEYWORDS or name in TEMPLATE_NAMES or name.startswith(('src_', 'self_', '_', 'r_', 'size_of_', 'sum_of_', 'py_')) \
            or not re.match(r'^[A-Za-z][A-Za-z0-9_]*$', name):
        _err(node, 'local name %r cannot be used as a Coq binder by this translator' % name)
    return name


class Env:
    def __init__(self, fn):
        self.fn = fn                  # FunTrans
        self.vars = {}                # name -> type
        self.elts = {}                # name -> list of element texts (locals bound to a tuple/list literal)
        self.binds = []               # pending (name, monadic text)
        self.noeffect = 0             # > 0: inside a position where an operation that can raise is rejected
        self.toplevel = True          # at the top level of the function body
        self.nonneg = set()           # int locals known to be >= 0 (indices of range / enumerate)
        self.pylists = set()          # locals bound to Python lists (not ndarrays)
        self.loop_acc = None          # inside a loop translated with src_for: the text of its accumulator
        self.known = {}               # (dict local, key local) -> text of the value d[k] is known to hold here
        self.positive = set()         # int locals known to be > 0 (a guard before the fragment raises otherwise)
        self.alias = {}               # free locals of a fragment whose Python name is not usable in Coq: name -> py_name

    def copy(self):
        e = Env(self.fn)
        e.vars = dict(self.vars)
        e.elts = dict(self.elts)
        e.noeffect = self.noeffect
        e.toplevel = self.toplevel
        e.nonneg = set(self.nonneg)
        e.pylists = set(self.pylists)
        e.loop_acc = self.loop_acc
        e.alias = self.alias
        e.positive = set(self.positive)
        e.known = dict(self.known)
        return e


# ------------------------------------------------------------------------------------------------ one function
class FunTrans:
    """translation of one function body; `rets` collects the return sites (placeholders in the text)"""

    def __init__(self, mod, target, clsnode, attr_info, consts):
        self.mod = mod                # ModuleInfo
        self.t = target
        self.clsnode = clsnode
        self.attr_info = attr_info    # attr -> type  (checked against __init__)
        self.consts = consts          # attr -> int
        self.rets = []                # (kind, text)
        self.effects = False          # uses bind / Raise
        self.fresh = 0
        self.stateful = bool(target.get('state'))
        self.subdefs = []             # extra definitions produced (split default)
        self.mode_effects_ok = False  # may this function use bind / Raise (declared per target)
        self.grp = target.get('grp')  # class group (object-state translation) or None
        self.mutating = False         # group method that writes the object state
        self.nbinds = 0
        self.resolved_empty = {}      # locals bound to [] whose element type a later .append fixed

    # ---------------------------------------------------------------- return sites
    def ret(self, kind, text):
        self.rets.append((kind, text))
        return '\x00RET%d\x00' % (len(self.rets) - 1)

    def finish(self, text, node):
        kinds = {k for k, _ in self.rets}
        if not kinds:
            _err(node, 'function without a return site')
        if self.grp and kinds == {'void'}:
            # a method without return statements: its result is the object state it leaves
            if not self.mutating:
                _err(node, 'method without a result and without an effect on the object')
            for i, (k, tx) in enumerate(self.rets):
                text = text.replace('\x00RET%d\x00' % i, '(Ok st)' if self.effects else 'st')
            cty = 'src_%s_state' % self.grp['name']
            return text, ('res %s' % cty if self.effects else cty)
        if 'void' in kinds:
            _err(node, 'some paths return a value and some fall off the end of a method that writes the object')
        if kinds <= {Z}:
            rty = Z
        elif kinds <= {BOOL}:
            rty = BOOL
        elif kinds <= {Z, OPTZ, 'none'}:
            rty = OPTZ
        elif len(kinds) == 1 and list(kinds)[0] not in ('none', 'void'):
            rty = list(kinds)[0]
        elif kinds <= {ZLIST, ZVEC}:
            rty = ZLIST
        else:
            _err(node, 'return sites of incompatible kinds: %s' % sorted(kinds))
        for i, (k, tx) in enumerate(self.rets):
            if rty == OPTZ:
                v = 'None' if k == 'none' else (tx if k == OPTZ else '(Some %s)' % tx)
            else:
                v = tx
            if self.t.get('threaded'):
                v = '((rs_, %s), %s)' % (self.t['threaded']['table'], v)
            if self.stateful or self.mutating:
                v = '(st, %s)' % v
            if self.effects:
                v = '(Ok %s)' % v
            text = text.replace('\x00RET%d\x00' % i, v)
        cty = coq_type(rty)
        if self.t.get('threaded'):
            cty = '((St * %s) * %s)' % (COQ_TYPE[DICTK], cty)
        self.rty = rty
        if self.stateful:
            cty = '(S * %s)' % cty
        if self.mutating:
            cty = '(src_%s_state * %s)' % (self.grp['name'], cty)
        if self.effects:
            cty = 'res %s' % (cty if ' ' not in cty or cty.startswith('(') else '(%s)' % cty)
        return text, cty

    # ---------------------------------------------------------------- expressions
    def bind(self, env, node, mtext):
        if env.noeffect:
            _err(node, 'an operation that can raise inside a short-circuit position is outside the subset')
        if not self.mode_effects_ok:
            _err(node, 'an operation that can raise in a function declared pure')
        self.fresh += 1
        self.nbinds += 1
        name = 'r_%d' % self.fresh
        env.binds.append((name, mtext))
        self.effects = True
        return name

    def expr(self, e, env):
        """-> (coq text, type)"""
        if isinstance(e, ast.Constant):
            if isinstance(e.value, bool):
                return ('true' if e.value else 'false'), BOOL
            if isinstance(e.value, int):
                return _zlit(e.value), Z
            if e.value is None:
                return 'None', OPTZ
            _err(e, 'constant %r is outside the subset' % (e.value,))
        if isinstance(e, ast.Name):
            if e.id not in env.vars:
                c = self.mod.module_constant(e.id)
                if c is not None:
                    return _zlit(c), Z          # a module-level integer constant (assigned once, never re-bound)
                _err(e, 'name %r is not a local known at this point' % e.id)
            ty = env.vars[e.id]
            if ty == UNUSED:
                _err(e, 'parameter %r is declared unused for this target but is read' % e.id)
            return env.alias.get(e.id, e.id), ty
        if isinstance(e, ast.Attribute):
            return self.attribute(e, env)
        if isinstance(e, ast.UnaryOp):
            a, ta = self.expr(e.operand, env)
            if isinstance(e.op, ast.USub) and ta == Z:
                return '(- %s)' % a, Z
            if isinstance(e.op, ast.Not) and ta == BOOL:
                return '(negb %s)' % a, BOOL
            if isinstance(e.op, ast.Not) and ta == Z:
                return '(%s =? 0)' % a, BOOL            # `not x` on an int: x == 0
            _err(e, 'unary operator %s on %s is outside the subset' % (type(e.op).__name__, ta))
        if isinstance(e, ast.BinOp):
            return self.binop(e, env)
        if isinstance(e, ast.BoolOp):
            parts = []
            for i, v in enumerate(e.values):
                if i:
                    env.noeffect += 1
                try:
                    a, ta = self.expr(v, env)
                finally:
                    if i:
                        env.noeffect -= 1
                if ta != BOOL:
                    _err(v, '`and`/`or` on a non-boolean operand (%s) is outside the subset' % ta)
                parts.append(a)
            op = ' && ' if isinstance(e.op, ast.And) else ' || '
            return '(' + op.join(parts) + ')', BOOL
        if isinstance(e, ast.Compare):
            return self.compare(e, env)
        if isinstance(e, ast.IfExp):
            c, tc = self.expr(e.test, env)
            if tc != BOOL:
                _err(e, 'condition of a conditional expression is not boolean')
            env.noeffect += 1
            try:
                a, ta = self.expr(e.body, env)
                b, tb = self.expr(e.orelse, env)
            finally:
                env.noeffect -= 1
            if ta != tb:
                a, b, ta = self.unify(e, a, ta, b, tb)
            return '(if %s then %s else %s)' % (c, a, b), ta
        if isinstance(e, ast.ListComp):
            return self.listcomp(e, env)
        if isinstance(e, ast.List) and not e.elts:
            return '[]', 'emptylist'
        if isinstance(e, ast.Tuple) and len(e.elts) == 2:
            (a, ta), (b, tb) = self.expr(e.elts[0], env), self.expr(e.elts[1], env)
            if ta != Z or tb != Z:
                # a 2-tuple whose components are not both ints (e.g. two index lists): a pair
                if any(t in (UNUSED, STATE, STORE, ADDS, DICT5, CALLP) for t in (ta, tb)):
                    _err(e, 'tuple of values of type (%s, %s)' % (ta, tb))
                return '(%s, %s)' % (a, b), pair_of(ta, tb)
            return '[%s; %s]' % (a, b), ZLIST
        if isinstance(e, (ast.Tuple, ast.List)):
            txt, _ = self.zlist_literal(e, env)
            return txt, ZLIST
        if isinstance(e, ast.Subscript):
            return self.subscript(e, env)
        if isinstance(e, ast.Call):
            return self.call(e, env)
        _err(e, 'expression %s is outside the subset' % type(e).__name__)

    def unify(self, node, a, ta, b, tb):
        if {ta, tb} == {Z, OPTZ}:
            return ('(Some %s)' % a if ta == Z else a), ('(Some %s)' % b if tb == Z else b), OPTZ
        _err(node, 'branches of different types (%s, %s)' % (ta, tb))

    def zlist_literal(self, e, env):
        elts = []
        for x in e.elts:
            a, ta = self.expr(x, env)
            if ta != Z:
                _err(x, 'element of a tuple/list literal is not an int (%s)' % ta)
            elts.append(a)
        return '[' + '; '.join(elts) + ']', elts

    def attribute(self, e, env):
        if _is_self_attr(e) and self.grp:
            a = e.attr
            for f, ty in self.grp['fields']:
                if f == a:
                    return '(src_%s_get%s st)' % (self.grp['name'], a), ty
            if a in self.grp.get('ro', {}):
                return 'self' + a, self.grp['ro'][a][0]
            _err(e, 'self.%s is not a declared attribute of this class group' % a)
        if _is_self_attr(e):
            a = e.attr
            if a in self.consts:
                return _zlit(self.consts[a]), Z
            if a in self.attr_info and a in self.t['attrs']:
                ty = self.attr_info[a]
                if ty in (ADDS, DICT5, STORE, MATRIX):
                    _err(e, 'attribute self.%s may only be used through its idiom' % a)
                return 'self' + a, ty
            _err(e, 'self.%s is not a declared attribute of this target' % a)
        if isinstance(e.value, ast.Name) and env.vars.get(e.value.id) == ARRVIEW and e.attr == 'size':
            return 'size_of_%s' % e.value.id, Z
        if isinstance(e.value, ast.Name) and env.vars.get(e.value.id) == ADD:
            if e.attr == 'cell_index':
                return '(fst %s)' % e.value.id, CELL
            if e.attr == 'timestep':
                return '(snd %s)' % e.value.id, Z
        _err(e, 'attribute access .%s is outside the subset' % e.attr)

    def const_divisor(self, node):
        if _is_int_const(node) and node.value != 0:
            return _zlit(node.value)
        if _is_self_attr(node) and node.attr in self.consts and self.consts[node.attr] != 0:
            return _zlit(self.consts[node.attr])
        _err(node, '`%` / `//` need a non-zero literal or class-constant divisor')

    def binop(self, e, env):
        if isinstance(e.op, (ast.Mod, ast.FloorDiv)):
            a, ta = self.expr(e.left, env)
            if ta != Z:
                _err(e, '`%` / `//` on a non-int')
            if not (_is_int_const(e.right) or (_is_self_attr(e.right) and e.right.attr in self.consts)):
                # divisor not known at translation time: ZeroDivisionError is modelled (src_mod / src_div)
                b, tb = self.expr(e.right, env)
                if tb != Z:
                    _err(e, '`%` / `//` by a non-int')
                r = self.bind(env, e, '%s %s %s' % ('src_mod' if isinstance(e.op, ast.Mod) else 'src_div', a, b))
                return r, Z
            d = self.const_divisor(e.right)
            return '(%s %s %s)' % ('Z.modulo' if isinstance(e.op, ast.Mod) else 'Z.div', a, d), Z
        a, ta = self.expr(e.left, env)
        b, tb = self.expr(e.right, env)
        if ta == NNUM:
            a, ta = '(Z.of_N %s)' % a, Z      # a natural-number argument (rule number, number of colours) as an int
        if tb == NNUM:
            b, tb = '(Z.of_N %s)' % b, Z
        if isinstance(e.op, ast.Add) and elem_type(ta) is not None and elem_type(ta) == elem_type(tb) \
                and ta not in (ADDS, HIST) and self.is_list_value(e.left, env) and self.is_list_value(e.right, env):
            return '(%s ++ %s)' % (a, b), (ZLIST if elem_type(ta) == Z else ta)
        if isinstance(e.op, ast.BitXor) and ta == BITINT and tb == BITINT:
            return '(xorb %s %s)' % (a, b), BITINT
        if ta != Z or tb != Z:
            _err(e, 'arithmetic on non-int operands (%s, %s) is outside the subset' % (ta, tb))
        if isinstance(e.op, (ast.LShift, ast.Pow)):
            if not self.is_nonneg(e.right, env):
                _err(e, '`<<` / `**` with a right operand that is not known to be >= 0')
            return ('(Z.shiftl %s %s)' if isinstance(e.op, ast.LShift) else '(Z.pow %s %s)') % (a, b), Z
        if isinstance(e.op, ast.Add):
            return '(%s + %s)' % (a, b), Z
        if isinstance(e.op, ast.Sub):
            return '(%s - %s)' % (a, b), Z
        if isinstance(e.op, ast.Mult):
            return '(%s * %s)' % (a, b), Z
        if isinstance(e.op, ast.BitXor):
            return '(Z.lxor %s %s)' % (a, b), Z
        if isinstance(e.op, ast.RShift):
            if not self.is_nonneg(e.right, env):
                _err(e, '`>>` with a right operand that is not known to be >= 0')
            return '(Z.shiftr %s %s)' % (a, b), Z
        if isinstance(e.op, ast.BitOr):
            return '(Z.lor %s %s)' % (a, b), Z
        if isinstance(e.op, ast.BitAnd):
            return '(Z.land %s %s)' % (a, b), Z
        _err(e, 'operator %s is outside the subset' % type(e.op).__name__)

    def compare(self, e, env):
        operands = [e.left] + list(e.comparators)
        # membership / identity: single comparison only
        if any(isinstance(op, (ast.In, ast.NotIn, ast.Is, ast.IsNot)) for op in e.ops):
            if len(e.ops) != 1:
                _err(e, 'chained `in` / `is` is outside the subset')
            op, l, r = e.ops[0], operands[0], operands[1]
            if isinstance(op, (ast.Is, ast.IsNot)):
                if not (isinstance(r, ast.Constant) and r.value is None):
                    _err(e, '`is` is only translated against None')
                a, ta = self.expr(l, env)
                if ta != OPTZ:
                    _err(e, '`is None` on a value that is not an option (%s)' % ta)
                t = '(src_is_none %s)' % a
                return (t if isinstance(op, ast.Is) else '(negb %s)' % t), BOOL
            a, ta = self.expr(l, env)
            if ta == ACELL:
                lst, tl = self.expr(r, env)
                if tl != CELLLIST:
                    _err(e, '`in` on a cell identity needs a list of cells on the right')
                t = '(existsb (cell_eqb %s) %s)' % (a, lst)
                return (t if isinstance(op, ast.In) else '(negb %s)' % t), BOOL
            if ta != Z:
                _err(e, 'left operand of `in` is not an int (%s)' % ta)
            if isinstance(r, ast.Tuple):
                lst, _ = self.zlist_literal(r, env)
            elif isinstance(r, ast.Name) and env.vars.get(r.id) == ZLIST:
                lst = r.id
            else:
                _err(e, '`in` is only translated on a tuple literal of ints or a local bound to one')
            t = '(src_zin %s %s)' % (a, lst)
            return (t if isinstance(op, ast.In) else '(negb %s)' % t), BOOL
        if len(e.ops) == 1 and isinstance(e.ops[0], (ast.Eq, ast.NotEq)) and isinstance(operands[0], ast.Name) \
                and env.vars.get(operands[0].id) == SCHEME and isinstance(operands[1], ast.Constant) \
                and operands[1].value == 'nks':
            t = '(match %s with SNks => true | SDefault => false end)' % operands[0].id
            return (t if isinstance(e.ops[0], ast.Eq) else '(negb %s)' % t), BOOL
        texts = [self.expr(x, env) for x in operands]
        parts = []
        for i, op in enumerate(e.ops):
            (a, ta), (b, tb) = texts[i], texts[i + 1]
            if ta == tb and ta in (SYM, SYM2) and isinstance(op, (ast.Eq, ast.NotEq)):
                t = '(if %s %s %s then true else false)' % ('sym_dec' if ta == SYM else 'sym2_dec', a, b)
                parts.append(t if isinstance(op, ast.Eq) else '(negb %s)' % t)
                continue
            if ta == ACELL and tb == ACELL and isinstance(op, (ast.Eq, ast.NotEq)):
                t = '(cell_eqb %s %s)' % (a, b)
                parts.append(t if isinstance(op, ast.Eq) else '(negb %s)' % t)
                continue
            if ta == CELL and tb == CELL and isinstance(op, (ast.Eq, ast.NotEq)):
                t = '(src_cell_eqb %s %s)' % (a, b)
                parts.append(t if isinstance(op, ast.Eq) else '(negb %s)' % t)
                continue
            if ta != Z or tb != Z:
                _err(e, 'comparison of non-int operands (%s, %s) is outside the subset' % (ta, tb))
            if isinstance(op, ast.Eq):
                parts.append('(%s =? %s)' % (a, b))
            elif isinstance(op, ast.NotEq):
                parts.append('(negb (%s =? %s))' % (a, b))
            elif isinstance(op, ast.Lt):
                parts.append('(%s <? %s)' % (a, b))
            elif isinstance(op, ast.LtE):
                parts.append('(%s <=? %s)' % (a, b))
            elif isinstance(op, ast.Gt):
                parts.append('(%s <? %s)' % (b, a))
            elif isinstance(op, ast.GtE):
                parts.append('(%s <=? %s)' % (b, a))
            else:
                _err(e, 'comparison operator %s is outside the subset' % type(op).__name__)
        return (parts[0] if len(parts) == 1 else '(' + ' && '.join(parts) + ')'), BOOL

    def slice_expr(self, e, env):
        l, tl = self.expr(e.value, env)
        if elem_type(tl) is None or tl in (ADDS, HIST):
            _err(e, 'slice of a value of type %s' % tl)
        rty = ZLIST if elem_type(tl) == Z else tl
        sl = e.slice
        if sl.step is not None:
            if sl.lower is None and sl.upper is None and isinstance(sl.step, ast.UnaryOp) \
                    and isinstance(sl.step.op, ast.USub) and _is_int_const(sl.step.operand) and sl.step.operand.value == 1:
                return '(rev %s)' % l, rty
            _err(e, 'slice with a step other than [::-1]')
        # l[:-1]
        if sl.lower is None and isinstance(sl.upper, ast.UnaryOp) and isinstance(sl.upper.op, ast.USub) \
                and _is_int_const(sl.upper.operand) and sl.upper.operand.value == 1:
            return '(removelast %s)' % l, rty
        # l[:-d] with d a local known to be > 0: everything but the last d elements (nothing when d >= len)
        if sl.lower is None and isinstance(sl.upper, ast.UnaryOp) and isinstance(sl.upper.op, ast.USub) \
                and isinstance(sl.upper.operand, ast.Name) and sl.upper.operand.id in env.positive \
                and env.vars.get(sl.upper.operand.id) == Z:
            return '(firstn (length %s - Z.to_nat %s)%%nat %s)' % (l, sl.upper.operand.id, l), rty
        lo = self.expr(sl.lower, env) if sl.lower is not None else None
        hi = self.expr(sl.upper, env) if sl.upper is not None else None
        if (lo and lo[1] != Z) or (hi and hi[1] != Z):
            _err(e, 'slice bound that is not an int')
        if any(b is not None and not self.is_nonneg(b, env) for b in (sl.lower, sl.upper)):
            # a bound that may be negative: Python's saturating slice (src_slice: a negative bound counts from the
            # end, every bound is clipped to 0..len)
            return '(src_slice %s %s %s)' % (l, '(Some %s)' % lo[0] if lo else 'None',
                                             '(Some %s)' % hi[0] if hi else 'None'), rty
        if lo is None and hi is None:
            return l, rty
        if lo is None:
            return '(firstn (Z.to_nat %s) %s)' % (hi[0], l), rty
        if hi is None:
            return '(skipn (Z.to_nat %s) %s)' % (lo[0], l), rty
        return '(firstn (Z.to_nat %s - Z.to_nat %s)%%nat (skipn (Z.to_nat %s) %s))' % (hi[0], lo[0], lo[0], l), rty

    def listcomp(self, e, env):
        if len(e.generators) != 1:
            _err(e, 'comprehension with several generators')
        g = e.generators[0]
        # [int(d) for d in bin(num)[2:]]: the binary digits of num (the model's bin_digits), like list(map(int, ..))
        if (not g.ifs and isinstance(g.target, ast.Name) and isinstance(e.elt, ast.Call)
                and isinstance(e.elt.func, ast.Name) and e.elt.func.id == 'int' and len(e.elt.args) == 1
                and not e.elt.keywords and isinstance(e.elt.args[0], ast.Name) and e.elt.args[0].id == g.target.id
                and isinstance(g.iter, ast.Subscript) and isinstance(g.iter.slice, ast.Slice)
                and _is_int_const(g.iter.slice.lower) and g.iter.slice.lower.value == 2
                and g.iter.slice.upper is None and g.iter.slice.step is None
                and isinstance(g.iter.value, ast.Call) and isinstance(g.iter.value.func, ast.Name)
                and g.iter.value.func.id == 'bin' and len(g.iter.value.args) == 1
                and isinstance(g.iter.value.args[0], ast.Name) and env.vars.get(g.iter.value.args[0].id) == NNUM):
            return '(bin_digits %s)' % g.iter.value.args[0].id, ZLIST
        if g.is_async or len(g.ifs) > 1:
            _err(e, 'comprehension with several conditions')
        lst, ety, nonneg = self.iter_source(g.iter, env)
        pat, newvars, nn = self.bind_pattern(g.target, ety, env, nonneg)
        inner = env.copy()
        inner.vars.update(newvars)
        inner.nonneg = set(env.nonneg) | set(nn)
        inner.noeffect = 1
        try:
            lst0 = lst
            if g.ifs:
                c, tc = self.expr(g.ifs[0], inner)
                if tc != BOOL:
                    _err(e, 'condition of a comprehension is not boolean')
                lst0 = '(filter (fun %s => %s) %s)' % (pat, c, lst)
            b, tb = self.expr(e.elt, inner)
            return '(map (fun %s => %s) %s)' % (pat, b, lst0), list_of(tb)
        except TranslationError as ex:
            if 'that can raise inside a short-circuit position' not in str(ex) or not self.mode_effects_ok \
                    or env.noeffect:
                raise
        # the condition or the element can raise: src_filterm / src_mapm evaluate them in order, first exception wins
        inner = env.copy()
        inner.vars.update(newvars)
        inner.nonneg = set(env.nonneg) | set(nn)
        inner.noeffect = 0
        if g.ifs:
            c, tc = self.expr(g.ifs[0], inner)
            if tc != BOOL:
                _err(e, 'condition of a comprehension is not boolean')
            cm = self.wrap_binds(inner, '(Ok %s)' % c)
            lst = self.bind(env, e, 'src_filterm (fun %s =>\n%s) %s' % (pat, cm, lst))
        inner2 = env.copy()
        inner2.vars.update(newvars)
        inner2.nonneg = set(env.nonneg) | set(nn)
        inner2.noeffect = 0
        b, tb = self.expr(e.elt, inner2)
        if inner2.binds:
            bm = self.wrap_binds(inner2, '(Ok %s)' % b)
            return self.bind(env, e, 'src_mapm (fun %s =>\n%s) %s' % (pat, bm, lst)), list_of(tb)
        return '(map (fun %s => %s) %s)' % (pat, b, lst), list_of(tb)

    def subscript(self, e, env):
        if isinstance(e.slice, ast.Slice):
            return self.slice_expr(e, env)
        if isinstance(e.value, ast.Name) and env.vars.get(e.value.id) in (DICTK, SDICT) and isinstance(e.slice, ast.Name):
            kv = env.known.get((e.value.id, e.slice.id))
            if kv is None:
                _err(e, '%s[%s] is read where the key is not known to be present' % (e.value.id, e.slice.id))
            return kv, Z
        # self._W[a, b] on a matrix attribute: NumPy indexing (negative indices, IndexError)
        al = self.t.get('attr_locals') or {}
        if _is_self_attr(e.value) and isinstance(e.slice, ast.Tuple) and len(e.slice.elts) == 2 and (
                (self.attr_info.get(e.value.attr) == MATRIX and e.value.attr in self.t['attrs']) or
                (al.get(e.value.attr) == MATRIX and env.vars.get('self' + e.value.attr) == MATRIX)):
            (a, ta), (b, tb) = self.expr(e.slice.elts[0], env), self.expr(e.slice.elts[1], env)
            if ta != Z or tb != Z:
                _err(e, 'matrix index that is not a pair of ints')
            return self.bind(env, e, 'src_mat_get self%s %s %s' % (e.value.attr, a, b)), Z
        # n[n.shape[0]//2][n.shape[1]//2] on a 2D array: the centre idiom
        if isinstance(e.value, ast.Subscript) and isinstance(e.value.value, ast.Name) \
                and env.vars.get(e.value.value.id) == GRID2:
            nm = e.value.value.id

            def half_shape(x, k):
                return (isinstance(x, ast.BinOp) and isinstance(x.op, ast.FloorDiv) and _is_int_const(x.right)
                        and x.right.value == 2 and isinstance(x.left, ast.Subscript) and _is_int_const(x.left.slice)
                        and x.left.slice.value == k and isinstance(x.left.value, ast.Attribute)
                        and x.left.value.attr == 'shape' and isinstance(x.left.value.value, ast.Name)
                        and x.left.value.value.id == nm)
            if half_shape(e.value.slice, 0) and half_shape(e.slice, 1):
                return '(nth (length (hd [] %s) / 2)%%nat (nth (length %s / 2)%%nat %s []) 0)' % (nm, nm, nm), Z
            _err(e, 'subscript of a 2D array other than n[n.shape[0]//2][n.shape[1]//2]')
        # L[i] on a list of cell identities (a field of the object): Python indexing, IndexError modelled
        if not isinstance(e.value, ast.Name) and not isinstance(e.value, ast.Subscript) and self.grp:
            lst, tl = self.expr(e.value, env)
            if tl == CELLLIST:
                i, ti = self.expr(e.slice, env)
                if ti != Z:
                    _err(e, 'index of a list of cells is not an int')
                return self.bind(env, e, 'py_get %s %s' % (lst, i)), ACELL
            _err(e, 'subscript of a value of type %s is outside the subset' % tl)
        # n[i][j] on the 3x3 block
        if isinstance(e.value, ast.Subscript) and isinstance(e.value.value, ast.Name) \
                and env.vars.get(e.value.value.id) == NBHD:
            i, j = e.value.slice, e.slice
            if _is_int_const(i) and _is_int_const(j) and i.value in (0, 1, 2) and j.value in (0, 1, 2):
                return '(src_nb %s %d %d)' % (e.value.value.id, i.value, j.value), Z
            _err(e, 'subscript of the 3x3 neighbourhood with indices that are not constants in 0..2')
        if isinstance(e.value, ast.Name) and env.vars.get(e.value.id) == ROWS and not isinstance(e.slice, ast.Tuple):
            i, ti = self.expr(e.slice, env)
            if ti != Z:
                _err(e, 'index of a list of rows is not an int')
            return self.bind(env, e, 'py_get %s %s' % (e.value.id, i)), ZLIST
        if isinstance(e.value, ast.Name) and env.vars.get(e.value.id) in (ZLIST, BITS, DIGITS):
            i, ti = self.expr(e.slice, env)
            if ti != Z:
                _err(e, 'index of a list is not an int')
            return self.bind(env, e, 'py_get %s %s' % (e.value.id, i)), elem_type(env.vars[e.value.id])
        if isinstance(e.value, ast.Name):
            ty = env.vars.get(e.value.id)
            if ty == CELL and _is_int_const(e.slice) and e.slice.value in (0, 1):
                return '(%s %s)' % ('fst' if e.slice.value == 0 else 'snd', e.value.id), Z
            if ty == ZVEC:
                # n[len(n) // 2]
                s = e.slice
                if (isinstance(s, ast.BinOp) and isinstance(s.op, ast.FloorDiv) and _is_int_const(s.right)
                        and s.right.value == 2 and isinstance(s.left, ast.Call) and isinstance(s.left.func, ast.Name)
                        and s.left.func.id == 'len' and len(s.left.args) == 1 and not s.left.keywords
                        and isinstance(s.left.args[0], ast.Name) and s.left.args[0].id == e.value.id):
                    return '(nth (length %s / 2)%%nat %s 0)' % (e.value.id, e.value.id), Z
                _err(e, 'subscript of the 1D neighbourhood other than n[len(n) // 2]')
            if ty == HIST:
                s = e.slice
                if isinstance(s, ast.UnaryOp) and isinstance(s.op, ast.USub) and _is_int_const(s.operand) \
                        and s.operand.value > 0:
                    r = self.bind(env, e, 'py_get %s (%d)' % (e.value.id, -s.operand.value))
                    return r, CFG
                _err(e, 'subscript of the list of states other than ca[-k]')
        if self.stateful and _is_self_attr(e.value, self.t['state']):
            i, ti = self.expr(e.slice, env)
            if ti != NATIDX:
                _err(e, 'index of self.%s is not the cell index' % self.t['state'])
            r = self.bind(env, e, 'src_index (vec_read st %s)' % i)
            return r, Z
        _err(e, 'subscript is outside the subset')

    def call(self, e, env):
        f = e.func
        th = self.t.get('threaded')
        # n.tobytes() on the neighbourhood: its cache key, the parameter nb_key (TRUSTED abstraction: for one dtype and
        # one shape byte equality is equality of the cell values; a MaskedArray is filled before it is serialised, so
        # masked cells do not reach the key)
        if th and isinstance(f, ast.Attribute) and f.attr == 'tobytes' and not e.args and not e.keywords \
                and isinstance(f.value, ast.Name) and env.vars.get(f.value.id) == ANB:
            return '(nb_key %s)' % f.value.id, ZLIST
        # apply_rule(n, c, t): the rule is a state machine St -> .. -> St * Z; its state rs_ is threaded
        if th and isinstance(f, ast.Name) and f.id == th['callable'] and env.vars.get(f.id) == CALLP:
            if env.noeffect:
                _err(e, 'call of the rule inside a short-circuit position')
            args = self.call_args(e, env, th['sig'], f.id)
            self.fresh += 1
            k_ = self.fresh
            env.binds.append(("let:'(rs_, v_%d)" % k_, '%s rs_ %s' % (th['callable'], ' '.join(args))))
            return 'v_%d' % k_, Z
        if th and isinstance(f, ast.Name) and f.id == 'len' and len(e.args) == 1 and isinstance(e.args[0], ast.Name) \
                and env.vars.get(e.args[0].id) == DICTK:
            return '(Z.of_nat (length %s))' % e.args[0].id, Z
        # a.take(idx, mode='wrap') on a 1-D array: element i mod len(a) for every index (IndexError for a non-empty
        # take from an empty array)
        if isinstance(f, ast.Attribute) and f.attr == 'take' and len(e.args) == 1 and len(e.keywords) == 1 \
                and e.keywords[0].arg == 'mode' and isinstance(e.keywords[0].value, ast.Constant) \
                and e.keywords[0].value.value == 'wrap':
            a, ta = self.expr(f.value, env)
            idx, ti = self.expr(e.args[0], env)
            if ta not in (ZLIST, ZVEC) or ti not in (ZLIST, ZVEC):
                _err(e, '.take(.., mode=wrap) on (%s, %s)' % (ta, ti))
            return self.bind(env, e, 'src_take_wrap %s %s' % (a, idx)), ZLIST
        # np.base_repr(rule, base=k).zfill(w): the model's base_repr (digit values, ValueError for a base outside
        # 2..36) and zfill
        if isinstance(f, ast.Attribute) and f.attr == 'zfill' and len(e.args) == 1 and not e.keywords \
                and isinstance(f.value, ast.Call) and ast.unparse(f.value.func) == 'np.base_repr' \
                and self.mod.imports_numpy_as_np and len(f.value.args) == 1 and len(f.value.keywords) == 1 \
                and f.value.keywords[0].arg == 'base':
            r, tr = self.expr(f.value.args[0], env)
            k, tk = self.expr(f.value.keywords[0].value, env)
            w, tw = self.expr(e.args[0], env)
            if tr != NNUM or tk != NNUM or tw != Z:
                _err(e, 'np.base_repr(..).zfill(..) on (%s, %s, %s)' % (tr, tk, tw))
            d = self.bind(env, e, 'base_repr %s %s' % (r, k))
            return '(zfill %s %s)' % (w, d), DIGITS
        if ast.unparse(f) == 'np.base_repr' and self.mod.imports_numpy_as_np and len(e.args) == 1 \
                and len(e.keywords) == 1 and e.keywords[0].arg == 'base':
            r, tr = self.expr(e.args[0], env)
            k, tk = self.expr(e.keywords[0].value, env)
            if tr != NNUM or tk != NNUM:
                _err(e, 'np.base_repr on (%s, %s)' % (tr, tk))
            return self.bind(env, e, 'base_repr %s %s' % (r, k)), DIGITS
        if isinstance(f, ast.Attribute) and f.attr == 'zfill' and len(e.args) == 1 and not e.keywords:
            d, td = self.expr(f.value, env)
            w, tw = self.expr(e.args[0], env)
            if td == DIGITS and tw == Z:
                return '(zfill %s %s)' % (w, d), DIGITS
            _err(e, '.zfill on (%s, %s)' % (td, tw))
        # binary_rule(n, R, scheme='nks') with R a rule number: the model's nks_rule n R (= binary_rule n (RInt R) SNks None)
        if isinstance(f, ast.Name) and f.id == 'binary_rule' and len(e.args) == 2 and len(e.keywords) == 1 \
                and e.keywords[0].arg == 'scheme' and isinstance(e.keywords[0].value, ast.Constant) \
                and e.keywords[0].value.value == 'nks' and self.mod.has_function('binary_rule') \
                and self.t['prop'] != 'C07':
            n, tn = self.expr(e.args[0], env)
            r, tr = self.expr(e.args[1], env)
            if tn == ZVEC and tr == NNUM:
                return self.bind(env, e, 'nks_rule %s %s' % (n, r)), Z
            _err(e, 'binary_rule(.., scheme=nks) on (%s, %s)' % (tn, tr))
        # int(ch, k) on one character of a digit string
        if isinstance(f, ast.Name) and f.id == 'int' and len(e.args) == 2 and not e.keywords:
            ch, tc = self.expr(e.args[0], env)
            k, tk = self.expr(e.args[1], env)
            if tc != DIGIT or tk != NNUM:
                _err(e, 'int(.., base) on (%s, %s)' % (tc, tk))
            return self.bind(env, e, 'int_base %s %s' % (ch, k)), NNUM
        if e.keywords and not (isinstance(f, ast.Attribute) and isinstance(f.value, ast.Name) and f.value.id == 'np'
                               and f.attr == 'zeros'):
            _err(e, 'keyword arguments are outside the subset')
        # np.sum(n) / np.any([...])
        if isinstance(f, ast.Attribute) and isinstance(f.value, ast.Name) and f.value.id == 'np':
            if not self.mod.imports_numpy_as_np:
                _err(e, '`np` is not `import numpy as np` in this module')
            if f.attr == 'concatenate' and len(e.args) == 1 and isinstance(e.args[0], ast.Tuple) and e.args[0].elts:
                parts = [self.expr(x, env) for x in e.args[0].elts]
                if any(t not in (ZLIST, ZVEC) for _, t in parts):
                    _err(e, 'np.concatenate of values that are not 1-D int arrays')
                return '(' + ' ++ '.join(t for t, _ in parts) + ')', ZLIST
            if f.attr == 'arange' and len(e.args) == 1:
                a, ta = self.expr(e.args[0], env)
                if ta != Z:
                    _err(e, 'np.arange of a non-int')
                return '(src_range 0 %s)' % a, ZLIST
            if f.attr == 'absolute' and len(e.args) == 1:
                a, ta = self.expr(e.args[0], env)
                if ta != Z:
                    _err(e, 'np.absolute of a non-int')
                return '(Z.abs %s)' % a, Z
            if f.attr == 'zeros' and len(e.args) == 1 and isinstance(e.args[0], ast.Tuple) and len(e.args[0].elts) == 2 \
                    and len(e.keywords) == 1 and e.keywords[0].arg == 'dtype' and ast.unparse(e.keywords[0].value) == 'bool':
                dims = e.args[0].elts
                if not all(self.is_nonneg(d, env) for d in dims):
                    _err(e, 'np.zeros with a dimension that is not known to be >= 0')
                (a, ta), (b, tb) = self.expr(dims[0], env), self.expr(dims[1], env)
                if ta != Z or tb != Z:
                    _err(e, 'np.zeros with non-int dimensions')
                return '(repeat (repeat false (Z.to_nat %s)) (Z.to_nat %s))' % (b, a), BOOLMATRIX
            if f.attr == 'zeros' and len(e.args) == 1 and isinstance(e.args[0], ast.Tuple) and len(e.args[0].elts) == 2 \
                    and all(k.arg == 'dtype' for k in e.keywords):
                dims = e.args[0].elts
                if not all(self.is_nonneg(d, env) for d in dims):
                    _err(e, 'np.zeros with a dimension that is not known to be >= 0')
                (a, ta), (b, tb) = self.expr(dims[0], env), self.expr(dims[1], env)
                if ta != Z or tb != Z:
                    _err(e, 'np.zeros with non-int dimensions')
                return '(repeat (repeat 0 (Z.to_nat %s)) (Z.to_nat %s))' % (b, a), MATRIX
            if f.attr == 'sum' and len(e.args) == 1 and isinstance(e.args[0], ast.Name) \
                    and env.vars.get(e.args[0].id) == ARRVIEW:
                return 'sum_of_%s' % e.args[0].id, Z
            if f.attr == 'sum' and len(e.args) == 1 and isinstance(e.args[0], ast.Name) \
                    and env.vars.get(e.args[0].id) == NBHD:
                return '(zsum (concat %s))' % e.args[0].id, Z
            if f.attr == 'any' and len(e.args) == 1 and isinstance(e.args[0], ast.ListComp):
                lc = e.args[0]
                if len(lc.generators) != 1:
                    _err(e, 'comprehension with several generators')
                g = lc.generators[0]
                if g.ifs or g.is_async or not isinstance(g.target, ast.Name) or not isinstance(g.iter, ast.Tuple):
                    _err(e, 'np.any is only translated over [E for i in (tuple literal)]')
                v = _check_ident(g.target, g.target.id)
                if v in env.vars:
                    _err(e, 'comprehension variable %r shadows a local' % v)
                lst, _ = self.zlist_literal(g.iter, env)
                inner = env.copy()
                inner.vars[v] = Z
                inner.noeffect = 1
                b, tb = self.expr(lc.elt, inner)
                if tb != BOOL:
                    _err(e, 'np.any over non-boolean elements')
                return '(existsb (fun %s => %s) %s)' % (v, b, lst), BOOL
            # np.pad(l, (k, 0), 'constant'): k zeros in front; a negative k raises ValueError
            if f.attr == 'pad' and len(e.args) == 3 and isinstance(e.args[1], ast.Tuple) \
                    and len(e.args[1].elts) == 2 and _is_int_const(e.args[1].elts[1]) and e.args[1].elts[1].value == 0 \
                    and isinstance(e.args[2], ast.Constant) and e.args[2].value == 'constant':
                l, tl = self.expr(e.args[0], env)
                k, tk = self.expr(e.args[1].elts[0], env)
                if tl != ZLIST or tk != Z:
                    _err(e, 'np.pad on (%s, %s)' % (tl, tk))
                return self.bind(env, e, 'src_pad_left %s %s' % (k, l)), ZLIST
            _err(e, 'np.%s(...) in this form is outside the subset' % f.attr)
        if _is_self_attr(f) and self.grp:
            return self.group_call(e, env, statement=False)
        # self._method(args)
        if _is_self_attr(f):
            callee = self.mod.method_target(self.t.get('cls'), f.attr)
            if callee is None and self.clsnode is not None and not e.keywords:
                # a private method of the same class that is not a declared target (extracted from a target):
                # translated on the fly like a module-level helper, with the attributes of the calling target
                meths = [m for m in self.clsnode.body if isinstance(m, ast.FunctionDef) and m.name == f.attr]
                if len(meths) == 1:
                    return self.inline_method(e, meths[0], env)
            if callee is None:
                _err(e, 'self.%s(...) is not a translated method' % f.attr)
            if len(e.args) != len(callee['params']):
                _err(e, 'self.%s called with %d arguments' % (f.attr, len(e.args)))
            args = []
            for a in callee['attrs']:
                if a not in self.t['attrs']:
                    _err(e, 'callee needs self.%s which this target does not declare' % a)
                args.append('self' + a)
            for x, (pn, pty) in zip(e.args, callee['params']):
                tx, ty = self.expr(x, env)
                if ty != pty:
                    _err(x, 'argument %s of self.%s has type %s, expected %s' % (pn, f.attr, ty, pty))
                args.append(tx)
            rr = self.mod.result_type(callee['name'])
            if rr is None:
                _err(e, 'self.%s was not translated (or is translated later)' % f.attr)
            if rr[1]:
                return self.bind(env, e, 'src_%s %s' % (callee['name'], ' '.join(args))), rr[0]
            return '(src_%s %s)' % (callee['name'], ' '.join(args)), rr[0]
        # f(args) where f is a translated module-level function of the same file
        if isinstance(f, ast.Name):
            callee = next((t for t in TARGETS if t['file'] == self.mod.fname and t.get('cls') is None
                           and t['func'] == f.id and not t.get('inner') and not t.get('nested')
                           and not t.get('locate') and not t.get('locate_stmts')), None)
            if callee is None and self.t.get('cls') is None:
                # a closure defined in the same enclosing function
                callee = next((t for t in TARGETS if t['file'] == self.mod.fname and t.get('cls') is None
                               and t['func'] == self.t['func'] and t.get('nested') and not t.get('locate')
                               and t['prop'] == self.t['prop']
                               and (t['nested'][-1] == f.id or _moved_out(self.mod, t) == f.id)), None)
                if callee is not None and f.id in env.vars:
                    callee = None
            if callee is not None and callee['prop'] != self.t['prop']:
                _err(e, '%s belongs to another property (%s): calls across properties are not translated' % (
                    f.id, callee['prop']))
            if callee is not None and (self.mod.has_function(f.id) or callee.get('nested')):
                live = [(pn, pty) for pn, pty in callee['params']]
                if len(e.args) != len(live):
                    _err(e, '%s called with %d arguments' % (f.id, len(e.args)))
                args = []
                for x, (pn, pty) in zip(e.args, live):
                    tx, ty = self.expr(x, env)
                    if ty != pty and not ({ty, pty} <= {ZLIST, ZVEC}):
                        _err(x, 'argument %s of %s has type %s, expected %s' % (pn, f.id, ty, pty))
                    if pty == ARRVIEW:
                        args.append('size_of_%s sum_of_%s' % (tx, tx))
                    elif pty != UNUSED:
                        args.append(tx)
                rr = self.mod.result_type(callee['name'])
                if rr is None:
                    _err(e, '%s was not translated (or is translated later)' % f.id)
                if rr[1]:
                    return self.bind(env, e, 'src_%s %s' % (callee['name'], ' '.join(args))), rr[0]
                return '(src_%s %s)' % (callee['name'], ' '.join(args)), rr[0]
            # a module-level function of the same file that is NOT a declared target (a helper extracted from a
            # target): translated on the fly with the parameter types of this call site, as an auxiliary definition
            # src_h_<name>; positional arguments only, no defaults, no decorators, no recursion; fail-closed as usual
            if callee is None and f.id not in env.vars and not (
                    f.id in ('nks_rule', 'binary_rule') and self.t['prop'] != 'C07'):
                helper = [n for n in self.mod.tree.body if isinstance(n, ast.FunctionDef) and n.name == f.id]
                if len(helper) == 1 and not e.keywords:
                    return self.inline_helper(e, helper[0], env)
        # list(map(int, bin(num)[2:])): the binary digits of num, most significant first (the model's bin_digits)
        if isinstance(f, ast.Name) and f.id == 'list' and len(e.args) == 1 and \
                ast.dump(e.args[0])[:0] == '' and self.is_bin_digits(e.args[0], env):
            return '(bin_digits %s)' % e.args[0].args[1].value.args[0].id, ZLIST
        # a.dot(b) on two vectors: the model's dot
        if isinstance(f, ast.Attribute) and f.attr == 'dot' and len(e.args) == 1:
            a, ta = self.expr(f.value, env)
            b, tb = self.expr(e.args[0], env)
            if {ta, tb} <= {ZLIST, ZVEC}:
                return '(dot %s %s)' % (a, b), Z
            _err(e, '.dot on (%s, %s)' % (ta, tb))
        # dict.fromkeys(list(s)): the distinct symbols of s, first occurrence first (the model's keys)
        if ast.unparse(f) == 'dict.fromkeys' and len(e.args) == 1 and isinstance(e.args[0], ast.Call) \
                and isinstance(e.args[0].func, ast.Name) and e.args[0].func.id == 'list' and len(e.args[0].args) == 1:
            l, tl = self.expr(e.args[0].args[0], env)
            if tl == SYMLIST:
                return '(keys sym_dec %s)' % l, SYMLIST
            _err(e, 'dict.fromkeys(list(..)) of a value of type %s' % tl)
        # s.count(x) on a list of symbols
        if isinstance(f, ast.Attribute) and f.attr == 'count' and len(e.args) == 1:
            l, tl = self.expr(f.value, env)
            x, tx = self.expr(e.args[0], env)
            if tl == SYMLIST and tx == SYM:
                return '(Z.of_nat (count_occ sym_dec %s %s))' % (l, x), Z
            _err(e, '.count on (%s, %s)' % (tl, tx))
        if ast.unparse(f) == 'operator.index' and len(e.args) == 1 and not e.keywords:
            a, ta = self.expr(e.args[0], env)
            if ta == Z:
                return a, Z          # operator.index of an int is that int
            _err(e, 'operator.index of a value of type %s' % ta)
        # int(ch) on a character of a binary string: the bit
        if isinstance(f, ast.Name) and f.id == 'int' and len(e.args) == 1 and not e.keywords:
            a, ta = self.expr(e.args[0], env)
            if ta == BIT:
                return a, BITINT
            if ta == Z:
                return a, Z          # int() of an integer value (values are Z)
            _err(e, 'int(..) of a value of type %s' % ta)
        # builtin any([..]) / any(.. for ..) over a boolean comprehension: existsb (like np.any([..]))
        if isinstance(f, ast.Name) and f.id == 'any' and 'any' not in env.vars and len(e.args) == 1 and not e.keywords \
                and isinstance(e.args[0], (ast.ListComp, ast.GeneratorExp)) and len(e.args[0].generators) == 1 \
                and not e.args[0].generators[0].ifs:
            g = e.args[0].generators[0]
            if _is_self_attr(g.iter) and self.attr_info.get(g.iter.attr) == ADDS and g.iter.attr in self.t['attrs'] \
                    and isinstance(g.target, ast.Name):
                # any(<test> for g in self._grain_additions): the scan, as in the loop form
                x = _check_ident(g.target, g.target.id)
                if x in env.vars:
                    _err(e, 'generator variable %r shadows a local' % x)
                inner = env.copy()
                inner.vars[x] = ADD
                inner.noeffect = 1
                b, tb = self.expr(e.args[0].elt, inner)
                if tb != BOOL:
                    _err(e, 'any(..) over non-boolean elements')
                return '(existsb (fun %s => %s) self%s)' % (x, b, g.iter.attr), BOOL
            lst, ety, nonneg = self.iter_source(g.iter, env)
            pat, newvars, nn = self.bind_pattern(g.target, ety, env, nonneg)
            inner = env.copy()
            inner.vars.update(newvars)
            inner.noeffect = 1
            b, tb = self.expr(e.args[0].elt, inner)
            if tb != BOOL:
                _err(e, 'any(..) over non-boolean elements')
            return '(existsb (fun %s => %s) %s)' % (pat, b, lst), BOOL
        # sum(c for v in l) with c boolean: the number of elements that satisfy c
        if isinstance(f, ast.Name) and f.id == 'sum' and 'sum' not in env.vars and len(e.args) == 1 and not e.keywords \
                and isinstance(e.args[0], (ast.ListComp, ast.GeneratorExp)) and len(e.args[0].generators) == 1 \
                and not e.args[0].generators[0].ifs and not _is_int_const(e.args[0].elt):
            g = e.args[0].generators[0]
            lst, ety, nonneg = self.iter_source(g.iter, env)
            pat, newvars, nn = self.bind_pattern(g.target, ety, env, nonneg)
            inner = env.copy()
            inner.vars.update(newvars)
            inner.noeffect = 1
            b, tb = self.expr(e.args[0].elt, inner)
            if tb != BOOL:
                _err(e, 'sum(..) over elements that are not booleans (or the constant 1)')
            return '(Z.of_nat (length (filter (fun %s => %s) %s)))' % (pat, b, lst), Z
        # sum(1 for v in l if c): the number of elements that satisfy c (= len([1 for v in l if c]))
        if isinstance(f, ast.Name) and f.id == 'sum' and len(e.args) == 1 and not e.keywords \
                and isinstance(e.args[0], ast.GeneratorExp) and _is_int_const(e.args[0].elt) and e.args[0].elt.value == 1:
            lc = ast.ListComp(elt=e.args[0].elt, generators=e.args[0].generators)
            ast.copy_location(lc, e.args[0])
            l, tl = self.expr(lc, env)
            return '(Z.of_nat (length %s))' % l, Z
        # ''.join(str(x) for x in nb) on a neighbourhood of non-negative ints: the decimal digits of the cells, concatenated
        # (the model's state_repr; C17)
        if isinstance(f, ast.Attribute) and f.attr == 'join' and isinstance(f.value, ast.Constant) and f.value.value == '' \
                and len(e.args) == 1 and isinstance(e.args[0], (ast.GeneratorExp, ast.ListComp)) \
                and len(e.args[0].generators) == 1 and not e.args[0].generators[0].ifs \
                and isinstance(e.args[0].generators[0].target, ast.Name) \
                and isinstance(e.args[0].generators[0].iter, ast.Name) \
                and env.vars.get(e.args[0].generators[0].iter.id) == NATLIST \
                and ast.unparse(e.args[0].elt) == 'str(%s)' % e.args[0].generators[0].target.id:
            return '(state_repr %s)' % e.args[0].generators[0].iter.id, SKEY
        # ''.join(map(str, bits)): the same string as ''.join([str(x) for x in bits])
        if isinstance(f, ast.Attribute) and f.attr == 'join' and isinstance(f.value, ast.Constant) and f.value.value == '' \
                and len(e.args) == 1 and isinstance(e.args[0], ast.Call) and isinstance(e.args[0].func, ast.Name) \
                and e.args[0].func.id == 'map' and len(e.args[0].args) == 2 and not e.args[0].keywords \
                and isinstance(e.args[0].args[0], ast.Name) and e.args[0].args[0].id == 'str':
            l, tl = self.expr(e.args[0].args[1], env)
            if tl == 'list:bitint':
                return l, BITS
            if tl == 'emptylist':
                return '(@nil bool)', BITS
            _err(e, "''.join(map(str, ..)) of a value of type %s" % tl)
        # ''.join([str(x) for x in bits]): the binary string of a list of 0/1 ints
        if isinstance(f, ast.Attribute) and f.attr == 'join' and isinstance(f.value, ast.Constant) and f.value.value == '' \
                and len(e.args) == 1 and isinstance(e.args[0], ast.ListComp) and len(e.args[0].generators) == 1:
            lc = e.args[0]
            g = lc.generators[0]
            if (not g.ifs and isinstance(g.target, ast.Name) and isinstance(lc.elt, ast.Call)
                    and isinstance(lc.elt.func, ast.Name) and lc.elt.func.id == 'str' and len(lc.elt.args) == 1
                    and isinstance(lc.elt.args[0], ast.Name) and lc.elt.args[0].id == g.target.id):
                l, tl = self.expr(g.iter, env)
                if tl == 'list:bitint':
                    return l, BITS
                if tl == 'emptylist':
                    return '(@nil bool)', BITS
            _err(e, "''.join(..) other than ''.join([str(x) for x in <list of 0/1 ints>])")
        if isinstance(f, ast.Name) and f.id == 'list' and len(e.args) == 1 and not e.keywords \
                and isinstance(e.args[0], ast.Call) and isinstance(e.args[0].func, ast.Name) \
                and e.args[0].func.id == 'range':
            lst, ety, _ = self.iter_source(e.args[0], env)
            return lst, ZLIST
        # range(..) as a value: the list it enumerates (a later comprehension or loop materialises it)
        if isinstance(f, ast.Name) and f.id == 'range' and not e.keywords and 1 <= len(e.args) <= 3:
            lst, ety, _ = self.iter_source(e, env)
            return lst, ZLIST
        if isinstance(f, ast.Name) and f.id == 'abs' and len(e.args) == 1:
            a, ta = self.expr(e.args[0], env)
            if ta != Z:
                _err(e, 'abs of a non-int')
            return '(Z.abs %s)' % a, Z
        if isinstance(f, ast.Name) and f.id == 'max' and len(e.args) == 1 and not e.keywords:
            l, tl = self.expr(e.args[0], env)
            if elem_type(tl) != Z:
                _err(e, 'max of a value of type %s' % tl)
            return self.bind(env, e, 'src_max_list %s' % l), Z          # ValueError on an empty list
        if isinstance(f, ast.Name) and f.id in ('max', 'min') and len(e.args) == 2:
            (a, ta), (b, tb) = self.expr(e.args[0], env), self.expr(e.args[1], env)
            if ta != Z or tb != Z:
                _err(e, 'max / min of non-ints')
            return '(Z.%s %s %s)' % (f.id, a, b), Z
        if isinstance(f, ast.Name):
            if f.id == 'len' and len(e.args) == 1 and isinstance(e.args[0], ast.Name) \
                    and env.vars.get(e.args[0].id) in (HIST, ZVEC):
                return '(Z.of_nat (length %s))' % e.args[0].id, Z
            if f.id == 'len' and len(e.args) == 1:
                x = e.args[0]
                # len(n.shape): the number of dimensions is part of the declared type of n
                if isinstance(x, ast.Attribute) and x.attr == 'shape' and isinstance(x.value, ast.Name) \
                        and env.vars.get(x.value.id) in DIMS:
                    return _zlit(DIMS[env.vars[x.value.id]]), Z
                a, ta = self.expr(x, env)
                if elem_type(ta) is not None and ta != ADDS:
                    return '(Z.of_nat (length %s))' % a, Z
                _err(e, 'len of a value of type %s is outside the subset' % ta)
            if f.id == 'nks_rule' and len(e.args) == 2:
                if not self.mod.has_function('nks_rule'):
                    _err(e, 'nks_rule is not a function of this module')
                n, tn = self.expr(e.args[0], env)
                r, tr = self.expr(e.args[1], env)
                if tn != ZVEC or tr != NNUM:
                    _err(e, 'nks_rule(%s, %s) is outside the subset' % (tn, tr))
                return self.bind(env, e, 'nks_rule %s %s' % (n, r)), Z
        # (A == B).all()
        if isinstance(f, ast.Attribute) and f.attr == 'all' and not e.args and isinstance(f.value, ast.Compare) \
                and len(f.value.ops) == 1 and isinstance(f.value.ops[0], ast.Eq):
            a, ta = self.expr(f.value.left, env)
            b, tb = self.expr(f.value.comparators[0], env)
            if ta == CFG and tb == CFG:
                return '(cfg_eqb %s %s)' % (a, b), BOOL
            _err(e, '(A == B).all() on values that are not two states')
        _err(e, 'call is outside the subset')

    def group_call(self, e, env, statement):
        """self._m(args) inside a class group.  Returns (text, type); for a statement call returns None after
        having pushed the state update onto the pending binds."""
        g, m = self.grp, e.func.attr
        gname = g['name']
        if m == g.get('oracle', (None,))[0]:
            if not statement or e.args:
                _err(e, 'self.%s() is only translated as a statement without arguments' % m)
            self.mutating = True
            env.binds.append(('let:st', '(src_%s_shuffle st)' % gname))
            return None
        if m in g.get('abstract', {}):
            pname, ptys, rty = g['abstract'][m]
            args = self.call_args(e, env, ptys, m)
            return '(%s %s)' % (pname, ' '.join(args)), rty
        if m == g.get('callable', (None,))[0]:
            _, pname, ptys = g['callable']
            if env.noeffect:
                _err(e, 'call of the wrapped rule inside a short-circuit position')
            args = self.call_args(e, env, ptys, m)
            self.mutating = True
            self.fresh += 1
            k = self.fresh
            env.binds.append(("let:'(s_%d, v_%d)" % (k, k), '%s (src_%s_get_%s st) %s' % (pname, gname, pname, ' '.join(args))))
            env.binds.append(('let:st', '(src_%s_set_%s st s_%d)' % (gname, pname, k)))
            return 'v_%d' % k, Z
        d = g['done'].get(m)
        if d is None:
            _err(e, 'self.%s(...) is not a translated method of this class group (or is translated later)' % m)
        args = self.call_args(e, env, [ty for _, ty in d['params']], m)
        call = 'src_%s%s st %s' % (gname, d['suffix'], ' '.join(args))
        if d['kind'] == 'ro':
            if d['res']:
                return self.bind(env, e, call), d['rty']
            return '(%s)' % call, d['rty']
        if env.noeffect:
            _err(e, 'call of a method that writes the object inside a short-circuit position')
        self.mutating = True
        if d['kind'] == 'void':
            if not statement:
                _err(e, 'self.%s() has no result; it is only translated as a statement' % m)
            if d['res']:
                if not self.mode_effects_ok:
                    _err(e, 'an operation that can raise in a function declared pure')
                self.effects = True
                self.nbinds += 1
                env.binds.append(('st', call))
            else:
                env.binds.append(('let:st', '(%s)' % call))
            return None
        _err(e, 'call of a method that writes the object and returns a value is outside the subset')

    def inline_method(self, e, fn, env):
        root = getattr(self, 'root', self)
        a = fn.args
        if fn.decorator_list or a.vararg or a.kwarg or a.kwonlyargs or a.posonlyargs or a.defaults:
            _err(e, 'method %s has decorators / defaults / *args' % fn.name)
        if [x.arg for x in a.args][:1] != ['self'] or len(e.args) != len(a.args) - 1:
            _err(e, 'method %s called with %d arguments' % (fn.name, len(e.args)))
        stack = getattr(root, 'helper_stack', [])
        if fn.name in stack or fn.name == self.t['func'] or len(stack) > 4:
            _err(e, 'recursive (or too deeply nested) method %s' % fn.name)
        # the method must not write the object
        for n in ast.walk(fn):
            if _is_self_attr(n) and isinstance(n.ctx, (ast.Store, ast.Del)):
                _err(e, 'method %s writes self.%s' % (fn.name, n.attr))
        args = [self.expr(x, env) for x in e.args]
        if any(t in (UNUSED, STATE, STORE, ADDS, DICT5) for _, t in args):
            _err(e, 'method %s called with an argument of a type that cannot be passed on' % fn.name)
        key = ('self.' + fn.name, tuple(t for _, t in args))
        cache = self.mod.__dict__.setdefault('helper_cache', {}).setdefault(self.t['prop'], {})
        attrs = [(at, self.attr_info[at]) for at in self.t['attrs'] if self.attr_info.get(at) not in (STORE,)]
        if key not in cache:
            name = 'h_' + fn.name.lstrip('_')
            params = [(p.arg, ty) for p, (_, ty) in zip(a.args[1:], args)]
            t = dict(self.t, name=name, func=fn.name, params=params, split_default=None)
            ft = FunTrans(self.mod, t, self.clsnode, self.attr_info, self.consts)
            ft.root = root
            ft.mode_effects_ok = root.mode_effects_ok
            root.helper_stack = stack + [fn.name]
            try:
                henv = Env(ft)
                for pn, ty in params:
                    henv.vars[_check_ident(fn, pn)] = ty
                body = ft.block(fn.body, henv, lambda env2: ft.ret('none', 'None'))
                body, cty = ft.finish(body, fn)
            finally:
                root.helper_stack = stack
            root.subdefs.extend(ft.subdefs)
            root.subdefs.append(dict(name=name, params=params, attrs=attrs, body=body, cty=cty, lo=fn.lineno,
                                     hi=fn.end_lineno, generic='', stateful=False, helper=True,
                                     what='method %s.%s (called from %s)' % (self.t['cls'], fn.name, self.t['func'])))
            cache[key] = (name, ft.rty, ft.effects)
        name, rty, eff = cache[key]
        call = 'src_%s %s' % (name, ' '.join(['self' + at for at, _ in attrs] + [tx for tx, _ in args]))
        if eff:
            return self.bind(env, e, call), rty
        return '(%s)' % call, rty

    def inline_helper(self, e, fn, env):
        root = getattr(self, 'root', self)
        a = fn.args
        if fn.decorator_list or a.vararg or a.kwarg or a.kwonlyargs or a.posonlyargs:
            _err(e, 'helper %s has decorators / *args / **kwargs' % fn.name)
        if len(e.args) != len(a.args):
            _err(e, 'helper %s called with %d of its %d parameters (defaults are not translated)' % (
                fn.name, len(e.args), len(a.args)))
        stack = getattr(root, 'helper_stack', [])
        if fn.name in stack or len(stack) > 4:
            _err(e, 'recursive (or too deeply nested) helper %s' % fn.name)
        args = []
        for x in e.args:
            if _is_self_attr(x) and self.attr_info.get(x.attr) == ADDS and x.attr in self.t.get('attrs', []):
                args.append(('self' + x.attr, ADDS))      # the list of scheduled grain additions, handed to a helper
            else:
                args.append(self.expr(x, env))
        if any(t in (UNUSED, STATE, STORE, DICT5) for _, t in args):
            _err(e, 'helper %s called with an argument of a type that cannot be passed on' % fn.name)
        key = (fn.name, tuple(t for _, t in args))
        cache = self.mod.__dict__.setdefault('helper_cache', {}).setdefault(self.t['prop'], {})
        if key not in cache:
            name = 'h_' + fn.name.lstrip('_') + ('' if not any(k[0] == fn.name for k in cache) else
                                                    '_%d' % (1 + sum(1 for k in cache if k[0] == fn.name)))
            t = dict(name=name, prop=self.t['prop'], file=self.t['file'], cls=None, func=fn.name,
                     params=[(p.arg, ty) for p, (_, ty) in zip(a.args, args)], attrs=[])
            ft = FunTrans(self.mod, t, None, {}, {})
            ft.root = root
            ft.mode_effects_ok = root.mode_effects_ok
            root.helper_stack = stack + [fn.name]
            try:
                henv = Env(ft)
                for p, (_, ty) in zip(a.args, args):
                    henv.vars[_check_ident(fn, p.arg)] = ty
                henv.pylists = set(p.arg for p, x in zip(a.args, e.args) if self.is_list_value(x, env))
                henv.nonneg = set(p.arg for p, x in zip(a.args, e.args) if self.is_nonneg(x, env))
                henv.positive = set(p.arg for p, x in zip(a.args, e.args)
                                    if isinstance(x, ast.Name) and x.id in env.positive)
                body = ft.block(fn.body, henv, lambda env2: ft.ret('none', 'None'))
                body, cty = ft.finish(body, fn)
            finally:
                root.helper_stack = stack
            root.subdefs.extend(ft.subdefs)
            root.subdefs.append(dict(name=name, params=[(p.arg, ty) for p, (_, ty) in zip(a.args, args)], attrs=[],
                                     body=body, cty=cty, lo=fn.lineno, hi=fn.end_lineno, generic=self.t.get('generic', ''),
                                     stateful=False, helper=True, what='helper %s (called from %s)' % (fn.name, self.t['func'])))
            cache[key] = (name, ft.rty, ft.effects)
        name, rty, eff = cache[key]
        if self.t.get('generic'):
            _err(e, 'helper call inside a generic target')
        call = 'src_%s %s' % (name, ' '.join(tx for tx, _ in args))
        if eff:
            return self.bind(env, e, call), rty
        return '(%s)' % call, rty

    def is_bin_digits(self, x, env):
        """map(int, bin(num)[2:]) with num : N"""
        try:
            return (isinstance(x, ast.Call) and x.func.id == 'map' and len(x.args) == 2 and x.args[0].id == 'int'
                    and isinstance(x.args[1], ast.Subscript) and isinstance(x.args[1].slice, ast.Slice)
                    and _is_int_const(x.args[1].slice.lower) and x.args[1].slice.lower.value == 2
                    and x.args[1].slice.upper is None and x.args[1].slice.step is None
                    and x.args[1].value.func.id == 'bin' and len(x.args[1].value.args) == 1
                    and env.vars.get(x.args[1].value.args[0].id) == NNUM)
        except AttributeError:
            return False

    def call_args(self, e, env, ptys, m):
        if len(e.args) != len(ptys) or e.keywords:
            _err(e, 'self.%s called with %d arguments' % (m, len(e.args)))
        args = []
        for x, pty in zip(e.args, ptys):
            tx, ty = self.expr(x, env)
            if ty != pty:
                _err(x, 'argument of self.%s has type %s, expected %s' % (m, ty, pty))
            args.append(tx)
        return args

    # ---------------------------------------------------------------- statements
    def wrap_binds(self, env, text):
        """wrap `text` in the pending binds / lets (first evaluated outermost)"""
        for name, m in reversed(env.binds):
            if name.startswith('let:'):
                text = '(let %s := %s in\n%s)' % (name[4:], m, text)
            else:
                text = '(bind (%s) (fun %s =>\n%s))' % (m, name, text)
        env.binds = []
        return text

    @staticmethod
    def let(pat, value, body):
        """let pat := value in body; `let x := v in x` is written v"""
        if body == pat:
            return value
        return '(let %s := %s in\n%s)' % (pat, value, body)

    def coerce_assign(self, node, name, env, tx, ty):
        if name in env.vars:
            old = env.vars[name]
            if old == 'sentinel':
                return tx, ty          # the local held the sentinel of table.get(..): it could not be read
            if old == ty:
                return tx, ty
            if old == OPTZ and ty == Z:
                return '(Some %s)' % tx, OPTZ
            _err(node, 'local %r changes type (%s -> %s)' % (name, old, ty))
        return tx, ty

    def block(self, stmts, env, k):
        """translate a statement list; k(env) gives the text of what follows it"""
        if not stmts:
            return k(env)
        s, rest = stmts[0], stmts[1:]

        def cont(env2):
            return self.block(rest, env2, k)

        if isinstance(s, ast.Expr) and isinstance(s.value, ast.Constant) and isinstance(s.value.value, str):
            return cont(env)                                                    # docstring
        # the sliding-window idiom (three statements, checked syntactically):
        #   shape = X.shape[:-1] + (X.shape[-1] - W + 1, W); strides = X.strides + (X.strides[-1],)
        #   return np.lib.stride_tricks.as_strided(X, shape=shape, strides=strides)
        # on a 1-D array X: row i of the result is X[i : i + W], i = 0 .. len(X) - W (ValueError for a negative count)
        if len(stmts) == 3 and isinstance(s, ast.Assign) and isinstance(stmts[2], ast.Return):
            m = re.match(r'^shape = (\w+)\.shape\[:-1\] \+ \((\w+)\.shape\[-1\] - (\w+) \+ 1, (\w+)\)$', ast.unparse(s))
            if m and m.group(1) == m.group(2) and m.group(3) == m.group(4):
                X, W = m.group(1), m.group(3)
                if ast.unparse(stmts[1]) == 'strides = %s.strides + (%s.strides[-1],)' % (X, X) and \
                        ast.unparse(stmts[2]) == 'return np.lib.stride_tricks.as_strided(%s, shape=shape, strides=strides)' % X \
                        and env.vars.get(X) in (ZLIST, ZVEC) and env.vars.get(W) == Z and self.mod.imports_numpy_as_np:
                    r = self.bind(env, s, 'src_as_strided_windows %s %s' % (X, W))
                    return self.wrap_binds(env, self.ret(GRID2, r))
        th = self.t.get('threaded')
        if isinstance(s, ast.If) and isinstance(s.test, ast.UnaryOp) and isinstance(s.test.op, ast.Not) \
                and isinstance(s.test.operand, ast.Compare) and len(s.test.operand.ops) == 1 \
                and isinstance(s.test.operand.ops[0], ast.In) and isinstance(s.test.operand.comparators[0], ast.Name) \
                and env.vars.get(s.test.operand.comparators[0].id) in (DICTK, SDICT):
            # `not K in D` is `K not in D`
            t2 = ast.Compare(left=s.test.operand.left, ops=[ast.NotIn()], comparators=s.test.operand.comparators)
            ast.copy_location(t2, s.test)
            s2 = ast.If(test=t2, body=s.body, orelse=s.orelse)
            ast.copy_location(s2, s)
            return self.block([s2] + list(rest), env, k)
        if isinstance(s, ast.If) and isinstance(s.test, ast.Compare) and len(s.test.ops) == 1 \
                and isinstance(s.test.ops[0], (ast.In, ast.NotIn)) and isinstance(s.test.left, ast.Name) \
                and isinstance(s.test.comparators[0], ast.Name) \
                and (env.vars.get(s.test.left.id), env.vars.get(s.test.comparators[0].id)) in ((ZLIST, DICTK), (SKEY, SDICT)):
            # `if key in table: A else: B` (or `not in`), then REST: a match on the lookup; in the branch where the key is
            # present table[key] is the value found (v_).  table[key] is only translated where its value is known.
            K, D = s.test.left.id, s.test.comparators[0].id
            yes, no = (s.body, s.orelse) if isinstance(s.test.ops[0], ast.In) else (s.orelse, s.body)
            self.fresh += 1
            v = 'v_%d' % self.fresh
            y_env, n_env = env.copy(), env.copy()
            y_env.toplevel = n_env.toplevel = False
            y_env.known[(D, K)] = v
            n_env.known.pop((D, K), None)
            some_branch = self.block(list(yes), y_env, cont)
            none_branch = self.block(list(no), n_env, cont)
            look = 'src_dict_lookup' if env.vars[D] == DICTK else 'lookup'       # SDICT: the model's lookup (RuleTables)
            return '(match %s %s %s with\n| Some %s => %s\n| None => %s\nend)' % (
                look, env.alias.get(K, K), env.alias.get(D, D), v, some_branch, none_branch)
        # X = table.get(key, SENTINEL); if X is SENTINEL: A [else: B]; REST   with SENTINEL a module-level `object()`:
        # a match on the lookup; X is the value found, or (until A assigns it) nothing that can be read
        if th and isinstance(s, ast.Assign) and len(s.targets) == 1 and isinstance(s.targets[0], ast.Name) \
                and isinstance(s.value, ast.Call) and isinstance(s.value.func, ast.Attribute) and s.value.func.attr == 'get' \
                and isinstance(s.value.func.value, ast.Name) and env.vars.get(s.value.func.value.id) == DICTK \
                and len(s.value.args) == 2 and not s.value.keywords and isinstance(s.value.args[0], ast.Name) \
                and env.vars.get(s.value.args[0].id) == ZLIST and isinstance(s.value.args[1], ast.Name) \
                and self.mod.is_sentinel(s.value.args[1].id) and rest and isinstance(rest[0], ast.If) \
                and isinstance(rest[0].test, ast.Compare) and len(rest[0].test.ops) == 1 \
                and isinstance(rest[0].test.ops[0], (ast.Is, ast.IsNot)) \
                and ast.unparse(rest[0].test.left) == s.targets[0].id \
                and ast.unparse(rest[0].test.comparators[0]) == s.value.args[1].id:
            X, D, K = _check_ident(s, s.targets[0].id), s.value.func.value.id, s.value.args[0].id
            if X in env.vars:
                _err(s, 'the local %s bound to table.get(..) already exists' % X)
            iff = rest[0]
            missing, found = (iff.body, iff.orelse) if isinstance(iff.test.ops[0], ast.Is) else (iff.orelse, iff.body)
            after = list(rest[1:])
            self.fresh += 1
            v = 'v_%d' % self.fresh
            y_env, n_env = env.copy(), env.copy()
            y_env.toplevel = n_env.toplevel = False
            y_env.vars[X] = Z
            y_env.known[(D, K)] = v
            n_env.vars[X] = 'sentinel'
            some_branch = '(let %s := %s in\n%s)' % (env.alias.get(X, X), v, self.block(list(found) + after, y_env, k))
            none_branch = self.block(list(missing) + after, n_env, k)
            return '(match src_dict_lookup %s %s with\n| Some %s => %s\n| None => %s\nend)' % (
                env.alias.get(K, K), env.alias.get(D, D), v, some_branch, none_branch)
        if th and isinstance(s, ast.Assign) and len(s.targets) == 1 and isinstance(s.targets[0], ast.Subscript) \
                and isinstance(s.targets[0].value, ast.Name) and env.vars.get(s.targets[0].value.id) == DICTK \
                and isinstance(s.targets[0].slice, ast.Name) and env.vars.get(s.targets[0].slice.id) == ZLIST:
            D, K = s.targets[0].value.id, s.targets[0].slice.id
            v, tv = self.expr(s.value, env)
            if tv != Z:
                _err(s, 'a value of type %s stored in the table' % tv)
            self.fresh += 1
            dv = 'dv_%d' % self.fresh
            env2 = env.copy()
            env2.known = {kk: vv for kk, vv in env.known.items() if kk[0] != D}
            env2.known[(D, K)] = dv            # after the store table[key] is the value stored
            return self.wrap_binds(env, '(let %s := %s in\n%s)' % (
                dv, v, self.let(env.alias.get(D, D), '(src_dict_set %s %s %s)' % (
                    env.alias.get(K, K), dv, env.alias.get(D, D)), cont(env2))))
        # the dictionary idiom in its positive form: `if key in self.D: return self.D[key]` followed by REST is
        # `if key not in self.D: REST` / `return self.D[key]` provided REST returns or raises on every path (checked:
        # a REST that can fall through is rejected by the idiom)
        if isinstance(s, ast.If) and not s.orelse and len(s.body) == 1 and isinstance(s.body[0], ast.Return) and rest \
                and isinstance(s.test, ast.Compare) and len(s.test.ops) == 1 and isinstance(s.test.ops[0], ast.In) \
                and isinstance(s.test.left, ast.Name) and _is_self_attr(s.test.comparators[0]) \
                and self.attr_info.get(s.test.comparators[0].attr) == DICT5:
            r = s.body[0].value
            if isinstance(r, ast.Subscript) and _is_self_attr(r.value, s.test.comparators[0].attr) \
                    and isinstance(r.slice, ast.Name) and r.slice.id == s.test.left.id:
                neg = ast.If(test=ast.Compare(left=s.test.left, ops=[ast.NotIn()], comparators=s.test.comparators),
                             body=list(rest), orelse=[])
                ast.copy_location(neg, s)
                ast.copy_location(neg.test, s.test)
                neg.end_lineno = rest[-1].end_lineno
                return self.block([neg, s.body[0]], env, k)
        # the dictionary idiom (last two statements)
        if self.is_dict_idiom(s, rest):
            return self.dict_idiom(s, rest[0], env)
        if self.grp and isinstance(s, ast.Expr) and isinstance(s.value, ast.Call) and _is_self_attr(s.value.func):
            r = self.group_call(s.value, env, statement=True)
            if r is not None:
                _err(s, 'the result of self.%s(...) is discarded' % s.value.func.attr)
            return self.wrap_binds(env, cont(env.copy()))
        if self.grp and isinstance(s, (ast.Assign, ast.AugAssign)):
            tg = s.targets[0] if isinstance(s, ast.Assign) and len(s.targets) == 1 else getattr(s, 'target', None)
            if tg is not None and _is_self_attr(tg):
                fields = dict(self.grp['fields'])
                if tg.attr not in fields:
                    _err(s, 'write to self.%s, which is not a declared field of the object state' % tg.attr)
                v, tv = self.expr(s.value, env)
                if tv != fields[tg.attr] or tv not in (Z, BOOL):
                    _err(s, 'write of a value of type %s to self.%s' % (tv, tg.attr))
                gname = self.grp['name']
                if isinstance(s, ast.AugAssign):
                    if not isinstance(s.op, (ast.Add, ast.Sub)) or tv != Z:
                        _err(s, 'augmented assignment other than += / -= on an int field')
                    v = '((src_%s_get%s st) %s %s)' % (gname, tg.attr, '+' if isinstance(s.op, ast.Add) else '-', v)
                self.mutating = True
                return self.wrap_binds(env, self.let('st', '(src_%s_set%s st %s)' % (gname, tg.attr, v),
                                                     cont(env.copy())))
        al = self.t.get('attr_locals') or {}
        if al and isinstance(s, (ast.Assign, ast.AugAssign)):
            tg = s.targets[0] if isinstance(s, ast.Assign) and len(s.targets) == 1 else getattr(s, 'target', None)
            # self._W = np.zeros((a, b), dtype=..): the attribute becomes the local self_W of this translation
            if isinstance(s, ast.Assign) and tg is not None and _is_self_attr(tg) and tg.attr in al:
                v, tv = self.expr(s.value, env)
                if tv != al[tg.attr]:
                    _err(s, 'self.%s is assigned a value of type %s' % (tg.attr, tv))
                env2 = env.copy()
                env2.vars['self' + tg.attr] = tv
                return self.wrap_binds(env, self.let('self' + tg.attr, v, cont(env2)))
            # self._W[i, j] = e / self._W[i, j] += e: NumPy element write (negative indices, IndexError)
            if tg is not None and isinstance(tg, ast.Subscript) and _is_self_attr(tg.value) and tg.value.attr in al \
                    and al[tg.value.attr] == MATRIX and isinstance(tg.slice, ast.Tuple) and len(tg.slice.elts) == 2:
                name = 'self' + tg.value.attr
                if env.vars.get(name) != MATRIX:
                    _err(s, 'element write to self.%s before it is assigned in this method' % tg.value.attr)
                (i, ti), (j, tj) = self.expr(tg.slice.elts[0], env), self.expr(tg.slice.elts[1], env)
                v, tv = self.expr(s.value, env)
                if ti != Z or tj != Z or tv != Z:
                    _err(s, 'matrix element write with non-int index or value')
                if isinstance(s, ast.AugAssign):
                    if not isinstance(s.op, (ast.Add, ast.Sub)):
                        _err(s, 'augmented element write other than += / -=')
                    fn = '(fun w_ => w_ %s %s)' % ('+' if isinstance(s.op, ast.Add) else '-', v)
                else:
                    fn = '(fun _ => %s)' % v
                r = self.bind(env, s, 'src_mat_upd %s %s %s %s' % (name, i, j, fn))
                return self.wrap_binds(env, self.let(name, r, cont(env.copy())))
        if isinstance(s, ast.Assign) and len(s.targets) == 1 and isinstance(s.targets[0], ast.Subscript) \
                and isinstance(s.targets[0].slice, ast.Slice) and isinstance(s.targets[0].value, ast.Subscript) \
                and isinstance(s.targets[0].value.value, ast.Name) \
                and env.vars.get(s.targets[0].value.value.id) == BOOLMATRIX:
            # X[i][lo:hi] = 0 / 1 / False / True: a scalar broadcast into a slice of row i (Python indexing of the
            # row, saturating slice; the row keeps its length)
            tg = s.targets[0]
            X = tg.value.value.id
            sl = tg.slice
            if sl.step is not None:
                _err(s, 'slice assignment with a step')
            if not (isinstance(s.value, ast.Constant) and s.value.value in (0, 1, True, False)):
                _err(s, 'slice assignment of something that is not the scalar 0 / 1 / False / True')
            v = 'true' if s.value.value else 'false'
            i, ti = self.expr(tg.value.slice, env)
            lo = self.expr(sl.lower, env) if sl.lower is not None else None
            hi = self.expr(sl.upper, env) if sl.upper is not None else None
            if ti != Z or (lo and lo[1] != Z) or (hi and hi[1] != Z):
                _err(s, 'slice assignment with a non-int index or bound')
            r = self.bind(env, s, 'src_row_upd %s %s (fun row_ => src_fill_slice row_ %s %s %s)' % (
                X, i, '(Some %s)' % lo[0] if lo else 'None', '(Some %s)' % hi[0] if hi else 'None', v))
            return self.wrap_binds(env, self.let(X, r, cont(env.copy())))
        if isinstance(s, ast.Assign) and len(s.targets) == 1 and isinstance(s.targets[0], ast.Tuple) \
                and len(s.targets[0].elts) == 2 and all(isinstance(x, ast.Name) for x in s.targets[0].elts) \
                and not isinstance(s.value, ast.Tuple):
            # a, b = <pair-valued expression> (e.g. a helper that returns two lists)
            tx, ty = self.expr(s.value, env)
            if not (isinstance(ty, str) and ty.startswith('pair:')):
                _err(s, 'unpacking of a value of type %s' % ty)
            t1, t2 = _split_pair(ty)
            n1, n2 = (_check_ident(x, x.id) for x in s.targets[0].elts)
            if n1 == n2:
                _err(s, 'the same name twice in an unpacking')
            env2 = env.copy()
            for nm, tt in ((n1, t1), (n2, t2)):
                if nm in env.vars and env.vars[nm] != tt:
                    _err(s, 'local %r changes type' % nm)
                env2.vars[nm] = tt
                env2.elts.pop(nm, None)
                env2.pylists.discard(nm)
            return self.wrap_binds(env, "(let '(%s, %s) := %s in\n%s)" % (n1, n2, tx, cont(env2)))
        if isinstance(s, ast.Assign):
            if len(s.targets) != 1:
                _err(s, 'multiple assignment targets')
            tg = s.targets[0]
            if isinstance(tg, ast.Name) and isinstance(s.value, ast.IfExp) and self.mode_effects_ok and not env.noeffect:
                mark = (len(self.rets), list(env.binds))
                try:
                    probe = env.copy()
                    self.expr(s.value, probe)
                    effectful_branch = False
                except TranslationError as ex:
                    effectful_branch = 'that can raise inside a short-circuit position' in str(ex)
                del self.rets[mark[0]:]
                env.binds = mark[1]
                if effectful_branch:
                    # x = A if c else B with a branch that can raise  ==  if c: x = A else: x = B
                    def asg(v):
                        a_ = ast.Assign(targets=[tg], value=v)
                        return ast.copy_location(a_, s)
                    iff = ast.If(test=s.value.test, body=[asg(s.value.body)], orelse=[asg(s.value.orelse)])
                    ast.copy_location(iff, s)
                    return self.block([iff] + list(rest), env, k)
            if isinstance(tg, ast.Name):
                if (tg.id in COQ_KEYWORDS or tg.id in TEMPLATE_NAMES) and re.match(r'^[A-Za-z_]+$', tg.id) \
                        and not tg.id.startswith('_'):
                    env.alias[tg.id] = 'py_' + tg.id      # a Python local named like a Coq keyword / template identifier
                    name = tg.id
                else:
                    name = _check_ident(tg, tg.id)
                tx, ty = self.expr(s.value, env)
                if ty in (ADDS, DICT5, STORE, UNUSED):
                    _err(s, 'a value of type %s cannot be bound to a local' % ty)
                tx, ty = self.coerce_assign(s, name, env, tx, ty)
                env2 = env.copy()
                env2.vars[name] = ty
                env2.known = {kk: vv for kk, vv in env.known.items() if name not in kk}
                env2.elts.pop(name, None)
                if isinstance(s.value, (ast.Tuple, ast.List)):
                    env2.elts[name] = self.zlist_literal(s.value, env)[1]
                env2.pylists.discard(name)
                if self.is_list_value(s.value, env):
                    env2.pylists.add(name)
                env2.nonneg.discard(name)
                if ty == Z and self.is_nonneg(s.value, env):
                    env2.nonneg.add(name)          # a local bound to an expression that is syntactically >= 0
                # a local that is a component of a recorded tuple must not be re-bound afterwards
                for other, elts in env.elts.items():
                    if name in elts and other != name:
                        env2.elts.pop(other, None)
                if ty == OPTZ and tx == 'None':
                    tx = '(@None Z)'
                return self.wrap_binds(env, self.let(env.alias.get(name, name), tx, cont(env2)))
            if self.stateful and isinstance(tg, ast.Subscript) and _is_self_attr(tg.value, self.t['state']):
                if not env.toplevel:
                    _err(s, 'a write to self.%s below the top level of the body' % self.t['state'])
                i, ti = self.expr(tg.slice, env)
                if ti != NATIDX:
                    _err(s, 'index of the write is not the cell index')
                v, tv = self.expr(s.value, env)
                if tv != Z:
                    _err(s, 'value written is not an int')
                return self.wrap_binds(env, '(let st := vec_write st %s %s in\n%s)' % (i, v, cont(env)))
            _err(s, 'assignment target is outside the subset')
        if isinstance(s, ast.AugAssign):
            if not isinstance(s.target, ast.Name) or env.vars.get(s.target.id) != Z:
                _err(s, 'augmented assignment to something that is not an int local')
            bitops = {ast.BitOr: 'Z.lor', ast.BitAnd: 'Z.land', ast.BitXor: 'Z.lxor', ast.LShift: 'Z.shiftl',
                      ast.RShift: 'Z.shiftr'}
            if not isinstance(s.op, (ast.Add, ast.Sub) + tuple(bitops)):
                _err(s, 'augmented assignment other than += -= |= &= ^= <<= >>=')
            v, tv = self.expr(s.value, env)
            if tv != Z:
                _err(s, 'augmented assignment of a non-int')
            if type(s.op) in bitops:
                # x |= e, x &= e, x ^= e: Z.lor / Z.land / Z.lxor (two's complement, as Python ints);
                # x <<= e, x >>= e with e syntactically >= 0: Z.shiftl / Z.shiftr (a negative count raises in Python)
                if isinstance(s.op, (ast.LShift, ast.RShift)) and not self.is_nonneg(s.value, env):
                    _err(s, '`<<=` / `>>=` with a count that is not known to be >= 0')
                name = s.target.id
                env2 = env.copy()
                env2.nonneg.discard(name)
                for other, elts in env.elts.items():
                    if name in elts:
                        env2.elts.pop(other, None)
                return self.wrap_binds(env, self.let(env.alias.get(name, name), '(%s %s %s)' % (
                    bitops[type(s.op)], env.alias.get(name, name), v), cont(env2)))
            name = s.target.id
            env2 = env.copy()
            for other, elts in env.elts.items():
                if name in elts:
                    env2.elts.pop(other, None)
            return self.wrap_binds(env, self.let(name, '(%s %s %s)' % (
                name, '+' if isinstance(s.op, ast.Add) else '-', v), cont(env2)))
        if isinstance(s, ast.Return):
            if rest:
                _err(rest[0], 'statements after a return')
            if s.value is None and self.grp:
                return self.ret('void', 'st')       # bare `return` in a method: it leaves the object as it is now
            if s.value is None or (isinstance(s.value, ast.Constant) and s.value.value is None):
                return self.ret('none', 'None')
            tx, ty = self.expr(s.value, env)
            if ty in (ADDS, DICT5, STORE, UNUSED, STATE):
                _err(s, 'return of a value of type %s' % ty)
            return self.wrap_binds(env, self.ret(ty, tx))
        if isinstance(s, ast.Raise):
            if rest:
                _err(rest[0], 'statements after a raise')
            ex = s.exc
            ok = (isinstance(ex, ast.Call) and isinstance(ex.func, ast.Name) and ex.func.id == 'ValueError'
                  and not ex.keywords and s.cause is None and len(ex.args) <= 1)
            if ok and ex.args:
                m = ex.args[0]
                ok = (isinstance(m, ast.Constant) and isinstance(m.value, str)) or (
                    isinstance(m, ast.BinOp) and isinstance(m.op, ast.Mod) and isinstance(m.left, ast.Constant)
                    and isinstance(m.left.value, str)
                    and (isinstance(m.right, ast.Name) or (isinstance(m.right, ast.Tuple) and
                                                           all(isinstance(x, ast.Name) for x in m.right.elts))))
                if ok:
                    for nm in _names_in(m):
                        if nm not in env.vars:
                            _err(s, 'message of the raise reads an unknown name %r' % nm)
            if not ok:
                _err(s, 'raise other than `raise ValueError(<str> [% names])`')
            if not self.mode_effects_ok:
                _err(s, 'raise in a function declared pure')
            self.effects = True
            return '(Raise ValueError)'
        if isinstance(s, ast.Pass):
            return cont(env)
        if isinstance(s, (ast.Break, ast.Continue)):
            if env.loop_acc is None:
                _err(s, 'break / continue outside a loop translated with src_for')
            if rest:
                _err(rest[0], 'statements after break / continue')
            return '(Ok (%s %s))' % ('Break' if isinstance(s, ast.Break) else 'Next', env.loop_acc)
        if isinstance(s, ast.Expr) and isinstance(s.value, ast.Call) and isinstance(s.value.func, ast.Attribute) \
                and s.value.func.attr == 'append' and isinstance(s.value.func.value, ast.Name) \
                and len(s.value.args) == 1 and not s.value.keywords:
            name = s.value.func.value.id
            if name not in env.pylists or elem_type(env.vars.get(name)) is None and env.vars.get(name) != 'emptylist':
                _err(s, '.append on something that is not a local Python list')
            v, tv = self.expr(s.value.args[0], env)
            lty = env.vars[name]
            if lty == 'emptylist':
                lty = list_of(tv)
                self.resolved_empty[name] = lty
            elif elem_type(lty) != tv:
                _err(s, 'append of a %s to a list of %s' % (tv, elem_type(lty)))
            env2 = env.copy()
            env2.vars[name] = lty
            return self.wrap_binds(env, self.let(name, '(%s ++ [%s])' % (name, v), cont(env2)))
        if isinstance(s, ast.Assert):
            if s.msg is not None and not isinstance(s.msg, ast.Constant):
                _err(s, 'assert with a computed message')
            c, tc = self.expr(s.test, env)
            if tc != BOOL:
                _err(s, 'assert on a non-boolean')
            if not self.mode_effects_ok:
                _err(s, 'assert in a function declared pure')
            self.effects = True
            return self.wrap_binds(env, '(if %s\nthen %s\nelse (Raise AssertionError))' % (c, cont(env.copy())))
        if isinstance(s, ast.If):
            m = self.match_test(s.test, env)
            if m is not None:
                name, pos, neg = m      # (constructor pattern, type of the name) for the true / false branch
                a_env, b_env = env.copy(), env.copy()
                a_env.toplevel = b_env.toplevel = False
                for en, (pat, ty) in ((a_env, pos), (b_env, neg)):
                    if ty is None:
                        en.vars[name] = UNUSED
                    else:
                        en.vars[name] = ty
                a = self.block(s.body, a_env, cont)
                b = self.block(s.orelse, b_env, cont)
                return '(match %s with\n| %s => %s\n| %s => %s\nend)' % (name, pos[0], a, neg[0], b)
            try:
                mark = (len(self.rets), self.fresh, self.nbinds)
                return self.if_stmt(s, env, cont)
            except TranslationError as ex:
                # `if A and B:` / `if A or B:` where B can raise: the short-circuit is made explicit
                #   if A and B: S1 else: S2   ==   if A: (if B: S1 else: S2) else: S2      (or: dually)
                if 'that can raise inside a short-circuit position' not in str(ex) or not self.mode_effects_ok \
                        or not (isinstance(s.test, ast.BoolOp) and len(s.test.values) >= 2):
                    raise
                del self.rets[mark[0]:]
                env.binds = []
                first = s.test.values[0]
                restv = s.test.values[1] if len(s.test.values) == 2 else ast.BoolOp(op=s.test.op, values=s.test.values[1:])
                ast.copy_location(restv, s.test)
                inner = ast.If(test=restv, body=s.body, orelse=s.orelse)
                ast.copy_location(inner, s)
                if isinstance(s.test.op, ast.And):
                    outer = ast.If(test=first, body=[inner], orelse=s.orelse)
                else:
                    outer = ast.If(test=first, body=s.body, orelse=[inner])
                ast.copy_location(outer, s)
                return self.block([outer] + list(rest), env, k)
        if isinstance(s, ast.For):
            return self.for_stmt(s, env, cont)
        _err(s, 'statement %s is outside the subset' % type(s).__name__)

    def value_block(self, stmts, env, W):
        """statements without return/raise, as the value of the locals W afterwards"""
        def k(env2):
            return W[0] if len(W) == 1 else '(' + ', '.join(W) + ')'
        sub = env.copy()
        sub.toplevel = False
        return self.block(stmts, sub, k)

    def match_test(self, t, env):
        if isinstance(t, ast.UnaryOp) and isinstance(t.op, ast.Not):
            m = self.match_test(t.operand, env)
            if m is not None:
                return (m[0], m[2], m[1])
        return self.match_test_pos(t, env)

    def match_test_pos(self, t, env):
        """tests that discriminate a tagged argument: `x is None` on an optional list, isinstance(rule, (list,
        np.ndarray)) on the rule argument (RBits l / RInt n)"""
        if isinstance(t, ast.Compare) and len(t.ops) == 1 and isinstance(t.ops[0], (ast.Is, ast.IsNot)) \
                and isinstance(t.left, ast.Name) and env.vars.get(t.left.id) == OPTZLIST \
                and isinstance(t.comparators[0], ast.Constant) and t.comparators[0].value is None:
            x = t.left.id
            none, some = ('None', None), ('Some %s' % x, ZLIST)
            return (x, none, some) if isinstance(t.ops[0], ast.Is) else (x, some, none)
        if isinstance(t, ast.Call) and isinstance(t.func, ast.Name) and t.func.id == 'isinstance' and len(t.args) == 2 \
                and isinstance(t.args[0], ast.Name) and env.vars.get(t.args[0].id) == RULEFORM \
                and isinstance(t.args[1], ast.Tuple) and \
                sorted(ast.unparse(x) for x in t.args[1].elts) == ['list', 'np.ndarray']:
            x = t.args[0].id
            return (x, ('RBits %s' % x, ZLIST), ('RInt %s' % x, NNUM))
        return None

    def static_test(self, t, env):
        """len(n.shape) == k, decided by the declared type of n; None when the test is not of that form"""
        if isinstance(t, ast.Compare) and len(t.ops) == 1 and isinstance(t.ops[0], ast.Eq) \
                and _is_int_const(t.comparators[0]) and isinstance(t.left, ast.Call) \
                and isinstance(t.left.func, ast.Name) and t.left.func.id == 'len' and len(t.left.args) == 1:
            x = t.left.args[0]
            if isinstance(x, ast.Attribute) and x.attr == 'shape' and isinstance(x.value, ast.Name) \
                    and env.vars.get(x.value.id) in DIMS:
                return DIMS[env.vars[x.value.id]] == t.comparators[0].value
        return None

    def if_stmt(self, s, env, cont):
        sv = self.static_test(s.test, env)
        if sv is not None:
            # the dimension of the array is part of its declared type: only the live branch is translated
            live = env.copy()
            return self.block(s.body if sv else s.orelse, live, cont)
        c, tc = self.expr(s.test, env)
        if tc == Z:
            c, tc = '(negb (%s =? 0))' % c, BOOL          # truthiness of an int: non-zero
        if tc != BOOL:
            _err(s, 'condition of `if` is not boolean (%s): truthiness of other values is outside the subset' % tc)
        if _contains(s.body + s.orelse, (ast.Return, ast.Raise, ast.Break, ast.Continue)):
            a_env, b_env = env.copy(), env.copy()
            a_env.toplevel = b_env.toplevel = False
            a = self.block(s.body, a_env, cont)
            b = self.block(s.orelse, b_env, cont)
            return self.wrap_binds(env, '(if %s\nthen %s\nelse %s)' % (c, a, b))
        W = _assigned(s.body + s.orelse, self.grp)
        if not W:
            _err(s, '`if` without effect')
        if any(w not in env.vars for w in W):
            # a local first assigned inside the branches: translate with the continuation in both branches; a path
            # on which the local stays undefined then fails at its first use (name not known)
            if not s.orelse:
                w = [w for w in W if w not in env.vars][0]
                _err(s, 'local %r is first assigned inside a branch (possibly undefined afterwards)' % w)
            a_env, b_env = env.copy(), env.copy()
            a_env.toplevel = b_env.toplevel = False
            a = self.block(s.body, a_env, cont)
            b = self.block(s.orelse, b_env, cont)
            return self.wrap_binds(env, '(if %s\nthen %s\nelse %s)' % (c, a, b))
        for w in W:
            if w not in env.vars:
                _err(s, 'local %r is first assigned inside a branch (possibly undefined afterwards)' % w)
            if env.vars[w] in (ADDS, DICT5, STORE, UNUSED):
                _err(s, 'local %r of type %s assigned inside a branch' % (w, env.vars[w]))
        n0 = self.nbinds
        a = self.value_block(s.body, env, W)
        b = self.value_block(s.orelse, env, W)
        if self.nbinds != n0:
            # a branch contains an operation that can raise: its value is not a plain value; translate the `if`
            # with its continuation in both branches instead
            a_env, b_env = env.copy(), env.copy()
            a_env.toplevel = b_env.toplevel = False
            a = self.block(s.body, a_env, cont)
            b = self.block(s.orelse, b_env, cont)
            return self.wrap_binds(env, '(if %s\nthen %s\nelse %s)' % (c, a, b))
        env2 = env.copy()
        for other, elts in env.elts.items():
            if set(W) & set(elts):
                env2.elts.pop(other, None)
        pat = W[0] if len(W) == 1 else "'(" + ', '.join(W) + ')'
        return self.wrap_binds(env, self.let(pat, '(if %s then %s else %s)' % (c, a, b), cont(env2)))

    def for_stmt(self, s, env, cont):
        if s.orelse:
            _err(s, 'for ... else')
        # the scan over self._grain_additions
        if _is_self_attr(s.iter) and not isinstance(s.target, ast.Name):
            _err(s, 'loop target is not a name')
        x = s.target.id if isinstance(s.target, ast.Name) else None
        if x is not None and _is_self_attr(s.iter):
            _check_ident(s.target, x)
            if x in env.vars:
                _err(s, 'loop variable %r shadows a local' % x)
        adds_param = isinstance(s.iter, ast.Name) and env.vars.get(s.iter.id) == ADDS and isinstance(s.target, ast.Name)
        if adds_param:
            x = _check_ident(s.target, s.target.id)
            if x in env.vars:
                _err(s, 'loop variable %r shadows a local' % x)
        if adds_param or (_is_self_attr(s.iter) and self.attr_info.get(s.iter.attr) == ADDS
                          and s.iter.attr in self.t['attrs']):
            b = s.body
            if not (len(b) == 1 and isinstance(b[0], ast.If) and not b[0].orelse and len(b[0].body) == 1
                    and isinstance(b[0].body[0], ast.Return) and b[0].body[0].value is not None):
                _err(s, 'loop over the grain additions whose body is not `if <test>: return <e>`')
            if x in _names_in(b[0].body[0].value):
                _err(s, 'the value returned from the scan depends on the element found')
            inner = env.copy()
            inner.vars[x] = ADD
            inner.noeffect = 1
            tst, tt = self.expr(b[0].test, inner)
            if tt != BOOL:
                _err(s, 'test of the scan is not boolean')
            r_env = env.copy()
            r_env.toplevel = False
            val = self.block([b[0].body[0]], r_env, None)
            src = s.iter.id if adds_param else 'self' + s.iter.attr
            return '(if existsb (fun %s => %s) %s\nthen %s\nelse %s)' % (x, tst, src, val, cont(env))
        # a loop over a literal tuple / list of int constants whose body returns: unrolled (the loop variable is
        # replaced by each constant in turn; it must not be assigned, and no break / continue)
        if isinstance(s.iter, (ast.Tuple, ast.List)) and s.iter.elts and all(_is_int_const(x) for x in s.iter.elts) \
                and isinstance(s.target, ast.Name) and _contains(s.body, (ast.Return,)) \
                and not _contains(s.body, (ast.Break, ast.Continue)) \
                and s.target.id not in _assigned(s.body) and s.target.id not in env.vars:
            import copy as _copy
            unrolled = []
            for c in s.iter.elts:
                for st in s.body:
                    st2 = _copy.deepcopy(st)

                    class Sub(ast.NodeTransformer):
                        def visit_Name(self_, node):
                            if node.id == s.target.id and isinstance(node.ctx, ast.Load):
                                return ast.copy_location(ast.Constant(value=c.value), node)
                            return node
                    unrolled.append(Sub().visit(st2))
            return self.block(unrolled, env, cont)
        return self.fold_loop(s, env, cont)
        _err(s, 'unreachable')

    def iter_source(self, it, env):
        """the list a `for` / comprehension iterates over -> (coq text, element type, nonneg index?)"""
        if isinstance(it, ast.Call) and isinstance(it.func, ast.Name) and it.func.id == 'range' and not it.keywords \
                and 1 <= len(it.args) <= 3:
            args = [self.expr(a, env) for a in it.args]
            if any(t != Z for _, t in args):
                _err(it, 'range over non-int bounds')
            lo = '0' if len(args) == 1 else args[0][0]
            hi = args[0][0] if len(args) == 1 else args[1][0]
            nonneg = len(args) == 1 or (_is_int_const(it.args[0]) and it.args[0].value >= 0) or \
                self.is_nonneg(it.args[0], env)
            if len(args) == 3:
                if not ((_is_int_const(it.args[2]) and it.args[2].value > 0) or
                        (isinstance(it.args[2], ast.Name) and it.args[2].id in env.positive)):
                    _err(it, 'range with a step that is not a positive literal (or a local declared > 0)')
                return '(src_range_step %s %s %s)' % (lo, hi, args[2][0]), Z, nonneg
            return '(src_range %s %s)' % (lo, hi), Z, nonneg
        if isinstance(it, ast.Call) and isinstance(it.func, ast.Name) and it.func.id == 'enumerate' \
                and len(it.args) == 1 and not it.keywords:
            l, tl = self.expr(it.args[0], env)
            et = elem_type(tl)
            if et is None:
                _err(it, 'enumerate over a value of type %s' % tl)
            return '(src_enumerate %s)' % l, pair_of(Z, et), True
        if isinstance(it, ast.Call) and isinstance(it.func, ast.Name) and it.func.id == 'zip' and len(it.args) == 2 \
                and not it.keywords:
            (a, ta), (b, tb) = self.expr(it.args[0], env), self.expr(it.args[1], env)
            if elem_type(ta) is None or elem_type(tb) is None:
                _err(it, 'zip of values of type (%s, %s)' % (ta, tb))
            return '(combine %s %s)' % (a, b), pair_of(elem_type(ta), elem_type(tb)), False
        l, tl = self.expr(it, env)
        et = elem_type(tl)
        if et is None or tl in (ADDS,):
            _err(it, 'loop over a value of type %s is outside the subset' % tl)
        return l, et, False

    def is_list_value(self, node, env):
        """Python LISTS (for which + is concatenation), as opposed to ndarrays (for which + is elementwise):
        list literals, comprehensions, slices / concatenations of lists, locals bound to one"""
        if isinstance(node, (ast.List, ast.ListComp)):
            return True
        if isinstance(node, ast.Name):
            return node.id in env.pylists
        if isinstance(node, ast.Subscript) and isinstance(node.slice, ast.Slice):
            return self.is_list_value(node.value, env)
        if isinstance(node, ast.BinOp) and isinstance(node.op, ast.Add):
            return self.is_list_value(node.left, env) and self.is_list_value(node.right, env)
        if isinstance(node, ast.Call) and isinstance(node.func, ast.Name) and node.func.id == 'list':
            return True
        return False

    def is_nonneg(self, node, env):
        """syntactic guarantee that an int expression is >= 0"""
        if _is_int_const(node):
            return node.value >= 0
        if isinstance(node, ast.Name):
            return node.id in env.nonneg
        if isinstance(node, ast.Call) and isinstance(node.func, ast.Name) and node.func.id in ('len', 'abs'):
            return True
        if isinstance(node, ast.BinOp):
            if isinstance(node.op, (ast.Add, ast.Mult)):
                return self.is_nonneg(node.left, env) and self.is_nonneg(node.right, env)
            if isinstance(node.op, (ast.FloorDiv, ast.Mod)) and _is_int_const(node.right) and node.right.value > 0:
                return isinstance(node.op, ast.Mod) or self.is_nonneg(node.left, env)
            if isinstance(node.op, ast.Pow):
                return self.is_nonneg(node.left, env)
        return False

    def bind_pattern(self, target, ety, env, nonneg):
        """loop / comprehension target -> (coq pattern, {name: type})"""
        if isinstance(target, ast.Name) and target.id == '_':
            return '_', {}, []          # an unused loop variable
        if isinstance(target, ast.Name):
            x = _check_ident(target, target.id)
            if x in env.vars:
                _err(target, 'loop variable %r shadows a local' % x)
            return x, {x: ety}, ([x] if nonneg and ety == Z else [])
        if isinstance(target, ast.Tuple) and len(target.elts) == 2 and ety.startswith('pair:') \
                and all(isinstance(t, ast.Name) for t in target.elts):
            a, b = _split_pair(ety)
            if any(t.id == '_' for t in target.elts):
                # `for i, _ in enumerate(..)`: the unused component is not bound
                names = [t.id for t in target.elts]
                if names[0] == names[1]:
                    return "'(_, _)", {}, []
                keep = 0 if names[1] == '_' else 1
                nm = _check_ident(target.elts[keep], names[keep])
                if nm in env.vars:
                    _err(target, 'loop variables shadow a local')
                pat = "'(%s, _)" % nm if keep == 0 else "'(_, %s)" % nm
                return pat, {nm: (a, b)[keep]}, ([nm] if keep == 0 and nonneg and a == Z else [])
            na, nb = (_check_ident(t, t.id) for t in target.elts)
            if na in env.vars or nb in env.vars or na == nb:
                _err(target, 'loop variables shadow a local')
            return "'(%s, %s)" % (na, nb), {na: a, nb: b}, ([na] if nonneg and a == Z else [])
        _err(target, 'loop target is outside the subset')

    @staticmethod
    def normalise_continue(stmts):
        """`if c: continue` (no else) followed by REST is `if not c: REST`: a guard clause at any position of a loop
        body (applied from the last statement backwards); other uses of `continue` are left alone"""
        out = list(stmts)
        for i in range(len(out) - 1, -1, -1):
            st = out[i]
            if isinstance(st, ast.If) and not st.orelse and len(st.body) == 1 and isinstance(st.body[0], ast.Continue):
                rest = out[i + 1:]
                if rest:
                    new = ast.If(test=ast.UnaryOp(op=ast.Not(), operand=st.test), body=rest, orelse=[])
                    ast.copy_location(new, st)
                    ast.copy_location(new.test, st.test)
                    out = out[:i] + [new]
                else:
                    out = out[:i] + [ast.copy_location(ast.Pass(), st)]
        return out

    def fold_loop(self, s, env, cont):
        body0 = self.normalise_continue(s.body)
        if body0 != list(s.body):
            s2 = ast.For(target=s.target, iter=s.iter, body=body0, orelse=[])
            ast.copy_location(s2, s)
            s = s2
        lst, ety, nonneg = self.iter_source(s.iter, env)
        pat, newvars, nn = self.bind_pattern(s.target, ety, env, nonneg)
        if _contains(s.body, (ast.Return, ast.Raise, ast.While)):
            _err(s, 'loop body with return / raise / while')
        W = _assigned(s.body, self.grp)
        # locals first assigned inside the body are temporaries of one iteration: they are not accumulators, a read
        # before the assignment in the body fails (name not known), and they are not visible after the loop
        W = [w for w in W if w not in newvars and not self.is_inner_loop_var(s.body, w) and w in env.vars]
        if not W:
            _err(s, 'loop without effect')
        for w in W:
            if w not in env.vars or env.vars[w] in (UNUSED, ADDS, DICT5, STORE):
                _err(s, 'loop accumulator %r is not a local defined before the loop' % w)
        acc = W[0] if len(W) == 1 else '(' + ', '.join(W) + ')'
        accpat = W[0] if len(W) == 1 else "'(" + ', '.join(W) + ')'
        inner = env.copy()
        inner.vars.update(newvars)
        inner.nonneg = set(env.nonneg) | set(nn)
        ctl = _contains(s.body, (ast.Break, ast.Continue))
        body = None
        if not ctl:
            inner.noeffect = 1
            try:
                body = self.value_block(s.body, inner, W)
            except TranslationError as ex:
                if 'that can raise inside a short-circuit position' in str(ex) and self.mode_effects_ok \
                        and not env.noeffect:
                    ctl = True
                else:
                    raise
        env2 = env.copy()
        for other, elts in env.elts.items():
            if set(W) & set(elts):
                env2.elts.pop(other, None)
        if ctl:
            # a body that can raise, break or continue: src_for threads the accumulator through
            # A -> B -> res (Next a | Break a)
            if not self.mode_effects_ok or env.noeffect:
                _err(s, 'loop with break / an operation that can raise, in a position where that is not translated')
            inner = env.copy()
            inner.vars.update(newvars)
            inner.nonneg = set(env.nonneg) | set(nn)
            inner.noeffect = 0
            inner.loop_acc = acc
            inner.toplevel = False
            body = self.block(s.body, inner, lambda env3: '(Ok (Next %s))' % acc)
            for w in W:
                if env.vars[w] == 'emptylist' and w in self.resolved_empty:
                    env2.vars[w] = self.resolved_empty[w]
            self.effects = True
            self.nbinds += 1
            return '(bind (src_for (fun %s %s =>\n%s) %s %s) (fun %s =>\n%s))' % (
                accpat, pat, body, lst, acc, accpat, cont(env2))
        for w in W:
            if env.vars[w] == 'emptylist' and w in self.resolved_empty:
                env2.vars[w] = self.resolved_empty[w]
        return self.let(accpat, '(fold_left (fun %s %s => %s) %s %s)' % (accpat, pat, body, lst, acc), cont(env2))

    @staticmethod
    def is_inner_loop_var(stmts, w):
        for st in stmts:
            for n in ast.walk(st):
                if isinstance(n, ast.For):
                    for t in ast.walk(n.target):
                        if isinstance(t, ast.Name) and t.id == w:
                            return True
        return False

    # ---------------------------------------------------------------- the dictionary idiom
    def is_dict_idiom(self, s, rest):
        if not (isinstance(s, ast.If) and not s.orelse and len(rest) == 1 and isinstance(rest[0], ast.Return)):
            return False
        t = s.test
        if not (isinstance(t, ast.Compare) and len(t.ops) == 1 and isinstance(t.ops[0], ast.NotIn)
                and isinstance(t.left, ast.Name) and _is_self_attr(t.comparators[0])
                and self.attr_info.get(t.comparators[0].attr) == DICT5):
            return False
        r = rest[0].value
        return (isinstance(r, ast.Subscript) and _is_self_attr(r.value, t.comparators[0].attr)
                and isinstance(r.slice, ast.Name) and r.slice.id == t.left.id)

    def dict_idiom(self, s, ret, env):
        attr = s.test.comparators[0].attr
        if attr not in self.t['attrs']:
            _err(s, 'self.%s is not declared for this target' % attr)
        key = s.test.left.id
        elts = env.elts.get(key)
        if env.vars.get(key) != ZLIST or elts is None or len(elts) != 5:
            _err(s, 'the key of the table lookup is not a local bound to a 5-tuple of ints')
        ktxt = '(' + ', '.join(elts) + ')'

        def dead(env2):
            _err(s, 'the `not in` branch of the table idiom can fall through')
        split = self.t.get('split_default')
        if split:
            for p in DEFAULT_PARAMS:
                if env.vars.get(p) != Z:
                    _err(s, 'local %r (an argument of the default branch) is not an int local here' % p)
            sub = FunTrans(self.mod, dict(self.t, attrs=[a for a in self.t['attrs'] if a != attr], split_default=None,
                                          name=split, params=[(p, Z) for p in DEFAULT_PARAMS]),
                           self.clsnode, self.attr_info, self.consts)
            sub.mode_effects_ok = False
            senv = Env(sub)
            senv.toplevel = True
            for p in DEFAULT_PARAMS:
                senv.vars[p] = Z
            body = sub.block(s.body, senv, dead)
            body, cty = sub.finish(body, s)
            self.subdefs.append(dict(name=split, params=[(p, Z) for p in DEFAULT_PARAMS], attrs=[],
                                     body=body, cty=cty, lo=s.body[0].lineno, hi=s.body[-1].end_lineno,
                                     what='%s.%s, the branch `if key not in self.%s:`' % (self.t['cls'], self.t['func'], attr)))
            rty = {'option Z': OPTZ, 'Z': Z}.get(cty)
            if rty is None:
                _err(s, 'default branch of type %s' % cty)
            none_branch = self.ret(rty, '(src_%s %s)' % (split, ' '.join(DEFAULT_PARAMS)))
        else:
            b_env = env.copy()
            b_env.toplevel = False
            none_branch = self.block(s.body, b_env, dead)
        some_branch = self.ret(Z, 'v_')
        return '(match self%s %s with\n| None => %s\n| Some v_ => %s\nend)' % (attr, ktxt, none_branch, some_branch)


# ------------------------------------------------------------------------------------------------ one module
class ModuleInfo:
    def __init__(self, repo, fname):
        self.path = os.path.join(repo, 'cellpylib', fname)
        self.fname = fname
        raw = open(self.path, 'rb').read()
        self.sha = hashlib.sha256(raw).hexdigest()
        self.text = raw.decode('utf-8')
        self.lines = self.text.split('\n')
        self.tree = ast.parse(self.text)
        self.imports_numpy_as_np = any(
            isinstance(n, ast.Import) and any(a.name == 'numpy' and a.asname == 'np' for a in n.names)
            for n in self.tree.body)
        if not self.imports_numpy_as_np:
            # `from .sibling import *` where sibling.py does `import numpy as np` and defines no __all__
            for n in self.tree.body:
                if isinstance(n, ast.ImportFrom) and n.level == 1 and n.module and any(a.name == '*' for a in n.names):
                    try:
                        sib = ast.parse(open(os.path.join(repo, 'cellpylib', n.module + '.py')).read())
                    except (OSError, SyntaxError):
                        continue
                    has_np = any(isinstance(m, ast.Import) and any(a.name == 'numpy' and a.asname == 'np' for a in m.names)
                                 for m in sib.body)
                    has_all = any(isinstance(m, ast.Assign) and any(isinstance(t, ast.Name) and t.id == '__all__'
                                                                   for t in m.targets) for m in sib.body)
                    shadow = any(isinstance(m, (ast.Assign, ast.FunctionDef, ast.ClassDef, ast.Import, ast.ImportFrom))
                                 and m is not n and 'np' in ([t.id for t in getattr(m, 'targets', []) if isinstance(t, ast.Name)]
                                                             + [getattr(m, 'name', '')]
                                                             + [a.asname or a.name for a in getattr(m, 'names', [])])
                                 for m in self.tree.body)
                    if has_np and not has_all and not shadow:
                        self.imports_numpy_as_np = True
        self.results = {}      # target name -> result type (of already translated targets)

    def is_sentinel(self, name):
        """NAME = object() at module level, the only binding of NAME in the module"""
        binds = [n for n in ast.walk(self.tree) if isinstance(n, ast.Name) and n.id == name
                 and isinstance(n.ctx, (ast.Store, ast.Del))]
        tops = [st for st in self.tree.body if isinstance(st, ast.Assign) and len(st.targets) == 1
                and isinstance(st.targets[0], ast.Name) and st.targets[0].id == name
                and ast.unparse(st.value) == 'object()']
        other = any((isinstance(n, ast.Global) and name in n.names) or
                    (isinstance(n, (ast.FunctionDef, ast.ClassDef)) and n.name == name) or
                    (isinstance(n, ast.arg) and n.arg == name) or
                    (isinstance(n, (ast.Import, ast.ImportFrom)) and any((a.asname or a.name) == name for a in n.names))
                    for n in ast.walk(self.tree))
        return len(binds) == 1 and len(tops) == 1 and not other

    def module_constant(self, name):
        """NAME = <integer constant expression> at module level, the only binding of NAME in the module (no other
        assignment, no `global NAME`, not a function / class / import name): its value"""
        binds = []
        for n in ast.walk(self.tree):
            if isinstance(n, ast.Name) and n.id == name and isinstance(n.ctx, (ast.Store, ast.Del)):
                binds.append(n)
            if isinstance(n, ast.Global) and name in n.names:
                return None
            if isinstance(n, (ast.FunctionDef, ast.ClassDef)) and n.name == name:
                return None
            if isinstance(n, ast.ImportFrom) and n.level == 1 and n.module and n in self.tree.body \
                    and any(a.name == name and a.asname is None for a in n.names) and not getattr(self, '_sib', False):
                # from .sibling import NAME: the constant of the sibling module (NAME must not be bound otherwise here)
                others = [m for m in ast.walk(self.tree) if isinstance(m, ast.Name) and m.id == name
                          and isinstance(m.ctx, (ast.Store, ast.Del))]
                if others:
                    return None
                try:
                    sib = ModuleInfo(os.path.dirname(os.path.dirname(self.path)), n.module + '.py')
                except (OSError, SyntaxError):
                    return None
                sib._sib = True
                return sib.module_constant(name)
            if isinstance(n, (ast.Import, ast.ImportFrom)) and any((a.asname or a.name) == name for a in n.names):
                return None
            if isinstance(n, ast.arg) and n.arg == name:
                return None
        tops = [st for st in self.tree.body if isinstance(st, ast.Assign) and len(st.targets) == 1
                and isinstance(st.targets[0], ast.Name) and st.targets[0].id == name]
        if len(binds) != 1 or len(tops) != 1:
            return None

        def ev(x):
            if _is_int_const(x):
                return x.value
            if isinstance(x, ast.UnaryOp) and isinstance(x.op, ast.USub):
                return -ev(x.operand)
            if isinstance(x, ast.BinOp) and isinstance(x.op, (ast.Add, ast.Sub, ast.Mult, ast.Pow)):
                a, b = ev(x.left), ev(x.right)
                if isinstance(x.op, ast.Pow):
                    if not 0 <= b <= 64:
                        raise ValueError
                    return a ** b
                return a + b if isinstance(x.op, ast.Add) else a - b if isinstance(x.op, ast.Sub) else a * b
            raise ValueError
        try:
            return ev(tops[0].value)
        except (ValueError, RecursionError):
            return None

    def has_function(self, name):
        return any(isinstance(n, ast.FunctionDef) and n.name == name for n in self.tree.body)

    def find_class(self, name):
        for n in self.tree.body:
            if isinstance(n, ast.ClassDef) and n.name == name:
                return n
        return None

    def method_target(self, cls, method):
        for t in TARGETS:
            if t['file'] == self.fname and t.get('cls') == cls and t['func'] == method:
                return t
        return None

    def result_type(self, name):
        return self.results.get(name)


def _class_facts(mod, clsnode, clsname):
    """check how the declared attributes are set; discover the literal constants of __init__"""
    decl = CLASS_ATTRS.get(clsname, {})
    init = None
    for n in clsnode.body:
        if isinstance(n, ast.FunctionDef) and n.name == '__init__':
            init = n
    attr_info, consts = {}, {}
    # every assignment to self.<attr> anywhere in the class
    writes = {}
    for fn in clsnode.body:
        if not isinstance(fn, ast.FunctionDef):
            continue
        for n in ast.walk(fn):
            tgs = []
            if isinstance(n, ast.Assign):
                tgs = n.targets
            elif isinstance(n, (ast.AugAssign, ast.AnnAssign)):
                tgs = [n.target]
            for tg in tgs:
                for sub in ast.walk(tg):
                    if _is_self_attr(sub) and isinstance(sub.ctx, ast.Store):
                        writes.setdefault(sub.attr, []).append((fn.name, n))
    init_params = [a.arg for a in init.args.args] if init is not None else []
    for attr, ws in writes.items():
        if len(ws) == 1 and ws[0][0] == '__init__' and isinstance(ws[0][1], ast.Assign) \
                and len(ws[0][1].targets) == 1 and _is_self_attr(ws[0][1].targets[0]) \
                and ws[0][1] in init.body:
            v = ws[0][1].value
            if _is_int_const(v) and attr not in decl:
                consts[attr] = v.value
            elif attr in decl and decl[attr][1] is not None and isinstance(v, ast.Name) and v.id == decl[attr][1] \
                    and v.id in init_params:
                attr_info[attr] = decl[attr][0]
            elif attr in decl and decl[attr][0] == ADDS and isinstance(v, ast.List) and not v.elts:
                attr_info[attr] = ADDS
            elif attr in decl and decl[attr][1] == '*':
                attr_info[attr] = decl[attr][0]
    for attr, (ty, par) in decl.items():
        if isinstance(par, str) and par.startswith('@'):
            if all(w[0] == par[1:] for w in writes.get(attr, [])) and not any(
                    isinstance(n, ast.Subscript) and isinstance(n.ctx, ast.Store) and _is_self_attr(n.value, attr)
                    for fn in clsnode.body if isinstance(fn, ast.FunctionDef) and fn.name != par[1:]
                    for n in ast.walk(fn)):
                attr_info[attr] = ty
    for attr, (ty, _) in decl.items():
        if ty == DICT5:
            # the table is only ever read by the translated methods; who fills it is the business of GenTables.v
            attr_info[attr] = DICT5
        if ty == STORE:
            attr_info[attr] = STORE
    if ADDS in [v[0] for v in decl.values()]:
        _check_grain_additions(mod, clsnode, attr_info)
    return attr_info, consts


def _check_grain_additions(mod, clsnode, attr_info):
    """elements of self._grain_additions are _GrainAddition(cell_index, timestep) appended by add_grain only"""
    ok = False
    ga = mod.find_class('_GrainAddition')
    if ga is not None:
        init = [n for n in ga.body if isinstance(n, ast.FunctionDef) and n.name == '__init__']
        if len(init) == 1 and [a.arg for a in init[0].args.args] == ['self', 'cell_index', 'timestep']:
            body = [s for s in init[0].body if not (isinstance(s, ast.Expr) and isinstance(s.value, ast.Constant))]
            want = {'cell_index', 'timestep'}
            got = set()
            for s in body:
                if isinstance(s, ast.Assign) and len(s.targets) == 1 and _is_self_attr(s.targets[0]) \
                        and isinstance(s.value, ast.Name) and s.value.id == s.targets[0].attr:
                    got.add(s.value.id)
                else:
                    got.add('?')
            others = [n for n in ga.body if isinstance(n, ast.FunctionDef) and n.name != '__init__']
            ok = got == want and not others
    # every use of self._grain_additions in the class: the for loop of __call__ and one append in add_grain
    if ok:
        for fn in clsnode.body:
            if not isinstance(fn, ast.FunctionDef) or fn.name in ('__init__', '__call__'):
                continue
            iters = set()
            for n in ast.walk(fn):
                if isinstance(n, (ast.For, ast.comprehension)) and _is_self_attr(n.iter, '_grain_additions'):
                    iters.add(id(n.iter))
            for n in ast.walk(fn):
                if _is_self_attr(n, '_grain_additions'):
                    # another method may only ITERATE over the list (for / comprehension / generator): a pure read
                    if fn.name != 'add_grain' and id(n) not in iters:
                        ok = False
        add = [n for n in clsnode.body if isinstance(n, ast.FunctionDef) and n.name == 'add_grain']
        if len(add) == 1 and [a.arg for a in add[0].args.args] == ['self', 'cell_index', 'timestep']:
            body = [s for s in add[0].body if not (isinstance(s, ast.Expr) and isinstance(s.value, ast.Constant))]
            if not (len(body) == 1 and isinstance(body[0], ast.Expr) and isinstance(body[0].value, ast.Call)
                    and isinstance(body[0].value.func, ast.Attribute) and body[0].value.func.attr == 'append'
                    and _is_self_attr(body[0].value.func.value, '_grain_additions')
                    and len(body[0].value.args) == 1 and isinstance(body[0].value.args[0], ast.Call)
                    and isinstance(body[0].value.args[0].func, ast.Name)
                    and body[0].value.args[0].func.id == '_GrainAddition'
                    and [getattr(a, 'id', None) for a in body[0].value.args[0].args] == ['cell_index', 'timestep']
                    and not body[0].value.args[0].keywords):
                ok = False
        else:
            ok = False
    if not ok:
        attr_info.pop('_grain_additions', None)


def _find_function(mod, target):
    if target.get('cls'):
        cls = mod.find_class(target['cls'])
        if cls is None:
            raise TranslationError('class %s not found in %s' % (target['cls'], mod.fname))
        fns = [n for n in cls.body if isinstance(n, ast.FunctionDef) and n.name == target['func']]
        if len(fns) != 1:
            raise TranslationError('%s.%s not found (or defined twice)' % (target['cls'], target['func']))
        return cls, fns[0]
    fns = [n for n in mod.tree.body if isinstance(n, ast.FunctionDef) and n.name == target['func']]
    if len(fns) != 1:
        raise TranslationError('function %s not found (or defined twice) in %s' % (target['func'], mod.fname))
    fn = fns[0]
    if target.get('inner'):
        # def outer(): [docstring]; def inner(...): ...; return inner
        body = [s for s in fn.body if not (isinstance(s, ast.Expr) and isinstance(s.value, ast.Constant))]
        if not (len(body) == 2 and isinstance(body[0], ast.FunctionDef) and body[0].name == target['inner']
                and isinstance(body[1], ast.Return) and isinstance(body[1].value, ast.Name)
                and body[1].value.id == target['inner'] and not fn.args.args):
            raise TranslationError('%s is not `def %s(): def %s(...): ...; return %s`' % (
                target['func'], target['func'], target['inner'], target['inner']))
        fn = body[0]
    for name in target.get('nested', []):
        # a function defined directly in the body of the enclosing one (a closure; its free variables must be
        # declared as parameters of the target: reading any other name fails as unknown)
        inner = [n for n in fn.body if isinstance(n, ast.FunctionDef) and n.name == name]
        if not inner and fn is fns[0] and len(target['nested']) == 1:
            # round 8: the closure moved out as a module-level helper `name` / `_name` (its former free variables are
            # then parameters or still the declared free names of the fragment).  Accepted only if the module defines
            # exactly one such function, binds the name nowhere else, and the enclosing function does not bind it.
            cands = [n for n in mod.tree.body if isinstance(n, ast.FunctionDef) and n.name in (name, '_' + name)]
            if len(cands) == 1 and not any(
                    (isinstance(n, ast.Name) and n.id == cands[0].name and isinstance(n.ctx, (ast.Store, ast.Del)))
                    or (isinstance(n, ast.arg) and n.arg == cands[0].name)
                    or (isinstance(n, (ast.FunctionDef, ast.ClassDef)) and n.name == cands[0].name and n is not cands[0])
                    or (isinstance(n, ast.alias) and (n.asname or n.name) == cands[0].name)
                    or (isinstance(n, (ast.Global, ast.Nonlocal)) and cands[0].name in n.names)
                    for n in ast.walk(mod.tree)):
                reach, todo = set(), [fn]
                while todo:          # it must be reachable from the enclosing function through plain calls
                    for n in ast.walk(todo.pop()):
                        if isinstance(n, ast.Call) and isinstance(n.func, ast.Name) and n.func.id not in reach:
                            reach.add(n.func.id)
                            todo += [d for d in mod.tree.body if isinstance(d, ast.FunctionDef) and d.name == n.func.id]
                if cands[0].name in reach:
                    return None, cands[0]
        if len(inner) != 1:
            raise TranslationError('nested function %s not found (or defined twice) in %s' % (name, fn.name))
        # the name must not be re-bound anywhere else in the enclosing function
        for n in ast.walk(fn):
            if isinstance(n, ast.Name) and n.id == name and isinstance(n.ctx, ast.Store):
                raise TranslationError('nested function %s is re-bound in %s' % (name, fn.name))
        fn = inner[0]
    return None, fn


def _moved_out(mod, target):
    """the name of the module-level helper a declared closure was moved out to (round 8), or None"""
    try:
        fn = _find_function(mod, target)[1]
    except TranslationError:
        return None
    return fn.name if any(fn is n for n in mod.tree.body) else None


_CUR_MOD = None


def translate_stmt_fragment(mod, target):
    """a STATEMENT RANGE inside a function, as a function of its declared free locals returning the named locals.
    target['locate_stmts'](fn) returns the list of statements (consecutive statements of one block) after checking
    the shape around them; target['returns'] names the locals whose values after the range are the result."""
    _, fn = _find_function(mod, target)
    global _CUR_MOD
    _CUR_MOD = mod
    stmts = target['locate_stmts'](fn)
    returns = target['returns']
    if isinstance(stmts, tuple):
        stmts, returns = stmts          # the locator named the locals to return (they may be called anything)
    ft = FunTrans(mod, target, None, {}, {})
    ft.mode_effects_ok = target.get('effects', False)
    env = Env(ft)
    for p, ty in target['free']:
        if p in TEMPLATE_NAMES and re.match(r'^[A-Za-z]+$', p):
            env.alias[p] = 'py_' + p
        else:
            _check_ident(fn, p)
        env.vars[p] = ty
        if p in target.get('pylists', []):
            env.pylists.add(p)
    env.nonneg = set(target.get('nonneg', [])) | set(target.get('positive', []))
    env.positive = set(target.get('positive', []))
    if _contains(stmts, (ast.Return, ast.Raise)):
        raise TranslationError('the statement range contains a return / raise')

    def k(env2):
        outs = []
        for nm in returns:
            if nm not in env2.vars:
                raise TranslationError('local %s is not defined at the end of the statement range' % nm)
            outs.append((env2.alias.get(nm, nm), env2.vars[nm]))
        if len(outs) == 1:
            return ft.ret(outs[0][1], outs[0][0])
        ty = outs[-1][1]
        for _, t in reversed(outs[:-1]):
            ty = pair_of(t, ty)
        tx = outs[-1][0]
        for n_, _ in reversed(outs[:-1]):
            tx = '(%s, %s)' % (n_, tx)
        return ft.ret(ty, tx)
    body = ft.block(stmts, env, k)
    body, cty = ft.finish(body, stmts[0])
    mod.results[target['name']] = (ft.rty, ft.effects)
    return ft.subdefs + [dict(name=target['name'], params=[(env.alias.get(p, p), ty) for p, ty in target['free']], attrs=[],
                 body=body, cty=cty, lo=stmts[0].lineno, hi=stmts[-1].end_lineno, generic=target.get('generic', ''),
                 stateful=False,
                 what='%s, the statements %s' % ('.'.join([target['func']] + target.get('nested', [])), target['what']))]


def translate_fragment(mod, target):
    """an EXPRESSION inside a function, as a function of its free locals.  target['locate'](fn) returns the
    expression node after checking the statement shape around it (raises TranslationError otherwise);
    target['free'] declares the free locals and their types (reading any other name fails as unknown)."""
    _, fn = _find_function(mod, target)
    node = target['locate'](fn)
    ft = FunTrans(mod, target, None, {}, {})
    ft.mode_effects_ok = target.get('effects', False)
    env = Env(ft)
    for p, ty in target['free']:
        if p in TEMPLATE_NAMES and re.match(r'^[A-Za-z]+$', p):
            env.alias[p] = 'py_' + p        # e.g. the Python local N is the Coq binder py_N
        else:
            _check_ident(fn, p)
        env.vars[p] = ty
        if ty == ROWS or p in target.get('pylists', []):
            env.pylists.add(p)
    env.nonneg = set(target.get('nonneg', [])) | set(target.get('positive', []))
    env.positive = set(target.get('positive', []))
    tx, ty = ft.expr(node, env)
    body = ft.wrap_binds(env, ft.ret(ty, tx))
    body, cty = ft.finish(body, node)
    mod.results[target['name']] = (ft.rty, ft.effects)
    return ft.subdefs + [dict(name=target['name'], params=[(env.alias.get(p, p), ty) for p, ty in target['free']], attrs=[],
                 body=body, cty=cty,
                 lo=node.lineno, hi=node.end_lineno, generic=target.get('generic', ''), stateful=False,
                 what='%s, the expression %s' % ('.'.join([target['func']] + target.get('nested', [])), target['what']))]


def translate_target(mod, target):
    if target.get('locate_stmts'):
        return translate_stmt_fragment(mod, target)
    if target.get('locate'):
        return translate_fragment(mod, target)
    clsnode, fn = _find_function(mod, target)
    if fn.decorator_list:
        _err(fn, 'decorated function')
    a = fn.args
    defaults_ok = not a.defaults or (target.get('none_defaults') and all(
        isinstance(d, ast.Constant) and d.value is None for d in a.defaults))
    if a.vararg or a.kwarg or a.kwonlyargs or not defaults_ok or a.posonlyargs or a.kw_defaults:
        _err(fn, 'parameter list with defaults / *args / **kwargs')
    names = [x.arg for x in a.args]
    want = (['self'] if target.get('cls') else []) + [p for p, _ in target['params']]
    if names != want:
        _err(fn, 'parameters are %s, the target declares %s' % (names, want))
    attr_info, consts = ({}, {})
    if clsnode is not None:
        attr_info, consts = _class_facts(mod, clsnode, target['cls'])
        for at in target['attrs']:
            if at not in attr_info:
                _err(fn, 'self.%s is not set the way the target declares (constructor parameter stored once in '
                         '__init__ / [] filled by add_grain only)' % at)
    ft = FunTrans(mod, target, clsnode, attr_info, consts)
    ft.mode_effects_ok = target.get('effects', False) or \
        target['name'] in ('ctrbl_call', 'reversible_call', 'until_fixed_point_timesteps')
    env = Env(ft)
    env.toplevel = True
    for p, ty in target['params']:
        if p in TEMPLATE_NAMES and re.match(r'^[A-Za-z_]+$', p) and not p.startswith('_'):
            env.alias[p] = 'py_' + p
        else:
            _check_ident(fn, p)
        env.vars[p] = ty

    global _CUR_ATTR_LOCALS
    _CUR_ATTR_LOCALS = dict(target.get('attr_locals') or {})

    def falloff(env2):
        out = [('self' + a) for a in _CUR_ATTR_LOCALS]
        if out:
            # a method without a return value that (re)builds an attribute: its result is that attribute
            if len(out) != 1 or out[0] not in env2.vars:
                _err(fn, 'self.%s may be unassigned at the end of the method' % out[0][4:])
            return ft.ret(env2.vars[out[0]], out[0])
        return ft.ret('none', 'None')
    try:
        body = ft.block(fn.body, env, falloff)
    finally:
        _CUR_ATTR_LOCALS = {}
    body, cty = ft.finish(body, fn)
    main = dict(name=target['name'],
                params=([('rs_', INNERST)] if target.get('threaded') else []) +
                       [(env.alias.get(p, p), ty) for p, ty in target['params'] if ty not in (UNUSED, CALLP)],
                attrs=[(at, attr_info[at]) for at in target['attrs'] if attr_info[at] not in ()],
                body=body, cty=cty, lo=fn.lineno, hi=fn.end_lineno, generic=target.get('generic', ''),
                stateful=ft.stateful,
                what=('%s.%s' % (target['cls'], target['func']) if target.get('cls') else
                      target['func'] + ('.' + target['inner'] if target.get('inner') else '')),
                consts=consts)
    mod.results[target['name']] = (ft.rty, ft.effects)
    return ft.subdefs + [main]


def translate_group(mod, grp):
    """a class whose methods read and WRITE attributes: the object is a record of the declared fields, a method is
    a function  state -> args -> result  (reads only),  state -> args -> state  (no return value) or
    state -> args -> state * result, wrapped in `res` when an operation in it can raise"""
    cls = mod.find_class(grp['cls'])
    if cls is None:
        raise TranslationError('class %s not found in %s' % (grp['cls'], mod.fname))
    g = grp['name']
    grp['done'] = {}
    fields = dict(grp['fields'])
    methods = {n.name: n for n in cls.body if isinstance(n, ast.FunctionDef)}
    translated = [m for m, _, _ in grp['methods']]
    # who writes which attribute
    for fn in methods.values():
        for n in ast.walk(fn):
            if _is_self_attr(n) and isinstance(n.ctx, ast.Store):
                if fn.name in grp['constructor_side']:
                    continue
                if fn.name not in translated:
                    _err(n, 'self.%s is written by %s, which is neither translated nor on the constructor side'
                         % (n.attr, fn.name))
                if n.attr not in fields:
                    _err(n, 'self.%s is written by %s but is not a declared field' % (n.attr, fn.name))
    for a, (ty, par) in grp.get('ro', {}).items():
        init = methods.get('__init__')
        ws = [n for n in ast.walk(init) if isinstance(n, ast.Assign) and len(n.targets) == 1
              and _is_self_attr(n.targets[0], a)] if init is not None else []
        if not (len(ws) == 1 and isinstance(ws[0].value, ast.Name) and ws[0].value.id == par
                and par in [x.arg for x in init.args.args]):
            raise TranslationError('self.%s is not the constructor parameter %s stored once' % (a, par))
    if grp.get('oracle'):
        om, oattr = grp['oracle']
        fn = methods.get(om)
        body = [x for x in fn.body if not (isinstance(x, ast.Expr) and isinstance(x.value, ast.Constant))] if fn else []
        ok = (fn is not None and [a.arg for a in fn.args.args] == ['self'] and len(body) == 1
              and isinstance(body[0], ast.Expr) and isinstance(body[0].value, ast.Call)
              and ast.dump(body[0].value.func) == ast.dump(ast.parse('np.random.shuffle', mode='eval').body)
              and len(body[0].value.args) == 1 and _is_self_attr(body[0].value.args[0], oattr)
              and not body[0].value.keywords and mod.imports_numpy_as_np)
        if not ok:
            raise TranslationError('%s.%s is not `np.random.shuffle(self.%s)`' % (grp['cls'], om, oattr))
    defs = []
    for meth, suffix, params in grp['methods']:
        fn = methods.get(meth)
        if fn is None:
            raise TranslationError('%s.%s not found' % (grp['cls'], meth))
        a = fn.args
        if fn.decorator_list or a.vararg or a.kwarg or a.kwonlyargs or a.defaults or a.posonlyargs:
            _err(fn, 'decorated method / parameter list with defaults')
        if [x.arg for x in a.args] != ['self'] + [pn for pn, _ in params]:
            _err(fn, 'parameters of %s are %s' % (meth, [x.arg for x in a.args]))
        t = dict(name=g + suffix, prop=grp['prop'], file=grp['file'], cls=grp['cls'], func=meth, params=params,
                 attrs=[], grp=grp)
        ft = FunTrans(mod, t, cls, {}, {})
        ft.mode_effects_ok = True
        env = Env(ft)
        for pn, ty in params:
            env.vars[_check_ident(fn, pn)] = ty
        env.vars['st'] = STATE

        def falloff(env2, ft=ft):
            return ft.ret('void', 'st')
        body = ft.block(fn.body, env, falloff)
        kinds = {k for k, _ in ft.rets}
        body, cty = ft.finish(body, fn)
        kind = ('void' if kinds == {'void'} else 'mut') if ft.mutating else 'ro'
        rty = None
        if kind != 'void':
            rty = ft.rty
        grp['done'][meth] = dict(kind=kind, res=ft.effects, rty=rty, params=params, suffix=suffix)
        defs.append(dict(name=g + suffix, params=[('st', STATE)] + params, body=body, cty=cty, lo=fn.lineno,
                         hi=fn.end_lineno, what='%s.%s' % (grp['cls'], meth), kind=kind, res=ft.effects))
    return defs


def emit_group(mod, grp, defs):
    g = grp['name']
    allf = [(f, COQ_TYPE[ty]) for f, ty in grp['fields']] + list(grp.get('hidden', []))
    out = ['(* class %s, cellpylib/%s.\n'
           '   The object is the record src_%s_state of the attributes its methods touch (plus: how many shuffles have\n'
           '   been drawn from the oracle, and the state of the wrapped rule); a method is a function of the state. *)'
           % (grp['cls'], mod.fname, g),
           'Section src_%s.' % g, '  ' + grp['context'],
           '  Record src_%s_state := src_%s_mk { %s }.' % (g, g, '; '.join('src_%s_get%s : %s' % (g, f, ty) for f, ty in allf))]
    for i, (f, ty) in enumerate(allf):
        args = ' '.join('v' if j == i else '(src_%s_get%s st)' % (g, f2) for j, (f2, _) in enumerate(allf))
        out.append('  Definition src_%s_set%s (st : src_%s_state) (v : %s) : src_%s_state := src_%s_mk %s.'
                   % (g, f, g, ty, g, g, args))
    if grp.get('oracle'):
        oattr = grp['oracle'][1]
        out.append('  (* %s.%s: np.random.shuffle(self.%s) -- the oracle hook: the i-th shuffle of the object installs\n'
                   '     `shuffle i order` *)' % (grp['cls'], grp['oracle'][0], oattr))
        out.append('  Definition src_%s_shuffle (st : src_%s_state) : src_%s_state :=\n'
                   '    src_%s_set_shuffles (src_%s_set%s st (shuffle (src_%s_get_shuffles st) (src_%s_get%s st))) '
                   '(S (src_%s_get_shuffles st)).' % (g, g, g, g, g, oattr, g, g, oattr, g))
    for d in defs:
        ps = ' '.join('(%s : %s)' % (pn, 'src_%s_state' % g if ty == STATE else COQ_TYPE[ty]) for pn, ty in d['params'])
        out.append('(* %s, cellpylib/%s\n%s *)' % (d['what'], mod.fname, _quote(mod, d['lo'], d['hi'])))
        out.append('  Definition src_%s %s : %s :=\n%s.' % (d['name'], ps, d['cty'], _indent(d['body'])))
    out.append('End src_%s.\n' % g)
    return '\n'.join(out)


# ------------------------------------------------------------------------------------------------ emission
def _indent(text):
    """indent the nested text by parenthesis depth (cosmetic only)"""
    out, depth = [], 1
    for line in text.split('\n'):
        out.append('  ' * min(depth, 12) + line)
        depth += line.count('(') - line.count(')')
    return '\n'.join(out)


def _quote(mod, lo, hi):
    src = []
    for i in range(lo, hi + 1):
        ln = mod.lines[i - 1].rstrip()
        ln = ln.replace('(*', '( *').replace('*)', '* )').replace('"', "'")
        src.append('   |  %s' % ln)
    return '\n'.join(src)


def emit_def(mod, d):
    params = []
    if d.get('generic'):
        params.append(d['generic'])
    for at, ty in d['attrs']:
        if ty == STORE:
            continue
        params.append('(self%s : %s)' % (at, COQ_TYPE[ty]))
    if d.get('stateful'):
        params.append('(st : S)')
    for p, ty in d['params']:
        if ty == ARRVIEW:
            params.append('(size_of_%s : Z) (sum_of_%s : Z)' % (p, p))     # the array is seen through .size and np.sum
        else:
            params.append('(%s : %s)' % (p, coq_type(ty)))
    head = '(* %s, cellpylib/%s\n%s *)' % (d['what'], mod.fname, _quote(mod, d['lo'], d['hi']))
    text = '%s\nDefinition src_%s %s : %s :=\n%s.\n' % (head, d['name'], ' '.join(params), d['cty'], _indent(d['body']))
    if d.get('helper'):
        text += '#[global] Hint Unfold src_%s : src_helpers.\n' % d['name']
    return text


def all_props():
    out = []
    for t in TARGETS + GROUPS:
        if t['prop'] not in out:
            out.append(t['prop'])
    return out


def gen_path(pid):
    return os.path.join(GEN, 'GenFuns_%s.v' % pid)


HEADER = ('(* GENERATED by harness/translate.py from the Python source of the cellpylib working tree under test.\n'
          '   The text depends on the translated source alone (no path, hash or line number is recorded here; the\n'
          '   sha256 of the source files is in GenFuns_%s.status.json), so an unchanged translation is byte-identical\n'
          '   whatever tree it came from.  Regenerated on every run of the property. Do not edit.  One definition\n'
          '   src_<name> per translated function; the subset and the rules are in the docstring of harness/translate.py. *)\n'
          'From Coq Require Import ZArith List Bool.\n'
          'From CPL Require Import Model.Base Model.Numbering.\n'
          'From CPL Require Export gen.GenFuns_Prelude.\n'
          'Import ListNotations.\nLocal Open Scope Z_scope.\n')


PROP_IMPORTS = {'C08': 'From CPL Require Import Model.Totalistic.\n',
                'C16': 'From CPL Require Import Model.EntropyExact.\n',
                'C17': 'From CPL Require Import Model.RuleTables.\n'}


def build(only=None):
    """-> ({pid: text}, {pid: status}); `only`: translate the functions of that property alone"""
    repo = repo_dir()
    mods = {}
    texts, stats = {}, {}
    for pid in all_props():
        if only is not None and pid != only:
            continue
        status = {'repo': repo, 'property': pid, 'functions': {}, 'files': {}, 'errors': {}}
        parts = [HEADER % pid + PROP_IMPORTS.get(pid, '')]
        for t in [t for t in TARGETS if t['prop'] == pid] + [g for g in GROUPS if g['prop'] == pid]:
            isgrp = 'methods' in t
            try:
                if t['file'] not in mods:
                    mods[t['file']] = ModuleInfo(repo, t['file'])
                mod = mods[t['file']]
                status['files'][t['file']] = mod.sha
                if isgrp:
                    defs = translate_group(mod, t)
                    parts.append(emit_group(mod, t, defs))
                else:
                    defs = translate_target(mod, t)
                    for d in defs:
                        parts.append(emit_def(mod, d))
                for d in defs:
                    status['functions']['src_' + d['name']] = {'property': pid, 'file': t['file'],
                                                               'lines': [d['lo'], d['hi']], 'type': d['cty']}
            except (TranslationError, SyntaxError, OSError, UnicodeDecodeError, RecursionError) as e:
                msg = '%s: %s' % (type(e).__name__, e)
                status['errors'][t['name']] = {'property': pid, 'file': t['file'], 'error': msg}
                parts.append('(* %s (%s): NOT TRANSLATED, cellpylib/%s\n   %s *)\n' % (
                    ('class ' + t['cls']) if isgrp else 'src_' + t['name'], pid, t['file'],
                    re.sub(r'line \d+: ', '', msg).replace('(*', '( *').replace('*)', '* )').replace('"', "'")))
        texts[pid] = '\n'.join(parts)
        stats[pid] = status
    return texts, stats


def _write_if_changed(path, text):
    old = open(path).read() if os.path.exists(path) else None
    if old == text:
        return False
    tmp = path + '.tmp%d' % os.getpid()
    open(tmp, 'w').write(text)
    os.replace(tmp, path)
    return True


def main(only=None, quiet=False):
    """write coq/gen/GenFuns_<Cxx>.v (each ONLY IF its content changed), GenFuns_Prelude.v (constant) and the
    re-export GenFuns.v (constant); `only`: the files of that property alone.  Returns {pid: status}."""
    os.makedirs(GEN, exist_ok=True)
    texts, stats = build(only)
    _write_if_changed(os.path.join(GEN, 'GenFuns_Prelude.v'), PRELUDE)
    _write_if_changed(OUT, '(* GENERATED (constant): re-export of the per-property files. Nothing on a property\'s chain imports it. *)\n'
                      'From CPL Require Export gen.GenFuns_Prelude.\n' +
                      ''.join('From CPL Require Export gen.GenFuns_%s.\n' % p for p in all_props()))
    for pid, text in texts.items():
        st = stats[pid]
        st['changed'] = _write_if_changed(gen_path(pid), text)
        st['path'] = gen_path(pid)
        try:
            json.dump(st, open(os.path.join(GEN, 'GenFuns_%s.status.json' % pid), 'w'), indent=1, default=str)
        except OSError:
            pass
        if not quiet:
            print('translate: %s %s (%d definitions, %d not translated)' % (
                st['path'], 'rewritten' if st['changed'] else 'unchanged', len(st['functions']), len(st['errors'])))
            for k, v in st['errors'].items():
                print('translate: %s NOT TRANSLATED: %s' % (k, v['error']))
    return stats


# ------------------------------------------------------------------------------------------------ run-time glue
PROP_FUNS = {
    'C11': ['src_game_of_life_rule'],
    'C14': ['src_sandpile_is_in_boundary', 'src_sandpile_call'],
    'C15': ['src_sdsr_is_in_tube', 'src_sdsr_default', 'src_sdsr_call', 'src_evoloop_default', 'src_evoloop_call',
            'src_ctrbl_call'],
    'C13': ['src_reversible_call'],
    'C06': ['src_until_fixed_point_timesteps'],
    'C07': ['src_bits_to_int', 'src_int_to_bits', 'src_binary_rule'],
    'C18': ['src_binary_derivative', 'src_cyclic_binary_derivative'],
    'C01': ['src_index_strides'],
    'C02': ['src_vn_mask', 'src_axis_indices'],
    'C10': ['src_block_indices'],
    'C03': ['src_memo_key', 'src_memo_split', 'src_get_memoized'],
    'C09': ['src_get_memoized', 'src_get_memoized2d'],
    'C04': ['src_get_memoized'],
    'C17': ['src_table_rule'],
    'C08': ['src_totalistic_rule', 'src_totalistic_rule_call'],
    'C16': ['src_shannon_symbols', 'src_shannon_count', 'src_joint_indicator', 'src_ami_guard', 'src_ami_left',
            'src_ami_right'],
    'C19': ['src_apen_maximum_distance', 'src_apen_windows', 'src_apen_count'],
    'C20': ['src_hopfield_rule', 'src_hopfield_train'],
    'C12': ['src_async_call', 'src_async_current_cell_value_1d', 'src_async_current_cell_value_2d'],
}
EXTRA_DEPS = {'C15': ['GenProps/C15Tables.v']}      # what <pid>Src.v imports besides the equivalence file
_state = {}


def chain(pid):
    return ['gen/GenFuns_%s.v' % pid, 'GenProps/GenFunsEquiv%s.v' % pid, 'GenProps/%sSrc.v' % pid,
            'Properties/%s.v' % pid]


def _stash_dir(pid):
    return os.path.join(GEN, 'genfuns_last_good_%s' % pid)


def _stash_files(pid):
    return ['gen/GenFuns_%s.v' % pid] + [r + 'o' for r in chain(pid)]


def _mt(rel):
    return os.path.getmtime(os.path.join(COQ, rel))


def _first_stale(pid, upto):
    ch = chain(pid)[:upto]
    for i, rel in enumerate(ch):
        vo = rel + 'o'
        if not os.path.exists(os.path.join(COQ, vo)) or _mt(vo) < _mt(rel):
            return i
        if i > 0 and _mt(vo) < _mt(ch[i - 1] + 'o'):
            return i
        if i == 0 and os.path.exists(os.path.join(COQ, 'gen/GenFuns_Prelude.vo')) and \
                _mt(vo) < _mt('gen/GenFuns_Prelude.vo'):
            return i
        if i == 2:
            for dep in EXTRA_DEPS.get(pid, []):
                if os.path.exists(os.path.join(COQ, dep + 'o')) and _mt(vo) < _mt(dep + 'o'):
                    return i
    return None


STATIC_DEPS = ['gen/GenFuns_Prelude.vo', 'GenProps/GenFunsClamp.vo', 'GenProps/GenFunsExt.vo', 'GenProps/GenFunsMemo.vo']


def _deps_digest():
    """digest of the compiled files every chain may depend on besides its own: the stashed .vo files are valid only
    against exactly these (a .vo compiled against another Prelude.vo is rejected by coqc: inconsistent assumptions)"""
    h = hashlib.sha256(PRELUDE.encode())
    for rel in STATIC_DEPS:
        try:
            h.update(open(os.path.join(COQ, rel), 'rb').read())
        except OSError:
            h.update(b'absent:' + rel.encode())
    return h.hexdigest()


def _stash_save(pid):
    d = _stash_dir(pid)
    os.makedirs(d, exist_ok=True)
    for rel in _stash_files(pid):
        shutil.copy2(os.path.join(COQ, rel), os.path.join(d, rel.replace('/', '__')))
    # the .vo files are only valid against the template helpers they were compiled with
    open(os.path.join(d, 'prelude_sha'), 'w').write(_deps_digest())


def _stash_current(pid):
    d = _stash_dir(pid)
    try:
        return all(os.path.getmtime(os.path.join(d, rel.replace('/', '__'))) == _mt(rel) for rel in _stash_files(pid))
    except OSError:
        return False


def _stash_restore(pid):
    """after a run in which the translation or its equivalence proof failed: put the last good GenFuns.v and the
    .vo files of this property's chain back (newest mtimes, in dependency order), so that the builds of the other
    properties are not blocked by this failure; the next run regenerates anyway"""
    st = _state.get(pid)
    if not st or not st.get('restore'):
        return
    st['restore'] = False
    d = _stash_dir(pid)
    rels = _stash_files(pid)
    if not all(os.path.exists(os.path.join(d, r.replace('/', '__'))) for r in rels):
        return
    try:
        if open(os.path.join(d, 'prelude_sha')).read() != _deps_digest():
            return            # stashed against other template helpers: restoring would leave inconsistent .vo files
    except OSError:
        return
    from harness import driver
    lk = driver._lock()
    try:
        now = time.time()
        for i, rel in enumerate(rels):
            dst = os.path.join(COQ, rel)
            shutil.copy2(os.path.join(d, rel.replace('/', '__')), dst)
            os.utime(dst, (now + i * 0.01, now + i * 0.01))
    finally:
        lk.close()


def pre_hook(ctx, pid, upto=4):
    """Regenerate GenFuns.v from the tree under test; if it changed (or a .vo of this property's chain is missing or
    stale) recompile the chain by hand under the driver's lock.  upto < 4 compiles only a prefix of the chain (C15:
    the part that does not depend on the regenerated tables, before c15.pre; the rest after it)."""
    from harness import driver
    st = _state.setdefault(pid, {'t0': time.time(), 'failed': None, 'err': '', 'status': None, 'restore': False,
                                 'recompiled': [], 'wall': 0.0})
    t0 = time.time()
    lk = driver._lock()
    try:
        if st['failed']:
            return
        if st['status'] is None:
            had_good = all(os.path.exists(os.path.join(COQ, r)) for r in _stash_files(pid)) and \
                _first_stale(pid, 4) is None
            if had_good and not _stash_current(pid):
                _stash_save(pid)
            st['had_good'] = had_good
            if not os.path.exists(os.path.join(COQ, 'gen/GenFuns_Prelude.vo')):
                main(only='-', quiet=True)      # writes the constant files only
                driver.coqc('gen/GenFuns_Prelude.v', timeout=300)
            st['status'] = main(only=pid, quiet=True)[pid]
        status = st['status']
        mine = {k: v for k, v in status['errors'].items() if v['property'] == pid}
        first = _first_stale(pid, upto)
        if first is None and not mine:
            return
        if first is None:
            first = 1          # translation error of one of this property's functions, files otherwise fresh
        def compile_from(k0):
            for rel in chain(pid)[k0:upto]:
                rc, out, err = driver.coqc(rel, timeout=900)
                st['recompiled'].append(rel)
                if rc != 0:
                    return rel, (err or out)[-2500:]
            return None, ''
        bad, errtxt = compile_from(first)
        if bad is not None and 'inconsistent assumptions' in errtxt:
            # some .vo on the chain (or the Prelude) was compiled against other dependencies (a restore, a concurrent
            # run): rebuild the Prelude and the whole chain once before declaring the obligation failed
            st['recompiled'].append('(rebuild after inconsistent assumptions)')
            driver.coqc('gen/GenFuns_Prelude.v', timeout=300)
            for dep in STATIC_DEPS[1:]:
                if os.path.exists(os.path.join(COQ, dep[:-1])):
                    driver.coqc(dep[:-1], timeout=900)
            bad, errtxt = compile_from(0)
        if bad is not None:
            st['failed'] = bad
            st['err'] = errtxt
        if st['failed'] is None and upto == 4 and not mine:
            _stash_save(pid)
        if st['failed'] is not None and os.path.isdir(_stash_dir(pid)):
            st['restore'] = True
            atexit.register(_stash_restore, pid)
    finally:
        lk.close()
        st['wall'] += time.time() - t0


def extra_hook(ctx, pid):
    """findings of the source tie for the driver (run after the correspondence)"""
    from harness import driver
    st = _state.get(pid)
    if not st:
        return []
    status = st['status'] or {}
    mine_err = {k: v for k, v in status.get('errors', {}).items() if v['property'] == pid}
    info = {'info': True, 'what': 'source translation (harness/translate.py)',
            'functions': {k: v for k, v in status.get('functions', {}).items() if v['property'] == pid},
            'not_translated': mine_err, 'GenFuns_rewritten': status.get('changed'),
            'recompiled': st['recompiled'], 'wall_s': round(st['wall'], 2),
            'source_sha256': status.get('files')}
    out = [info]
    if st['failed'] or mine_err:
        theorems = ['%s_source_tie' % pid, '%s_source_translation_agrees' % pid] + \
                   ['%s_agrees' % f for f in PROP_FUNS[pid]]
        detail = {
            'theorems': theorems,
            'failing_file': st['failed'],
            'translator_errors': mine_err,
            'coqc_error_tail': st['err'],
            'meaning': 'the Gallina definitions regenerated from the Python source (coq/gen/GenFuns.v) are no longer '
                       'proved equal to the hand-written model the theorems of %s speak about: either the source left '
                       'the translated subset (translator_errors) or its behaviour changed (coqc_error_tail)' % pid,
        }
        # replays that the correspondence (or the property oracle) wrote in this run: name the theorem there
        pat = os.path.join(driver.VERIF, driver.REPLAY_DIR, '%s-%d-*.json' % (pid, ctx.seed))
        hit = []
        for p in sorted(glob.glob(pat)):
            base = os.path.basename(p)
            if not re.match(r'^%s-\d+-(corr|oracle)\d+\.json$' % pid, base) or os.path.getmtime(p) < st['t0']:
                continue
            try:
                rp = json.load(open(p))
                rp['source_tie'] = detail
                rp['theorems'] = sorted(set(list(rp.get('theorems', [])) + theorems))
                json.dump(rp, open(p, 'w'), indent=1, default=str)
                hit.append(base)
            except (OSError, ValueError):
                pass
        if hit:
            info['source_tie_failed'] = detail
            info['failing_input_replays'] = hit
        else:
            out.append(dict(detail, what='proof obligation %s_source_tie fails: %s' % (
                pid, 'translation failed (outside the subset)' if mine_err else 'coqc rejects ' + str(st['failed'])),
                theorem='%s_source_tie' % pid, case={}, suffix=' no-failing-input-found'))
    _stash_restore(pid)
    return out


if __name__ == '__main__':
    main()
